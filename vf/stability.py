"""Stability sweep: python -m vf.stability <contract module> [repo]
Re-runs a module under different fresh-name offsets (names influence the solvers' search); reports obligations that fail under any offset,
that are only proved by z3's default (MBQI) configuration, or that take more than 10% of the time budget."""
import sys, importlib, itertools
import vf.types as T
from vf.spec import Registry
from vf import lib, idioms
from vf.driver import verify
from vf.solve import ok
if __name__ == "__main__":
    modname = sys.argv[1]; repo = sys.argv[2] if len(sys.argv) > 2 else '/repo'
    bad = {}
    for off in (0, 7, 137, 1000, 54321, 999999):
        T._fresh = itertools.count(off)
        reg = Registry(repo); lib.install(reg); idioms.install(reg)
        quals = importlib.import_module(f"contracts.{modname}").build(reg)
        obs, und, th = verify(reg, quals, verbose=False)
        for o in obs:
            if not ok(o): bad.setdefault(o.name, []).append((off, "FAIL " + str(o.status)))
            elif o.kind != "canary" and o.backend == "z3-default": bad.setdefault(o.name, []).append((off, f"mbqi-only {o.secs:.1f}s"))
            elif o.secs > 6: bad.setdefault(o.name, []).append((off, f"slow {o.backend} {o.secs:.1f}s"))
        for q, w in und: bad.setdefault(q, []).append((off, "UNDECIDED " + w))
        print(f"offset {off}: {len(obs)} obligations", flush=True)
    for n, v in sorted(bad.items()): print(n, v)
    print("fragile:", len(bad))
