"""vf2 sidecar API: contracts are plain data attached to (file, qualified name)."""
import ast, os
from .types import *

class FnSpec:
    def __init__(self, qual, params=None, ret=None, requires=None, ensures=None, raises=None, loops=None,
                 ghost=None, locals=None, modifies=None, witness=None, pure=False, exit_hints=None, call_ghosts=None, assigns=None, opaque_arith=False, exports=None):
        self.qual = qual
        self.params = dict(params or {})         # name -> Ty  (includes ghost params)
        self.ret = ret
        self.requires = dict(requires or {})     # clause name -> expr
        self.ensures = dict(ensures or {})
        self.raises = dict(raises or {})         # exc class name -> dict(when=expr, ensures={..})
        self.loops = dict(loops or {})           # ordinal -> dict(kind=?, inv={..}, snap={..}, ghost_end=[..], hints={..})
        self.ghost = list(ghost or [])           # names of params that are ghost (not Python parameters)
        self.locals = dict(locals or {})         # declared types of locals initialised with empty literals
        self.modifies = modifies                 # None = everything reachable from params may change; else list of path strings
        self.witness = witness
        self.pure = pure; self.opaque_arith = opaque_arith
        self.exports = dict(exports or {})       # callee locals (name -> Ty) whose exit values callers may refer to: at a call site a fresh value stands for each (exists-introduction:
                                                 # the callee's proof exhibits the witness), named <local>_of_<function> in the caller's ghost state
        self.assigns = list(assigns or [])       # fields this method definitely assigns before reading them (it may be called on a partially constructed object)
        self.call_ghosts = dict(call_ghosts or {})   # callee qualname -> {ghost param: expr in the caller's state}
        self.exit_hints = dict(exit_hints or {})   # proved at every normal exit, then assumed for the postconditions

class ClassSpec:
    def __init__(self, name, fields, inv=None, properties=None, bases=None):
        self.name = name; self.fields = dict(fields); self.inv = dict(inv or {}); self.properties = dict(properties or {}); self.bases = list(bases or [])
        self.ty = RecT(name, self.fields)

class SpecFun:
    """f(args..., n) defined by primitive recursion on its last (Int) parameter:
         f(.., n) = base            if n <= 0
         f(.., n) = rec             otherwise        (rec may mention f(.., n-1))
       or non-recursive (define=expr).  One definition, three interpretations (proof / counter-model / run-time)."""
    def __init__(self, name, params, ret, base=None, rec=None, define=None):
        self.name = name; self.params = list(params); self.ret = ret; self.base = base; self.rec = rec; self.define = define

class Lemma:
    def __init__(self, name, vars, stmt, induct=None, trigger=None, requires=None):
        self.name = name; self.vars = dict(vars); self.stmt = stmt; self.induct = induct; self.trigger = trigger
        self.requires = requires

class Module:
    def __init__(self, relpath):
        self.relpath = relpath; self.classes = {}; self.fns = {}
    def cls(self, name, fields, inv=None, properties=None, bases=None):
        c = ClassSpec(name, fields, inv, properties, bases); self.classes[name] = c; return c
    def fn(self, qual, **kw):
        f = FnSpec(qual, **kw); self.fns[qual] = f; return f

class Registry:
    """everything one check needs: modules, types by name, spec functions, lemmas, assumed axioms"""
    def __init__(self, repo="/repo"):
        self.repo = repo; self.modules = {}; self.types = {}; self.specfuns = {}; self.lemmas = []
        self.axioms = []            # (name, z3 formula, justification) -- assumptions, listed in the evidence
        self.native_specfuns = {}   # name -> dict(smt=callable, rt=callable)  (views of library objects)
        self._ast = {}; self.virtual = {}        # virtual[relpath] = Python source of spec-level composition lemmas (not repository code)
        self.static_checks = []      # (name, callable(reg) -> (ok: bool, detail: str)): structural obligations over the real AST
        self.call_hooks = []; self.loop_hooks = []; self.stmt_hooks = []; self.methods = {}; self.consts = {}; self.binop_hooks = {}
        self.pure_methods = {"get", "keys", "values", "items", "debug", "copy", "index", "count", "has_edge", "has_node", "neighbors", "edges", "nodes", "degree", "order", "number_of_edges", "issubset"}
    def module(self, relpath):
        m = self.modules.get(relpath) or Module(relpath); self.modules[relpath] = m; return m
    def type(self, name, t): self.types[name] = t; return t
    def specfun(self, *a, **kw): f = SpecFun(*a, **kw); self.specfuns[f.name] = f; return f
    def lemma(self, *a, **kw): l = Lemma(*a, **kw); self.lemmas.append(l); return l
    # ---- lookup
    def cls(self, name):
        for m in self.modules.values():
            if name in m.classes: return m.classes[name]
        raise KeyError(name)
    def has_cls(self, name): return any(name in m.classes for m in self.modules.values())
    def fn(self, qual):
        for m in self.modules.values():
            if qual in m.fns: return m, m.fns[qual]
        raise KeyError(qual)
    def has_fn(self, qual): return any(qual in m.fns for m in self.modules.values())
    def resolve_method(self, clsname, meth):
        """qualified name of the contract that a call of `meth` on an object of class `clsname` is checked against (the class itself, then its declared bases)"""
        seen = set(); todo = [clsname]
        while todo:
            c = todo.pop(0)
            if c in seen: continue
            seen.add(c)
            if self.has_fn(f"{c}.{meth}"): return f"{c}.{meth}", c
            if self.has_cls(c): todo += self.cls(c).bases
        return None, None
    def tree(self, relpath):
        if relpath not in self._ast:
            self._ast[relpath] = ast.parse(self.virtual[relpath] if relpath in self.virtual else open(os.path.join(self.repo, relpath)).read())
        return self._ast[relpath]
    def find_def(self, relpath, qual):
        """qualified name; components may be classes or (for closures) enclosing functions"""
        parts = qual.split("."); body = self.tree(relpath).body
        for p in parts[:-1]:
            body = next(n for n in body if isinstance(n, (ast.ClassDef, ast.FunctionDef)) and n.name == p).body
        return next(n for n in body if isinstance(n, (ast.FunctionDef,)) and n.name == parts[-1])
