"""Regenerates /verif/MANIFEST.json from vf/plans.py (single source of truth).  python -m vf.mkmanifest"""
import json, os, sys
VERIF = os.path.dirname(os.path.dirname(os.path.abspath(__file__))); sys.path.insert(0, VERIF)
from vf.plans import PLANS, NOT_APPLICABLE
ids = [json.loads(l)["id"] for l in open(os.path.join(VERIF, "properties.jsonl"))]
checks = []
for pid in ids:
    if pid not in PLANS: continue
    p = PLANS[pid]
    checks.append(dict(property_id=pid, quick_cmd=f"./check {pid} --tier quick", thorough_cmd=f"./check {pid} --tier thorough",
        evidence_file=f"/verif/evidence/{pid}.json", replay_cmd_template=f"./check {pid} --replay {{path}}", engine="vf",
        level_claimed=dict(category=p["level"], text=p["level_text"], design_ref=f"DESIGN.md section 5, {pid}"),
        level_note=p["level_note"], technique=p["technique"]))
na = [dict(property_id=pid, reason=NOT_APPLICABLE.get(pid, "check not built yet in this session (see DESIGN.md section 9, build order)")) for pid in ids if pid not in PLANS]
man = dict(version=1, setup_cmd="./setup.sh",
    hooks=dict(guard="GCMPY_VERIF", enable="no hooks: contracts are sidecar files bound by module path + qualified name; /repo is read with ast on every run and imported unmodified by the bounded stand-ins",
               baseline_off_cmd="cd /repo && /venv/bin/python -m pytest -ra -q -p no:cacheprovider --timeout=900 --continue-on-collection-errors", source_commits=[], add_only=True),
    engines=[dict(name="vf", path="/verif/vf", serves_properties=[c["property_id"] for c in checks],
                  kind_free_text="contract-based deductive verification: ast->SMT verification-condition generator over the real function bodies with sidecar contracts (pre/post, class and loop invariants, ghost state, induction lemmas), discharged by z3 and cvc5; bounded run-time-contract stand-ins (bounded/) labelled as such")],
    checks=checks, not_applicable=na,
    notes="Unguarded `fix:` commits in /repo repair the genuine defects listed in known_findings.json (fixed). Open known findings print KNOWN-FINDING lines and do not fail a check. Exit codes: 0 held, 1 VIOLATION, 2 nothing could be explored.")
json.dump(man, open(os.path.join(VERIF, "MANIFEST.json"), "w"), indent=1)
print("MANIFEST.json:", len(checks), "checks,", len(na), "not applicable")
