"""python -m vf.loopsigs [--update]: records the loop headers of every function under contract (binding data for loop invariants)."""
import sys, os, json, importlib, glob
from vf.spec import Registry
from vf import lib, idioms
from vf.sym import loop_signatures
VERIF = os.path.dirname(os.path.dirname(os.path.abspath(__file__)))
if __name__ == "__main__":
    out = {}
    for f in sorted(glob.glob(os.path.join(VERIF, "contracts", "*.py"))):
        name = os.path.basename(f)[:-3]
        if name in ("__init__", "nxlib"): continue
        reg = Registry(os.environ.get("VF_REPO", "/repo")); lib.install(reg); idioms.install(reg)
        quals = importlib.import_module(f"contracts.{name}").build(reg)
        for q in quals:
            m, spec = reg.fn(q)
            if m.relpath.startswith("<"): continue
            sig = loop_signatures(reg.find_def(m.relpath, q))
            if sig: out[f"{m.relpath}::{q}"] = sig
    p = os.path.join(VERIF, "contracts", "loop_sigs.json")
    if "--update" in sys.argv: json.dump(out, open(p, "w"), indent=1, sort_keys=True); print("recorded", len(out), "functions with loops")
    else:
        old = json.load(open(p)) if os.path.exists(p) else {}
        for k in sorted(set(out) | set(old)):
            if out.get(k) != old.get(k): print("DIFF", k, old.get(k), "->", out.get(k))
