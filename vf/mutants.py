"""Self-test of the machinery: python -m vf.mutants <property id> [name-substring]
Applies each deliberately broken (or deliberately harmless) edit of mutants/<id>.json to a scratch copy of the repository (removed
afterwards), runs ./check <id> against it and compares exit code and reported obligations/clauses with the expectation."""
import json, os, re, shutil, subprocess, sys, tempfile
VERIF = os.path.dirname(os.path.dirname(os.path.abspath(__file__)))
def main():
    pid = sys.argv[1]; flt = sys.argv[2] if len(sys.argv) > 2 else ""
    repo = os.environ.get("VF_REPO", "/repo"); muts = json.load(open(os.path.join(VERIF, "mutants", f"{pid}.json")))
    os.makedirs("/var/tmp/mut", exist_ok=True); ok = 0; bad = []
    for m in muts:
        if flt not in m["name"]: continue
        d = tempfile.mkdtemp(prefix="m.", dir="/var/tmp/mut")
        try:
            subprocess.check_call(["cp", "-r", os.path.join(repo, "gcmpy"), d])
            for ed in m["edits"]:
                p = os.path.join(d, ed["file"]); s = open(p).read()
                if s.count(ed["old"]) != 1: raise SystemExit(f"{m['name']}: edit does not apply uniquely ({s.count(ed['old'])} matches) in {ed['file']}")
                open(p, "w").write(s.replace(ed["old"], ed["new"]))
            r = subprocess.run([os.path.join(VERIF, "check"), pid, "--tier", "quick"], env=dict(os.environ, VF_REPO=d, VF_EVIDENCE_DIR=d), capture_output=True, text=True)
            out = r.stdout; viol = re.findall(r"VIOLATION .*", out)
            want_exit = 0 if m["expect"] == "ok" else 1
            good = r.returncode == want_exit and (m["expect"] == "ok" or any(re.search(m["expect"], v) for v in viol))
            tag = "ok  " if good else "MISS"
            print(f"{tag} {m['name']}: exit={r.returncode} " + "; ".join(v.split("replay=")[1].split(" ", 1)[-1][:90] for v in viol[:3]) + ("" if good else f"   (expected {m['expect']})"))
            if good: ok += 1
            else: bad.append(m["name"]); print(out[-1500:]); print(r.stderr[-800:])
        finally: shutil.rmtree(d, ignore_errors=True)
    print(f"{pid}: {ok} as expected, {len(bad)} not: {bad}")
    sys.exit(0 if not bad else 1)
if __name__ == "__main__": main()
