"""Self-test of the machinery: python -m vf.mutants <property id> [name-substring]
Applies each deliberately broken (or deliberately harmless) edit of mutants/<id>.json to a scratch copy of the repository (removed
afterwards), runs ./check <id> against it and compares exit code and reported obligations/clauses with the expectation."""
import json, os, re, shutil, subprocess, sys, tempfile
builtins_print = print
VERIF = os.path.dirname(os.path.dirname(os.path.abspath(__file__)))
def main():
    from concurrent.futures import ThreadPoolExecutor
    args = [a for a in sys.argv[1:] if not a.startswith("--")]; pid = args[0]; flt = args[1] if len(args) > 1 else ""
    repo = os.environ.get("VF_REPO", "/repo"); muts = json.load(open(os.path.join(VERIF, "mutants", f"{pid}.json")))
    os.makedirs("/var/tmp/mut", exist_ok=True); results = []
    def one(m):
        lines = []
        def print(*a): lines.append(" ".join(str(x) for x in a))
        good = False
        d = tempfile.mkdtemp(prefix="m.", dir="/var/tmp/mut")
        try:
            subprocess.check_call(["cp", "-r", os.path.join(repo, "gcmpy"), d])
            for ed in m["edits"]:
                p = os.path.join(d, ed["file"]); s = open(p).read()
                if s.count(ed["old"]) != 1: raise RuntimeError(f"{m['name']}: edit does not apply uniquely ({s.count(ed['old'])} matches) in {ed['file']}")
                open(p, "w").write(s.replace(ed["old"], ed["new"]))
            r = subprocess.run([os.path.join(VERIF, "check"), pid, "--tier", "quick"], env=dict(os.environ, VF_REPO=d, VF_EVIDENCE_DIR=d), capture_output=True, text=True)
            out = r.stdout; viol = re.findall(r"VIOLATION .*", out)
            want_exit = 0 if m["expect"] == "ok" else 1
            good = r.returncode == want_exit and (m["expect"] == "ok" or any(re.search(m["expect"], v) for v in viol))
            tag = "ok  " if good else "MISS"
            print(f"{tag} {m['name']}: exit={r.returncode} " + "; ".join(v.split("replay=")[1].split(" ", 1)[-1][:90] for v in viol[:3]) + ("" if good else f"   (expected {m['expect']})"))
            if not good: print(out[-1500:]); print(r.stderr[-800:])
        finally: shutil.rmtree(d, ignore_errors=True)
        return m["name"], good, "\n".join(lines)
    todo = [m for m in muts if flt in m["name"]]
    with ThreadPoolExecutor(int(os.environ.get("VF_MUTANT_JOBS", "3"))) as ex:
        for name, good, text in ex.map(one, todo):
            results.append((name, good)); builtins_print(text, flush=True)
    bad = [n for n, g in results if not g]
    builtins_print(f"{pid}: {len(results) - len(bad)} as expected, {len(bad)} not: {bad}")
    if "--json" in sys.argv: builtins_print(json.dumps(dict(mutants=len(results), as_expected=len(results) - len(bad), unexpected=bad)))
    sys.exit(0 if not bad else 1)
if __name__ == "__main__": main()
