"""developer runner: python -m vf.run <contract module> [repo]"""
import sys, importlib
from vf.spec import Registry
from vf import lib, idioms
from vf.driver import verify
if __name__ == "__main__":
    modname = sys.argv[1]; repo = sys.argv[2] if len(sys.argv) > 2 else '/repo'
    reg = Registry(repo); lib.install(reg); idioms.install(reg)
    quals = importlib.import_module(f"contracts.{modname}").build(reg)
    print(modname, repo); verify(reg, quals)
