"""vf2 type layer: Python-level type descriptors and their z3 sorts.
Every symbolic value is a single z3 expression of the descriptor's sort."""
import itertools, re
import z3

_dt_cache = {}
_sort_cache = {}
_fresh = itertools.count()

def _san(s): return re.sub(r"[^A-Za-z0-9_]", "_", s)

class Ty:
    mutable = False
    def sort(self): raise NotImplementedError
    def __eq__(self, o): return type(self) is type(o) and repr(self) == repr(o)
    def __hash__(self): return hash(repr(self))

class IntT(Ty):
    def sort(self): return z3.IntSort()
    def __repr__(self): return "Int"
class RealT(Ty):
    def sort(self): return z3.RealSort()
    def __repr__(self): return "Real"
class BoolT(Ty):
    def sort(self): return z3.BoolSort()
    def __repr__(self): return "Bool"
class NoneT(Ty):
    def sort(self): return z3.BoolSort()
    def __repr__(self): return "None"
INT, REAL, BOOL, NONE = IntT(), RealT(), BoolT(), NoneT()

class Elem(Ty):
    """uninterpreted sort with equality: vertices, names, opaque hashables, read-only library objects"""
    def __init__(self, name): self.name = name
    def sort(self):
        if self.name not in _sort_cache: _sort_cache[self.name] = z3.DeclareSort(self.name)
        return _sort_cache[self.name]
    def __repr__(self): return self.name

class _DT(Ty):
    """datatype-backed types"""
    def key(self): raise NotImplementedError
    def fields(self): raise NotImplementedError       # list of (name, z3 sort)
    def dt(self):
        k = self.key()
        if k not in _dt_cache:
            d = z3.Datatype(_san(k)); d.declare("mk", *self.fields()); _dt_cache[k] = d.create()
        return _dt_cache[k]
    def sort(self): return self.dt()
    def mk(self, *a): return self.dt().mk(*a)
    def get(self, z, f):
        dt = self.dt()
        if z3.is_app(z) and z.num_args() > 0 and z.decl().eq(dt.constructor(0)):        # accessor applied to the constructor: read the field directly (keeps terms and triggers small)
            for i in range(dt.constructor(0).arity()):
                if dt.accessor(0, i).name() == f: return z.arg(i)
        return getattr(dt, f)(z)
    def __repr__(self): return self.key()

class ListT(_DT):
    """list / tuple of T.  tagged=True adds is_tuple (tuple vs list kind)"""
    mutable = True
    def __init__(self, elem, tagged=False): self.elem = elem; self.tagged = tagged
    def key(self): return f"List<{self.elem!r}>" + ("#" if self.tagged else "")
    def fields(self):
        f = [("len", z3.IntSort()), ("arr", z3.ArraySort(z3.IntSort(), self.elem.sort()))]
        if self.tagged: f.append(("is_tuple", z3.BoolSort()))
        return f
    def len(self, z): return self.get(z, "len")
    def arr(self, z): return self.get(z, "arr")
    def kind(self, z): return self.get(z, "is_tuple")
    def make(self, ln, arr, like=None, kind=None):
        if not self.tagged: return self.mk(ln, arr)
        return self.mk(ln, arr, kind if kind is not None else (self.kind(like) if like is not None else z3.BoolVal(False)))
    def at(self, z, i): return z3.Select(self.arr(z), i)

class DictT(_DT):
    mutable = True
    def __init__(self, k, v): self.k = k; self.v = v
    def key(self): return f"Dict<{self.k!r},{self.v!r}>"
    def fields(self): return [("dom", z3.ArraySort(self.k.sort(), z3.BoolSort())), ("val", z3.ArraySort(self.k.sort(), self.v.sort()))]
    def dom(self, z): return self.get(z, "dom")
    def val(self, z): return self.get(z, "val")

class SetT(Ty):
    mutable = True
    def __init__(self, elem): self.elem = elem
    def sort(self): return z3.ArraySort(self.elem.sort(), z3.BoolSort())
    def __repr__(self): return f"Set<{self.elem!r}>"

class PairT(_DT):
    def __init__(self, a, b): self.a = a; self.b = b
    def key(self): return f"Pair<{self.a!r},{self.b!r}>"
    def fields(self): return [("fst", self.a.sort()), ("snd", self.b.sort())]
    def fst(self, z): return self.get(z, "fst")
    def snd(self, z): return self.get(z, "snd")

class ArrT(Ty):
    """ghost total map"""
    def __init__(self, k, v): self.k = k; self.v = v
    def sort(self): return z3.ArraySort(self.k.sort(), self.v.sort())
    def __repr__(self): return f"Arr<{self.k!r},{self.v!r}>"

class RecT(_DT):
    """object of a class under contract: a record of its fields (value semantics; aliasing of objects is out of the subset)"""
    mutable = True
    def __init__(self, name, fields): self.name = name; self.fs = dict(fields)     # name -> Ty (ordered)
    def key(self):
        # the same class may be modelled with different field types by different contract modules run in one process: the z3 datatype is keyed by the field signature too
        import hashlib
        sig = hashlib.md5(repr([(f, repr(t)) for f, t in self.fs.items()]).encode()).hexdigest()[:6]
        return f"Rec<{self.name}>.{sig}"
    def fields(self): return [(_san(f), t.sort()) for f, t in self.fs.items()]
    def getf(self, z, f): return self.get(z, _san(f))
    def setf(self, z, f, v): return self.mk(*[(v if g == f else self.getf(z, g)) for g in self.fs])

class Val:
    __slots__ = ("t", "z", "meta")
    def __init__(self, t, z, meta=None): self.t = t; self.z = z; self.meta = meta
    def __repr__(self): return f"<{self.t!r}: {self.z}>"

def fresh(t, hint="v"):
    return Val(t, z3.Const(f"{_san(hint)}!{next(_fresh)}", t.sort()))
def fresh_int(hint="i"): return z3.Int(f"{_san(hint)}!{next(_fresh)}")
def uid(): return next(_fresh)

def wf(v, depth=0):
    """type invariants of a well-typed Python value (assumed where values are introduced)"""
    t, z = v.t, v.z
    if isinstance(t, ListT):
        out = [t.len(z) >= 0]
        if isinstance(t.elem, (ListT, RecT, PairT)) and depth < 2:
            i = fresh_int("wf"); inner = wf(Val(t.elem, t.at(z, i)), depth + 1)
            if inner: out.append(z3.ForAll([i], z3.Implies(z3.And(0 <= i, i < t.len(z)), z3.And(*inner))))
        return out
    if isinstance(t, RecT):
        out = []
        for f, ft in t.fs.items(): out += wf(Val(ft, t.getf(z, f)), depth)
        return out
    if isinstance(t, PairT):
        return wf(Val(t.a, t.fst(z)), depth) + wf(Val(t.b, t.snd(z)), depth)
    if isinstance(t, DictT) and isinstance(t.v, (ListT, RecT, PairT, DictT)) and depth < 2:
        k = z3.Const(f"wfk!{uid()}", t.k.sort()); inner = wf(Val(t.v, z3.Select(t.val(z), k)), depth + 1)
        return [z3.ForAll([k], z3.Implies(z3.Select(t.dom(z), k), z3.And(*inner)))] if inner else []
    return []

def empty(t):
    """value of an empty container of type t"""
    if isinstance(t, ListT):
        return Val(t, t.make(z3.IntVal(0), z3.Const(f"ea!{uid()}", z3.ArraySort(z3.IntSort(), t.elem.sort())), kind=z3.BoolVal(False)))
    if isinstance(t, DictT):
        return Val(t, t.mk(z3.K(t.k.sort(), z3.BoolVal(False)), z3.Const(f"ed!{uid()}", z3.ArraySort(t.k.sort(), t.v.sort()))))
    if isinstance(t, SetT):
        return Val(t, z3.K(t.elem.sort(), z3.BoolVal(False)))
    raise TypeError(t)
