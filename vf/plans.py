"""Per-property plans: which sidecar contract modules carry the property (proof part), which bounded stand-in accompanies it,
the level claimed, what each clause rests on, and what is not decided.  Obligation selection: `only` / `skip` are regexes on
obligation names; safety obligations (safe.*, raises) of every function a property uses always count for it."""
PLANS = {}
NOT_APPLICABLE = {}
PLANS["C20"] = dict(
    level="proof", bounded="c20",
    technique="deductive verification of the real DrawSet methods against sidecar contracts (class invariant + abstract set view), VCs from the AST discharged by z3/cvc5; bounded history enumeration as labelled stand-in",
    level_text="Every method of the real class is proved against a contract stating set semantics over the abstract view, for all states satisfying the representation invariant and all RNG outcomes; the class is loop-free so the obligations are complete, and induction over histories follows from per-operation refinement.",
    level_note="Trusted: the vf VC generator, z3/cvc5, assumed contracts of list.append/pop, dict.pop/in, random.choice (returns seq[r] for arbitrary valid r); A-HASH; meta-lemmas M-CARD, M-SIM.",
    modules=[dict(name="draw_set")],
    explanation="Every method of the real DrawSet is verified against its contract (class invariant I1/I2 + abstract view = key set of the index map); "
                "the class is loop-free, so the obligations are complete for all states satisfying the invariant, and induction over histories is the "
                "standard simulation argument (meta-lemma M-SIM). Bounded stand-in (not counted as proof): all histories up to the bound compared with a plain set.",
    clauses={"set semantics of add/remove/contains/len/iter": "proved (ensures.view, ensures.len, iter.*, member)",
             "adding a present element changes nothing": "proved (add:ensures.noop_if_present)",
             "draw returns a member": "proved (draw:ensures.member)",
             "every member can be drawn": "assumed contract of random.choice (any index of the member list) + iter.all; exercised by the stand-in",
             "removing an absent element raises and leaves the structure intact": "proved (remove:raises.KeyError.*)"},
    assumptions=["M-CARD: a duplicate-free enumeration of S has |S| entries", "M-SIM: per-operation refinement of the abstract set gives refinement for every history"])

PLANS["C05"] = dict(
    level="proof", bounded="c05",
    modules=[dict(name="joint_degree")],
    technique="deductive verification of the real handshaking_lemma (nested loops, inductive invariants over a column-sum spec function, engine-proved update lemma) and sample_jds_from_jdd (modular call, aligned weighted draw) by VCs from the AST in z3/cvc5; bounded RNG-exhaustive run-time contracts as labelled stand-in",
    level_text="For all N, all dimensions, all size vectors and every outcome of random.choices / random.randrange the real functions are proved to return N tuples, never below the drawn keys, with per-topology totals equal to the drawn totals plus the minimal padding (hence divisible and < size added), drawn from the aligned key/weight lists of the current distribution. Proportionality of the draw is the assumed contract of random.choices.",
    level_note="Trusted: vf VC generator, z3/cvc5; assumed contracts: list(map(sum, zip(*rows))) = column sums, list(d.keys())/list(d.values()) aligned, random.choices returns k members of the population (in proportion to the weights: assumed, not re-tested), random.randrange(a,b) in [a,b). Lemma colsum_update is proved by the engine by induction.",
    explanation="handshaking_lemma and sample_jds_from_jdd are verified on the real source for all inputs and all RNG outcomes (loop invariants: processed columns final, unprocessed untouched, current column = old sum + iterations). "
                "Bounded stand-in (not counted as proof): small distributions x sizes x N, every choices/randrange resolution, plus sample/re-load/sample histories.",
    clauses={"exactly N non-negative integer tuples": "proved (ensures.len, rows_are_tuples, inv rowlen/ge)",
             "totals divisible by motif size": "proved (ensures.divisible)",
             "fewest added stubs, fewer than the motif size, never a removal": "proved (ensures.minimal_padding, never_removed)",
             "keys drawn in proportion to their weights": "proved that choices is called with aligned keys/weights of the current distribution and k=N; proportionality itself is the assumed library contract",
             "entries usable wherever a joint degree sequence is accepted": "proved as rows_are_tuples (hashable tuples); exercised downstream by the stand-in"},
    not_decided=["the probability law of random.choices (assumed library contract)"])

_GEN_ASSUME = ["flatten-repeat idiom (chain.from_iterable(starmap(repeat, enumerate(col)))) yields vertex v exactly jds[v][k] times: assumed library contract, exercised by the stand-in",
               "iteration_utilities.grouper(xs, n) yields consecutive n-slices", "random.shuffle(xs) replaces xs by an arbitrary permutation of itself",
               "M-COUNT: a permutation preserves the number of occurrences of every vertex (meta-lemma)"]
PLANS["C01"] = dict(
    level="other", bounded="c01",
    modules=[dict(name="gen_fast", skip=r"\.(name|par1|par2)$"), dict(name="motifs")],
    technique="deductive verification of the real GCMAlgorithmFast.random_clustered_graph (inductive loop invariants with ghost maps for motif -> topology / stub position / column offset), the three motif generators and the id generator, VCs from the AST in z3/cvc5; network, custom-motif and dispatch paths by bounded shuffle-exhaustive run-time contracts (labelled stand-in)",
    level_text="Proved for all inputs and all shuffle outcomes on the real fast generator: every emitted block is the build callback of its topology applied to one full-size slice of that topology's permuted stub list, the stub lists have the column sums as lengths, the joint degree sequence is carried through; the motif generators return exactly the documented edge sets. The network and custom-motif generators and the factory path are covered by the bounded stand-in only, hence level `other` rather than `proof`.",
    level_note="Trusted: vf VC generator, z3/cvc5; assumed library contracts (flatten-repeat, grouper, shuffle = arbitrary permutation, list.extend, combinations, tee/zip); A-CALLBACK. Bounded part: N <= 4/5, <= 3 columns, <= 6 stubs per column, every shuffle outcome up to the cap.",
    explanation="PROVED (all inputs, all RNG outcomes): fast generator block structure (blk_lo/blk_hi/edge: block m = build_k(slice of the shuffled stub list at rec_pos[m] of length size_k)), full groups only (hint full_group, inv pos/posmod), stub list lengths = column sums (lens), jds carried through (jds_carried), loop0 = each list is replaced by a permutation of itself (done/todo); clique/cycle/diamond motif generators and infinite_sequence. "
                "BOUNDED (stand-in, not proof): exact motif counts and per-vertex slot counts for the fast, network and custom-motif generators, direct and via load_gcm_algorithm, over every shuffle outcome of small inputs.",
    clauses={"each motif = build callback applied to size_k drawn stubs": "proved for the fast generator (inv edge/blk_lo/blk_hi + hint full_group); bounded for network/custom",
             "exactly colsum_k/size_k instances per topology; each vertex occupies exactly jds[v][k] slots": "fast: follows from the proved tiling of the permuted stub list + M-COUNT; checked directly (bounded) on all three generators",
             "joint degree sequence carried through unchanged": "proved (ensures.jds_carried) for fast; bounded for network/custom",
             "no vertex outside 0..N-1": "vertices are enumerate indices (assumed flatten-repeat contract); bounded check",
             "factory / main dispatch": "bounded (class identity + same behaviour)"},
    assumptions=_GEN_ASSUME, not_decided=[])
PLANS["C02"] = dict(
    level="other", bounded="c02",
    modules=[dict(name="gen_fast")],
    technique="deductive verification of the real fast generator's column structure (thirteen-conjunct inductive invariant with ghost maps rec_start/rec_k/rec_pos) by VCs from the AST in z3/cvc5; custom-motif and network generators by bounded shuffle-exhaustive run-time contracts (labelled stand-in)",
    level_text="Proved for all inputs and all shuffle outcomes on the real fast generator: the three columns have equal length, motif ids are a running counter, the entries of one id form one contiguous block equal to what one callback call returned, every entry carries its topology's name. The custom-motif generator (bare edge / two-edge corner cases) and the network annotations are covered by the bounded stand-in only.",
    level_note="Trusted: vf VC generator, z3/cvc5; assumed contracts of list.extend, [x]*n, grouper, shuffle; LightWeightEdgeList properties are trivial getters/setters (resolved to fields). Bounded part as C01.",
    explanation="PROVED: par1/par2 (parallel columns), ids (range), blk_lo/blk_hi/edge (block content), name, chain0/chain/chainN (blocks are consecutive and exhaustive) for the fast generator; ensures.columns_parallel. BOUNDED (stand-in): the same clauses on the custom-motif generator (including a bare edge, one-edge lists, two-edge motifs, per-edge names, multi-orbit motifs) and the annotations produced by the network generator.",
    clauses={"columns have the same length": "proved (fast: ensures.columns_parallel, inv par1/par2); bounded (custom)",
             "entries sharing an id are exactly one callback's edges; ids distinct per instance": "proved (fast: ids, blk_lo, blk_hi, edge, chain*); bounded (custom, network)",
             "names": "proved (fast: inv name); bounded (custom per-edge names, bare name)",
             "every entry is a pair of vertex ids": "requires the callback to return pairs (A-CALLBACK); bounded check"},
    assumptions=_GEN_ASSUME)
PLANS["C03"] = dict(
    level="other", bounded="c03",
    modules=[dict(name="gen_fast", only=r"loop0\.|loop2\.(hint|preserve\.(edge|blk_lo|blk_hi|pos|posmod|full))|jds_carried|lens|stubs")],
    technique="reduction by contract: the placement is proved to be the grouping of independently permuted canonical stub lists (VCs from the AST, z3/cvc5), uniformity of random.shuffle is an assumed library contract; exact placement frequencies over all shuffle outcomes as bounded stand-in",
    level_text="A distribution is not a postcondition of one call, so the property is reduced: (i) proved: every stub list is replaced by an arbitrary permutation of itself before grouping and the emitted placement is the consecutive-slice grouping of those permuted lists (for every permutation, so no placement is unreachable); (ii) assumed: random.shuffle applies a uniform permutation independently per call; (iii) meta-lemma M-PUSH: the push-forward of independent uniform permutations under grouping is the configuration-model measure. The stand-in drives the real generators through every shuffle outcome and compares exact placement frequencies with an independent model.",
    level_note="Trusted: vf VC generator, z3/cvc5; assumed: uniformity and independence of random.shuffle (never re-tested), M-PUSH (paper argument). Bounded part: <= 6 stubs per topology, <= 2/3 topologies, cases whose outcome space is <= the cap are compared exactly.",
    explanation="PROVED: loop0 invariants (done: processed lists are permutations of the originals; todo: the others untouched), grouping of the shuffled lists (edge/blk/pos). ASSUMED: uniform independent shuffles. BOUNDED: exact frequency of every placement over all shuffle outcomes equals the product of per-topology configuration-model frequencies (fast, network, custom incl. multi-orbit and identical columns).",
    clauses={"every assignment equally likely, independently per topology": "reduction proved + assumed uniform shuffle; exact frequencies on small inputs (bounded)",
             "no placement unreachable": "proved: the permutation is arbitrary (universally quantified ghost)",
             "none favoured by vertex order": "bounded frequencies; follows from uniformity"},
    assumptions=_GEN_ASSUME + ["M-PUSH: push-forward of independent uniform permutations under consecutive grouping is the configuration-model measure"],
    not_decided=["uniformity of CPython's random.shuffle itself (assumed library contract)"])

PLANS["C04"] = dict(
    level="proof", bounded="c04",
    modules=[dict(name="convert")],
    technique="deductive verification of the real EdgeListToNetwork.convert and NetworkToEdgeList.convert over an abstract networkx graph state (assumed library contracts), dictionary-building loop invariants, and a round-trip lemma over the two contracts, VCs from the AST in z3/cvc5; exhaustive small edge lists as labelled stand-in",
    level_text="Both conversions are proved against contracts stating exactly the property (node set = 0..N-1 with annotations, adjacency iff the pair occurs, single-occurrence entries keep their name and motif id, reverse direction reads back annotations along the library's edge enumeration); the round trip is a lemma verified modularly from the two contracts alone. For all edge lists (any N, zero-degree vertices, self-loops, repeats).",
    level_note="Trusted: vf VC generator, z3/cvc5; assumed networkx contracts: Graph(), add_nodes_from, add_edges_from, set_node_attributes, set_edge_attributes, G.edges() (duplicate-free enumeration), G.nodes[n][k], G.edges[e][k], len(G.nodes()); dict/list primitives.",
    explanation="PROVED on the real source for all inputs: forward conversion (nodes, joint_degree, edges, attrs_once, all_edges_annotated, attrs_symmetric, input unchanged; loop invariants 'domain = entries seen so far, last writer wins'), reverse conversion (joint degrees, edge list = library edge enumeration, aligned annotations, no KeyError under the stated precondition), and the round-trip lemma (same joint degrees, no edge lost or invented, each edge once, annotations of single entries survive). BOUNDED (stand-in): every edge list with <= 3 entries over 3 vertices.",
    clauses={"one vertex per joint degree entry, annotated": "proved (convert:ensures.nodes, ensures.joint_degree)",
             "edge iff the pair occurs": "proved (ensures.edges)",
             "single-occurrence entries keep topology and motif id": "proved (ensures.attrs_once)",
             "round trip is the identity up to order and orientation": "proved (RoundTrip.roundtrip:ensures.*) from the two contracts"})

PLANS["C13"] = dict(
    level="other", bounded="c13",
    modules=[dict(name="ejk")],
    technique="deductive verification of the real extractor (count_edge_types, get_ejk, get_ejks, overall-degree get_ejk) against recursive spec functions over the library's edge enumeration, with engine-proved induction lemmas (symmetry, positivity of counts), VCs from the AST in z3/cvc5; exact-Fraction recomputation on small networks as labelled stand-in",
    level_text="Proved for all annotated networks and all call histories: the per-topology counter is a function of the graph alone (so repeated extraction returns the same matrices), each matrix entry equals the accumulated weight spec wr (h to (a,b) and h to (b,a) per edge of the topology, h = 1/(2 E_t)), matrices are symmetric (lemma by induction), same law for the overall-degree variant. 'Sums to 1' and 'row sums = excess distribution' need finite-map sums (M-SUM) and are decided by the bounded stand-in only, hence `other`.",
    level_note="Trusted: vf VC generator, z3/cvc5; assumed: G.edges() is a fixed duplicate-free enumeration of an unmodified graph, G.edges[e][k]/G.nodes[n][k] read annotations, G.degree; L-CAT (tuple concatenation of equal-length tuples as a pair); A-REAL; tuples in normal form. Lemmas cnt_nonneg, cnt_positive, wr_symmetric, wr_zero_without_edges, wd_symmetric are proved by the engine by induction.",
    explanation="PROVED: count_edge_types:ensures.counts_are_a_function_of_the_graph (old(_num_edges) does not occur), get_ejk:ensures.exact / symmetric, get_ejks:each_matrix_exact with fresh counts, no KeyError/ZeroDivisionError (lemma cnt_positive), JointExcessDegree.get_ejk exact/symmetric. BOUNDED (stand-in): exact recomputation with Fractions incl. mass 1 and row sums on small networks, 1-3 extractions per object.",
    clauses={"entry = fraction of the topology's edge ends with (own excess, partner excess)": "proved (get_ejk:ensures.exact over spec wr) + bounded recomputation",
             "symmetric": "proved (lemma wr_symmetric by induction; ensures.symmetric)",
             "sums to 1; row sums equal the excess distribution": "bounded only (needs the finite-map sum theory M-SUM)",
             "asking again returns the same matrices": "proved (counts are a function of the graph; get_ejks reads only the graph and the fresh counts)",
             "overall-degree variant": "proved (JointExcessDegree.get_ejk:ensures.exact, symmetric)"},
    not_decided=["mass-one and row-sum clauses are not proved (bounded only)"])

_MCMC_ASSUME = ["G.edges[e][name] / G.nodes[n][name] read annotations of a clean annotated network (edge and annotation exist)", "G.has_edge reads the adjacency", "L-CAT",
                "the @proposal_efficiency decorator returns what the wrapped function returns (counting only)"]
PLANS["C11"] = dict(
    level="other", bounded="c11",
    modules=[dict(name="mcmc", only=r"(pair\.|is_edge_choice_suitable|get_other_vertex|append_proposal_edges|get_hashmap|get_all_edges|MarkovChainMonteCarloRewiring\.__init__|rewire:static)", expected_open=[r"pair\.(u_side_joins_v_motif|v_side_joins_u_motif)"])],
    technique="deductive verification of the real proposal construction and suitability test (swap_condition pairing clauses with a ghost map of popped partners, is_edge_choice_suitable with four loop invariants, helpers) by VCs from the AST in z3/cvc5; the whole randomized run by bounded run-time postconditions of rewire over every prefix of the swap history (labelled stand-in); one open known finding (motif-id pairing)",
    level_text="Proved for all inputs: proposal 2i is (u0, v1_i) and proposal 2i+1 is (v0, u1_i) with the popped partner of the same topology; a suitable choice has equal corner sizes, pairwise different motif ids, no proposed edge already present and no proposed self-loop; helpers. The motif-id pairing obligations (the corner that moves into a motif takes that motif's id) FAIL on the current tree and are an OPEN KNOWN FINDING (the repair makes the repository's own test time out). The whole-run clauses (input untouched, vertices, annotations, edge count, per-vertex per-topology degrees, no self-loop, default limits) are bounded only.",
    level_note="Trusted: vf VC generator, z3/cvc5; assumed networkx read contracts; A-CALLBACK n/a. Bounded part: clean generator networks N <= 14 (24 thorough), every prefix of the swap history for limits 0..5 and the default, runs that exceed the RNG-draw budget are abandoned (termination/liveness is not claimed).",
    explanation="PROVED: swap_condition pair.len / pair.u_side_edge / pair.v_side_edge; is_edge_choice_suitable same_size / different_motifs / proposed_edges_absent / no_proposed_self_loop (58 obligations); get_other_vertex, append_proposal_edges, get_hashmap; get_all_edges (exactly the edges at the focal vertex carrying the drawn edge's motif id, oriented from it); __init__ over a parameter-record model (with the optional keys absent the object is constructed, the convergence limit is 10 * number_of_edges() >= 0, the search limit 25); STRUCTURAL (discharged): rewire copies the network once and mutates / returns only the copy. OPEN KNOWN FINDING: pair.u_side_joins_v_motif / pair.v_side_joins_u_motif. BOUNDED: run-time postcondition of rewire (input untouched, same vertices and annotations, same edge count, per-vertex per-topology degrees, no self-loop, default limits usable, motif shape = known finding).",
    clauses={"never modifies the given network; same vertex set and annotations; same number of edges; per-vertex per-topology degrees": "bounded (whole-run postcondition on every history prefix)",
             "no self-loop or duplicate edge": "proved at the suitability test (no_proposed_self_loop, proposed_edges_absent) + bounded whole run",
             "edges sharing a motif id still form the motif": "OPEN KNOWN FINDING F8b (obligations pair.*_joins_*_motif fail; bounded clause motif_shape fails on the first accepted swap)",
             "default limits": "bounded (construction without optional keys; convergence limit is a non-negative int)"},
    assumptions=_MCMC_ASSUME, not_decided=["termination of the rewiring loop when no swap can be accepted (liveness)"])
PLANS["C12"] = dict(
    level="other", bounded="c12",
    modules=[dict(name="mcmc", skip=r"(pair\.|is_edge_choice_suitable|get_all_edges|MarkovChainMonteCarloRewiring\.__init__|rewire:static)", expected_open=[r"pair\.(u_side_joins_v_motif|v_side_joins_u_motif)"])],
    technique="deductive verification of the real swap_condition acceptance rule (True implies every proposal's pairing key is present with positive weight in its topology's target matrix; numerator-loop invariant in nonlinear real arithmetic) and of the key views / key builders, VCs from the AST in z3/cvc5; created-edge check on bounded rewiring runs as labelled stand-in",
    level_text="Clause 1 is proved for all inputs and RNG outcomes: swap_condition returns True only if, for every proposal edge, its topology is known to the target, the concatenated excess key of its two end points is present in that topology's matrix and its weight is non-zero hence positive; the six key-view getters, the topology index and the key builders are proved to return exactly the named tuples. Clause 2 (the chain approaches the target) is a convergence statement and is not decided by contracts.",
    level_note="Trusted: vf VC generator, z3/cvc5 (nonlinear real arithmetic for the product invariant); assumed networkx read contracts, L-CAT, set literal / issubset semantics, try/except routing. Bounded part: targets with pairings removed or zeroed on the C11 networks.",
    explanation="PROVED: swap_condition ensures allowed.topology_known / allowed.pair_in_target / allowed.weight_positive (invariants p_top, p_key, p_pos, top > 0), target unchanged; the Metropolis quantities: numerator == product over the proposed pairings' target weights (spec nprod, lemma nprod_ignores_later_partners by induction), denominator == product over the current pairings' weights (spec dprod), True only if the uniform draw is below numerator / denominator; JointExcessJointDegreeKeysView getters; get_topology_index (first index, raises when absent); get_joint_excess_degree_key / get_swapped_joint_excess_degree_key. BOUNDED: every edge of the result that was not in the input joins a pairing with positive target weight. NOT DECIDED: clause 2 (convergence).",
    clauses={"every created edge joins a pairing of positive target weight; forbidden pairings never manufactured": "proved at the acceptance test (allowed.*) and bounded on whole runs",
             "distance to the target decreases": "NOT DECIDED (convergence of a Markov chain is not a contract; deliberately not tested statistically)"},
    assumptions=_MCMC_ASSUME, not_decided=["clause 2: the chain approaches the target (convergence)"])

PLANS["C10"] = dict(
    level="proof", bounded="c10",
    modules=[dict(name="mpcc")],
    technique="deductive verification of the real MPCC function (accept loop, inner edge test, labelling loops) over an abstract graph {adjacency, label} with cliques as opaque elements (size, membership predicate), inductive invariants and witness hints, VCs from the AST in z3/cvc5; atlas-exhaustive run-time postconditions as labelled stand-in",
    level_text="All clauses are proved on the real source for every graph, size limit and shuffle outcome: edges unchanged, every edge claimed by exactly one cover clique and labelled (size, members, id) of that clique, cover cliques pairwise edge-disjoint cliques of the input within the limit, ids = position in the cover (unique), and the greedy-maximal clause (every listed clique within the limit is accepted or has an edge owned by a cover clique at least as large).",
    level_note="Trusted: vf VC generator, z3/cvc5; assumed library contracts: nx.enumerate_all_cliques lists cliques of g and every edge as a 2-clique (that it lists EVERY clique is needed only to read 'every clique of the graph' in the greedy clause), shuffle / sorted(key=len, reverse=True) are permutations (sorted: descending sizes), itertools.combinations(c, 2) = pairs of distinct members, remove_edges_from, G.edges[u,v][k]=x, the f-string label is an injective encoding of (size, members, id).",
    explanation="PROVED (117 obligations): ensures edges_unchanged, all_edges_claimed, every_edge_labelled, label_is_size_members_id, cover_disjoint, cover_within_limit, greedy_maximal; loop invariants g = G minus claimed edges, processed prefix accepted-or-blocked-by-not-smaller. BOUNDED (stand-in): every atlas graph with <= 6 vertices x limits x shuffle outcomes, labels parsed and checked; cover/edit/cover-again histories.",
    clauses={"same vertices and edges": "proved (ensures.edges_unchanged)", "every edge exactly one label size-members-id; edges sharing a label = all pairs of the member list": "proved (all_edges_claimed, every_edge_labelled, label_is_size_members_id, cover_disjoint)",
             "size limit respected; ids unique": "proved (cover_within_limit; id = index in cover)", "greedy-maximal": "proved (ensures.greedy_maximal)"},
    assumptions=["nx.enumerate_all_cliques enumerates every clique of the graph (assumed; used to read the greedy clause over 'every clique')"])

PLANS["C18"] = dict(
    level="other", bounded="c18",
    modules=[dict(name="percolate")],
    technique="deductive verification of the real bond_percolate against a functional contract with ghost draws (one uniform draw per edge in G.edges() order; kept_j iff draw_j < phi; result = largest component of the kept subgraph / order), VCs from the AST in z3/cvc5; exact distribution over all scripted draw sequences on small graphs as labelled stand-in",
    level_text="Proved for every graph, phi and draw outcome: the input is untouched (copy contract), the result is lcc(V, {e_j : draw_j < phi}) / N, hence a multiple of 1/N in [1/N, 1], exactly 1/N at phi = 0 (for every draw including 0.0) and the full largest-component fraction at phi = 1. 'Independently with probability phi' / Binomial on a star is then the assumed contract of random.random (i.i.d. uniform draws), confirmed exactly on a grid by the stand-in; hence `other`.",
    level_note="Trusted: vf VC generator, z3/cvc5; assumed: g.copy() is an independent copy, the comprehension draws one random.random() per edge in G.edges() order, remove_edges_from removes exactly the listed edges, sorted(connected_components, key=len, reverse=True)[0] is a largest component, axioms about lcc_size (range, none kept => 1, extensionality); random.random() i.i.d. uniform on [0,1).",
    explanation="PROVED: ensures input_untouched, fraction_of_largest_component_of_kept_edges, range, phi_zero. ASSUMED: i.i.d. uniform draws. BOUNDED: exact result distribution over all 4^M draw sequences from the grid {0,1/4,1/2,3/4} equals the definition, for all atlas graphs with <= 5 edges (incl. isolated vertices, attributes), phi grid; deep comparison of the input before/after.",
    clauses={"input untouched": "proved (copy contract) + bounded deep comparison", "exact fraction at phi=1, 1/N at phi=0, multiple of 1/N in [1/N,1]": "proved (ensures.range, phi_zero, law)",
             "each edge kept independently with probability phi; Binomial on a star": "proved functional law (kept iff draw < phi) + assumed i.i.d. uniform draws; exact on a grid (bounded)"},
    not_decided=["the distribution of random.random() (assumed library contract)"])

PLANS["C19"] = dict(
    level="other", bounded="c19",
    modules=[dict(name="dist")],
    technique="deductive verification of the real pmf closures and series loops (while-1/break invariants over partial-sum spec functions, real power/exp/factorial uninterpreted), structural obligations binding each factory's captured normaliser, link obligations for every numpy/math name, VCs from the AST in z3/cvc5; 50-digit mpmath comparison on a parameter grid as labelled stand-in",
    level_text="Proved: each closure returns literally the named formula divided by the captured normaliser, the normalisers are the partial sums of the zeta / polylogarithm series up to and including the first term below 1e-6, every library name used resolves in the installed libraries, the factories bind C exactly once to that series and return p. The size of the truncated tail, non-negativity of floating-point values and termination of the series loops are analysis, decided on a grid by the bounded stand-in only; hence `other`.",
    level_note="Trusted: vf VC generator, z3/cvc5; A-REAL (floats as reals; pow/exp/factorial uninterpreted with positivity axioms). Bounded part: a in (0,5], mean in (0,20] with k <= 150 (float overflow of k! beyond 170 is outside A-REAL), alpha in [2,6], kappa in [0.03,50].",
    explanation="PROVED: exponential.p / poisson.p / power_law.p / scale_free_cut_off.p formula clauses; power_law.zeta and scale_free_cut_off.polylog partial_sum + stops_at_first_small_term (loop invariants l == partial sum, zk == z^k); static factory-shape obligations; link obligation. BOUNDED: values vs mpmath zeta/polylog within the truncation bound, non-negative and finite, total mass within the bound.",
    clauses={"returns the named formula": "proved (formula clauses + static binding of the normaliser)", "normaliser = truncated zeta / polylog series": "proved (partial_sum, stops_at_first_small_term)",
             "non-negative, agrees with the exact law within the truncation tolerance, sums to 1 within it": "bounded (mpmath, parameter grid)"},
    not_decided=["tail size of the truncated series and termination of the series loops for all parameters (analysis, not program logic)"])

PLANS["C15"] = dict(
    level="exploration", bounded="c15",
    modules=[dict(name="autoeq")],
    technique="bounded (labelled stand-in): the real automated_equation is executed on an exact polynomial ring and compared as a polynomial with the brute-force expectation for every connected motif up to the bound and every focal vertex, plus shared-evaluator histories; structural contract obligations over the real AST for the cache/history clause",
    level_text="That the backtracking enumeration lists every connected vertex set once and that the per-component formula sums to the expectation is a combinatorial theorem that no contract within reach of the installed tooling proves for all graphs; the deciding check is therefore bounded, but complete in phi and u for each motif (a polynomial identity, not sample points). The history clause has a proved sufficient condition (the caches hold structure only and are keyed by motif name and all parameters; no other evaluator state).",
    level_note="Bound: connected graphs with <= 5 vertices (6 thorough, <= 11 edges), all focal vertices, cliques <= 6/7, cycles <= 8/10; histories of 3-5 calls. The code's 0.0/1.0/pow are exact on the polynomial ring. Structural obligations are sufficient conditions: if they stop holding the clause is undecided and only the bounded histories decide.",
    explanation="BOUNDED (exhaustive inside the bound): polynomial identity automated_equation == E[prod u over the focal component] for every connected atlas motif and focal vertex; interleaved histories on one evaluator with different u symbols, phi symbols and focal vertices compared with the exact expectation and with fresh evaluators. STRUCTURAL (discharged on the AST): caches_hold_structure_only, cache_keys_name_the_motif_and_all_parameters, no_other_state.",
    clauses={"equals the exact bond-percolation expectation as a polynomial": "bounded, exhaustive inside the bound", "value does not depend on earlier calls": "structural sufficient condition discharged + bounded histories"},
    not_decided=["motifs larger than the bound"])
PLANS["C16"] = dict(
    level="exploration", bounded="c16",
    modules=[dict(name="omega")],
    technique="bounded (labelled stand-in): the real clique and cycle equations executed on exact polynomials against the brute-force expectation, Q against QQ, an independent enumeration and the defining component identity, the connected-subgraph counter against an independent enumeration; the closure omega is verified deductively (loop invariant, nonlinear integer identity)",
    level_text="The closed forms are polynomial identities whose proof is combinatorics outside the reach of the installed solvers for all tau/n; decided inside a stated bound, complete in phi and the neighbour values. The one program-logic nugget, omega(tau, kappa) == (tau-kappa-1)(kappa+1), is proved for all arguments.",
    level_note="Bound: tau <= 5 (6), n <= 9 (11), Q=QQ for n <= 6 (7), component identity for n <= 12 (14) and all k (this identity determines Q uniquely; that it characterises connected labelled graphs is meta-lemma M-HP), counter on all atlas graphs <= 5 (6) vertices, all vertex subsets, all k.",
    explanation="PROVED: clique_equation.omega interface_edges (7 obligations). BOUNDED: clique_equation with distinct and repeated neighbour symbols incl. call sequences, chordless_cycle_equation, Q, QQ, number_of_connected_graphs.",
    clauses={"clique equation exact for heterogeneous neighbour values": "bounded (polynomial identity, tau <= 5/6)", "cycle equation exact": "bounded (n <= 9/11)",
             "coefficient = number of connected labelled graphs (both implementations)": "bounded (enumeration n <= 6/7; identity n <= 12/14)", "connected-subgraph counter exact": "bounded (atlas <= 5/6 vertices)"},
    assumptions=["M-HP: the component identity characterises the number of connected labelled graphs (textbook)"], not_decided=["sizes beyond the bound"])

PLANS["C17"] = dict(
    level="exploration", bounded="c17",
    modules=[dict(name="mp")],
    technique="bounded (labelled stand-in): run-time postconditions of the real theoretical() on a corpus of cover-labelled networks against an independent sweep with exact per-motif expectations, bounds, monotonicity over a phi grid and query-history independence; structural contract obligations over the real AST for the history clause",
    level_text="The driver is a floating-point fixed-point iteration over string-parsed labels on networkx; its analytic clauses (bounds, monotonicity) are statements about an iteration and the bookkeeping clauses need string and graph reasoning beyond the installed solvers' reach for this code, so the deciding check is bounded. The history clause has a discharged sufficient condition (message table rebuilt from the graph at the start of every query with the uniform 0.5 start; evaluator holds structural caches only).",
    level_note="Bound: seeded corpus of networks (<= 14 vertices quick, <= 18 thorough) glued from K2,K3,K4,C4,C5,diamond,chorded C5,paw with motifs pairwise sharing <= 1 vertex, tree-like and ring arrangements; phi grid 6/21 points; iterations {1,4,10}/{1,5,25}; tolerance 1e-9 against the independent sweep.",
    explanation="BOUNDED: theoretical(phi) equals an independent implementation of the motif-cover iteration (same start, same edge order, each motif's exact brute-force expectation, each other motif of a neighbour counted once) to 1e-9; 0 at phi = 0; within [0,1]; non-decreasing over the grid; reused objects give the answers of fresh objects in any query order. STRUCTURAL (discharged): message_table_rebuilt_per_query, uniform_start, evaluator caches structural.",
    clauses={"1 minus vertex average of products of per-motif failure probabilities at the fixed point reached from 0.5": "bounded (independent sweep, finite iterations)", "in [0,1], 0 at phi=0, non-decreasing": "bounded (grid)",
             "repeated queries in any order equal fresh objects": "structural sufficient condition discharged + bounded histories"},
    not_decided=["analytic clauses beyond the corpus and the grid; convergence of the iteration"])

PLANS["C09"] = dict(
    level="exploration", bounded="c09",
    modules=[dict(name="eecc")],
    technique="bounded (labelled stand-in): run-time postconditions of the real get_EECC over every labelled graph on <= 5 vertices, sampled larger graphs, all size bounds and every tie-break path; the program-logic nuggets (binom as called, Network.remove_edge) are verified deductively",
    level_text="The exact-cover argument needs graph theory (maximal cliques, decomposition into m0-subsets, recomputation after every removal) that the installed solvers cannot carry for this code, so the deciding check is a bounded exploration with a stated bound; binom(n, 2) == n(n-1)/2 and remove_edge (removes if present, silent otherwise, nothing else changes) are proved for all inputs.",
    level_note="Bound: all labelled graphs on <= 5 vertices without isolated vertices, seeded graphs on 6-9 (10) vertices incl. disjoint unions of overlapping cliques, m0 in 2..n+1, every outcome of random.choice by DFS (cap 60/400 paths per input), read-only-query-then-cover histories. Termination of the greedy loop is not claimed.",
    explanation="BOUNDED: every returned set is a clique of the input with 2..m0 vertices, every input edge in exactly one, no edge left in the working graph, maximal cliques of size <= m0 that share no edge with another maximal clique returned intact -- for every tie-break path. PROVED: binom:n_choose_2 (loop invariant by trip count + parity hint), Network.remove_edge (removed, others_untouched, silent_when_absent).",
    clauses={"edge-disjoint exact cover by cliques of 2..m0 vertices; no edges left": "bounded (all labelled graphs <= 5 vertices, every tie-break path)", "isolated maximal cliques intact": "bounded",
             "edge removal ignores missing edges": "proved (Network.remove_edge)", "binom(order, 2)": "proved"},
    not_decided=["graphs beyond the bound; termination"])

PLANS["C06"] = dict(
    level="other", bounded="c06",
    modules=[dict(name="loaders")],
    technique="deductive verification of the real loaders (Counter-based frequency table, function loader over product(*ranges), product of marginals, range generation, normalisation with the finite-map sum theory; constructors through a parameter-record model of the params dict; inherited methods through declared bases) by VCs from the AST in z3/cvc5, structural dispatch-table obligations; exact-Fraction run-time postconditions on small boxes for the remaining clauses (labelled stand-in)",
    level_text="Proved for all inputs: the manual loader keeps the given dictionary; the empirical loader (constructor and create_jdd) yields support = observed tuples and value = count/len; the function loader's support is exactly the product of the inclusive ranges kmin..kmax and its value the joint function; the marginal loader's per-key value is the product of the marginals and its key list the product of the half-open ranges; normalisation divides by the old total and gives mass 1; no read of an unassigned table (definite assignment). Dispatch is a discharged structural obligation (if-chain table; main entry = resolve + one more create_jdd). The composition create_jdd_directly (dict(generator), in-place update, normalise) and the sampling mode are decided by the bounded stand-in; 'in the limit of many samples' is not decided. Hence `other`.",
    level_note="Trusted: vf VC generator, z3/cvc5; assumed: collections.Counter, list(product(*ks)) (members / complete / once), dict iteration, M-SUM axioms; A-REAL; A-CALLBACK; A-INHERIT; the params dictionary is modelled as a record keyed by the enum members. Bound of the stand-in: boxes with <= 3 dimensions, side <= 4 (6), observed sequences <= 6 tuples.",
    explanation="PROVED (101 obligations incl. 3 induction lemmas): JointDegree.convert_jds_to_jdd support / relative_frequency; JointDegreeManual.__init__ / create_jdd; JointDegreeEmpirical.__init__ / create_jdd; JointDegreeFunction.create_jdd ranges / support_is_the_whole_degree_box / value_is_the_joint_function (and definite assignment of the table: the pre-fix tree fails safe.defined); JointDegreeMarginal.evaluate_prob_of_joint_degree, generate_all_joint_degrees; JointDegree.normalise_jdd. STRUCTURAL (discharged): factory dispatch table, main entry shape. BOUNDED: every loader's distribution vs exact oracle through both construction paths; sampling mode's functional part.",
    clauses={"manual returns the given dictionary": "proved", "empirical = relative frequency": "proved", "marginal = normalised product on the box (direct)": "per-key product, key box and normalisation proved; their composition bounded",
             "marginal sampling": "functional part bounded; 'in the limit of many samples' NOT DECIDED", "function loader on the whole box": "proved", "dispatch gives the same distribution": "structural obligation discharged + bounded"},
    not_decided=["'in the limit of many samples' (law of large numbers)"])
PLANS["C07"] = dict(
    level="exploration", bounded="c07", modules=[],
    technique="bounded (labelled stand-in): exact-Fraction oracle for every mass of the split-degree and delta loaders over seeded parameter choices, several loaders per process",
    level_text="No contract for these loaders has been discharged yet (recursive generator, nonlinear products); the deciding check is a bounded comparison of every mass with an exact oracle.",
    level_note="Bound: degree ranges within [0,12] (40), 1..4 topologies, probabilities k/5, three degree functions, targets from lo-1 to hi+1, sequences of up to three loaders in one process; tolerance 1e-12.",
    explanation="BOUNDED: support = admissible splits of every k in the range (delta: only at the target, pure first-topology degree elsewhere), mass of degree k proportional to fp(k), within k proportional to the product of probabilities raised to the edges spent, total mass 1; both construction paths.",
    clauses={"mass of all joint degrees using k edges proportional to fp(k)": "bounded", "within k split in proportion to prod p_t^((t+1) d_t)": "bounded", "sums to 1": "bounded", "delta splits only at the target": "bounded"},
    not_decided=["parameters beyond the bound"])
PLANS["C08"] = dict(
    level="exploration", bounded="c08", modules=[],
    technique="bounded (labelled stand-in): exact oracle for the cover loader over all covers of <= 3 cliques on <= 5 vertices and sampled covers with large cliques, both id bases and both construction paths",
    level_text="No contract for the cover loader has been discharged yet (column deletion over nested lists); the deciding check is a bounded comparison with an exact oracle.",
    level_note="Bound: all covers of <= 3 (4) cliques over contiguous vertex ranges with <= 5 vertices, 0- and 1-based; 300 (5000) sampled covers with clique sizes up to 10 over <= 14 vertices.",
    explanation="BOUNDED: motif_sizes = ascending set of occurring clique sizes; one column per occurring size; per-vertex counts; jdd = empirical distribution of the per-vertex tuples; input unchanged.",
    clauses={"one column per occurring size, reported ascending": "bounded", "per-vertex counts of cover cliques of each size": "bounded", "empirical distribution of the tuples": "bounded"},
    not_decided=["covers beyond the bound"])

PLANS["C14"] = dict(
    level="other", bounded="c14",
    modules=[dict(name="algebra")],
    technique="deductive verification of the real get_average_joint_degrees, get_joint_excess_distributions (nested loops over the key enumeration, witness ghost maps for the 'nothing else' clause, modular call of the mean), invert_single and the network histogram by VCs from the AST in z3/cvc5; the remaining identities (normalisation, composite inversion, row sums, key halves) by exact-Fraction run-time postconditions (labelled stand-in)",
    level_text="Proved for all distributions: the mean joint degree is the P-weighted mean; q_i has exactly the keys k - e_i for k in the support with k_i > 0 and q_i(k - e_i) = k_i P(k) / mean_i where mean = the value returned by the mean routine; the single inversion gives every key one more i-edge with weight (q(k)/(k_i+1)) / (their sum as computed) and nothing else; the network histogram is count/order. 'Sums to 1', the composite inversion for arbitrary names and row sums of mixing matrices are decided by the bounded stand-in; hence `other`.",
    level_note="Trusted: vf VC generator, z3/cvc5; assumed: list(d.keys()) / dict iteration enumerate every key once, G.nodes() / G.order(), G.nodes[n][k]; A-REAL; sum(list) left opaque. Bound of the stand-in: supports of <= 5 keys over 1-4 topologies with degrees <= 3, random names and dict orders; clean annotated networks with <= 7 (10) vertices.",
    explanation="PROVED (100 obligations): AverageJointDegreeFromJDD.get_average_joint_degrees; JointExcessfromJDD.get_joint_excess_distributions one_per_topology / excess_formula / nothing_else / input_unchanged (inner invariants with an explicit trigger on the key enumeration, 'removing one edge is injective' hint, witness ghost maps src / wit); JointDegreeFromExcess.invert_single; JointDegreeDistributionFromNetwork.get_joint_degree_distribution vertex_histogram. BOUNDED: mass 1 of q_i; inversion returns P restricted to non-zero joint degrees for arbitrary names/dict orders; row sums = excess distribution (also against the network's empirical P); excess keys = halves of matrix keys; list/dict conversions.",
    clauses={"excess distribution formula": "proved (excess_formula, nothing_else); sums to 1: bounded", "inversion returns P (non-zero joint degrees)": "single inversion proved; composite inversion bounded (arbitrary names, dict orders)",
             "row sums of a mixing matrix = excess distribution; network-derived agrees with the empirical P": "bounded", "mean joint degree is the P-weighted mean": "proved", "network histogram": "proved"},
    not_decided=["distributions beyond the bound for the bounded clauses"])
