"""Per-property plans: which sidecar contract modules carry the property (proof part), which bounded stand-in accompanies it,
the level claimed, what each clause rests on, and what is not decided.  Obligation selection: `only` / `skip` are regexes on
obligation names; safety obligations (safe.*, raises) of every function a property uses always count for it."""
PLANS = {}
NOT_APPLICABLE = {}
PLANS["C20"] = dict(
    level="proof", bounded="c20",
    technique="deductive verification of the real DrawSet methods against sidecar contracts (class invariant + abstract set view), VCs from the AST discharged by z3/cvc5; bounded history enumeration as labelled stand-in",
    level_text="Every method of the real class is proved against a contract stating set semantics over the abstract view, for all states satisfying the representation invariant and all RNG outcomes; the class is loop-free so the obligations are complete, and induction over histories follows from per-operation refinement.",
    level_note="Trusted: the vf VC generator, z3/cvc5, assumed contracts of list.append/pop, dict.pop/in, random.choice (returns seq[r] for arbitrary valid r); A-HASH; meta-lemmas M-CARD, M-SIM.",
    modules=[dict(name="draw_set")],
    explanation="Every method of the real DrawSet is verified against its contract (class invariant I1/I2 + abstract view = key set of the index map); "
                "the class is loop-free, so the obligations are complete for all states satisfying the invariant, and induction over histories is the "
                "standard simulation argument (meta-lemma M-SIM). Bounded stand-in (not counted as proof): all histories up to the bound compared with a plain set.",
    clauses={"set semantics of add/remove/contains/len/iter": "proved (ensures.view, ensures.len, iter.*, member)",
             "adding a present element changes nothing": "proved (add:ensures.noop_if_present)",
             "draw returns a member": "proved (draw:ensures.member)",
             "every member can be drawn": "assumed contract of random.choice (any index of the member list) + iter.all; exercised by the stand-in",
             "removing an absent element raises and leaves the structure intact": "proved (remove:raises.KeyError.*)"},
    assumptions=["M-CARD: a duplicate-free enumeration of S has |S| entries", "M-SIM: per-operation refinement of the abstract set gives refinement for every history"])

PLANS["C05"] = dict(
    level="proof", bounded="c05",
    modules=[dict(name="joint_degree")],
    technique="deductive verification of the real handshaking_lemma (nested loops, inductive invariants over a column-sum spec function, engine-proved update lemma) and sample_jds_from_jdd (modular call, aligned weighted draw) by VCs from the AST in z3/cvc5; bounded RNG-exhaustive run-time contracts as labelled stand-in",
    level_text="For all N, all dimensions, all size vectors and every outcome of random.choices / random.randrange the real functions are proved to return N tuples, never below the drawn keys, with per-topology totals equal to the drawn totals plus the minimal padding (hence divisible and < size added), drawn from the aligned key/weight lists of the current distribution. Proportionality of the draw is the assumed contract of random.choices.",
    level_note="Trusted: vf VC generator, z3/cvc5; assumed contracts: list(map(sum, zip(*rows))) = column sums, list(d.keys())/list(d.values()) aligned, random.choices returns k members of the population (in proportion to the weights: assumed, not re-tested), random.randrange(a,b) in [a,b). Lemma colsum_update is proved by the engine by induction.",
    explanation="handshaking_lemma and sample_jds_from_jdd are verified on the real source for all inputs and all RNG outcomes (loop invariants: processed columns final, unprocessed untouched, current column = old sum + iterations). "
                "Bounded stand-in (not counted as proof): small distributions x sizes x N, every choices/randrange resolution, plus sample/re-load/sample histories.",
    clauses={"exactly N non-negative integer tuples": "proved (ensures.len, rows_are_tuples, inv rowlen/ge)",
             "totals divisible by motif size": "proved (ensures.divisible)",
             "fewest added stubs, fewer than the motif size, never a removal": "proved (ensures.minimal_padding, never_removed)",
             "keys drawn in proportion to their weights": "proved that choices is called with aligned keys/weights of the current distribution and k=N; proportionality itself is the assumed library contract",
             "entries usable wherever a joint degree sequence is accepted": "proved as rows_are_tuples (hashable tuples); exercised downstream by the stand-in"},
    not_decided=["the probability law of random.choices (assumed library contract)"])
