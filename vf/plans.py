"""Per-property plans: which sidecar contract modules carry the property (proof part), which bounded stand-in accompanies it,
the level claimed, what each clause rests on, and what is not decided.  Obligation selection: `only` / `skip` are regexes on
obligation names; safety obligations (safe.*, raises) of every function a property uses always count for it."""
PLANS = {}
NOT_APPLICABLE = {}
PLANS["C20"] = dict(
    level="proof", bounded="c20",
    technique="deductive verification of the real DrawSet methods against sidecar contracts (class invariant + abstract set view), VCs from the AST discharged by z3/cvc5; bounded history enumeration as labelled stand-in",
    level_text="Every method of the real class is proved against a contract stating set semantics over the abstract view, for all states satisfying the representation invariant and all RNG outcomes; the class is loop-free so the obligations are complete, and induction over histories follows from per-operation refinement.",
    level_note="Trusted: the vf VC generator, z3/cvc5, assumed contracts of list.append/pop, dict.pop/in, random.choice (returns seq[r] for arbitrary valid r); A-HASH; meta-lemmas M-CARD, M-SIM.",
    modules=[dict(name="draw_set")],
    explanation="Every method of the real DrawSet is verified against its contract (class invariant I1/I2 + abstract view = key set of the index map); "
                "the class is loop-free, so the obligations are complete for all states satisfying the invariant, and induction over histories is the "
                "standard simulation argument (meta-lemma M-SIM). Bounded stand-in (not counted as proof): all histories up to the bound compared with a plain set.",
    clauses={"set semantics of add/remove/contains/len/iter": "proved (ensures.view, ensures.len, iter.*, member)",
             "adding a present element changes nothing": "proved (add:ensures.noop_if_present)",
             "draw returns a member": "proved (draw:ensures.member)",
             "every member can be drawn": "assumed contract of random.choice (any index of the member list) + iter.all; exercised by the stand-in",
             "removing an absent element raises and leaves the structure intact": "proved (remove:raises.KeyError.*)"},
    assumptions=["M-CARD: a duplicate-free enumeration of S has |S| entries", "M-SIM: per-operation refinement of the abstract set gives refinement for every history"])
