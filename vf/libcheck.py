"""Executable validation of the ASSUMED library contracts (DESIGN 2.4) against the installed libraries: seeded random / small exhaustive
inputs.  This is testing, not proof; the counts are reported next to the assumptions in the thorough-tier evidence.
    python -m vf.libcheck [tag ...]        prints one JSON line: {test name: evaluations} and exits 1 if an assumed contract is contradicted"""
import itertools, json, math, random, sys
from collections import Counter
from fractions import Fraction as F

TESTS = []
def test(*tags):
    def deco(f): TESTS.append((f.__name__, tags, f)); return f
    return deco
R = random.Random(12345)
def rjds():
    T = R.randint(1, 3); return [tuple(R.randint(0, 3) for _ in range(T)) for _ in range(R.randint(1, 5))], T

@test("C01", "C02", "C03", "C05")
def column_sums_idiom():
    n = 0
    for _ in range(500):
        jds, T = rjds(); assert list(map(sum, zip(*jds))) == [sum(r[c] for r in jds) for c in range(T)]; n += 1
    return n
@test("C01", "C02", "C03")
def flatten_repeat_idiom():
    from itertools import chain, repeat, starmap
    n = 0
    for _ in range(500):
        jds, T = rjds(); stubs = [list(chain.from_iterable(starmap(repeat, r))) for r in map(enumerate, zip(*jds))]
        assert len(stubs) == T
        for k in range(T): assert stubs[k] == [v for v, row in enumerate(jds) for _ in range(row[k])]
        n += 1
    return n
@test("C01", "C02", "C03")
def grouper_consecutive_slices():
    from iteration_utilities import grouper
    n = 0
    for _ in range(500):
        xs = [R.randint(0, 9) for _ in range(R.randint(0, 12))]; k = R.randint(1, 4)
        assert [list(g) for g in grouper(xs, k)] == [xs[i:i + k] for i in range(0, len(xs), k)]; n += 1
    return n
@test("C01", "C03", "C05", "C09", "C10", "C11", "C18", "C20")
def random_supports():
    n = 0
    for _ in range(2000):
        a = R.randint(-3, 3); b = a + R.randint(1, 5); r = random.randrange(a, b); assert a <= r < b
        xs = [R.randint(0, 5) for _ in range(R.randint(1, 6))]; assert random.choice(xs) in xs
        x = random.random(); assert 0.0 <= x < 1.0
        ys = list(xs); random.shuffle(ys); assert Counter(ys) == Counter(xs) and len(ys) == len(xs)
        w = [R.choice([0.0, 0.5, 2.0]) for _ in xs]
        if sum(w) > 0:
            out = random.choices(population=xs, weights=w, k=4); assert len(out) == 4 and all(any(o == p and ww > 0 for p, ww in zip(xs, w)) for o in out)
        n += 1
    return n
@test("C05", "C06", "C14")
def dict_views_aligned():
    n = 0
    for _ in range(500):
        d = {R.randint(0, 20): R.random() for _ in range(R.randint(0, 8))}
        ks, vs = list(d.keys()), list(d.values()); assert len(ks) == len(vs) == len(d) and all(d[k] == v for k, v in zip(ks, vs)) and len(set(ks)) == len(ks)
        assert [k for k in d] == ks and [(k, v) for k, v in d.items()] == list(zip(ks, vs)) and list(enumerate(d)) == list(enumerate(ks)); n += 1
    return n
@test("C01", "C10")
def combinations_and_cycle_idiom():
    from itertools import combinations, tee
    n = 0
    for _ in range(300):
        xs = [R.randint(0, 9) for _ in range(R.randint(0, 6))]
        assert list(combinations(xs, 2)) == [(xs[i], xs[j]) for i in range(len(xs)) for j in range(i + 1, len(xs))]
        if xs:
            a, b = tee(xs); next(b, None); assert list(zip(a, b)) == [(xs[i], xs[i + 1]) for i in range(len(xs) - 1)]
        n += 1
    return n
@test("C04", "C01", "C02")
def networkx_construction_and_attributes():
    import networkx as nx
    n = 0
    for _ in range(400):
        N = R.randint(0, 5); G = nx.Graph(); assert G.number_of_nodes() == 0 and G.number_of_edges() == 0
        G.add_nodes_from(range(N)); assert sorted(G.nodes) == list(range(N)) and len(G.nodes()) == N
        es = [(R.randint(0, 6), R.randint(0, 6)) for _ in range(R.randint(0, 5))]; G.add_edges_from(es)
        assert set(G.nodes) == set(range(N)) | {x for e in es for x in e} and {frozenset(e) for e in G.edges()} == {frozenset(e) for e in es}
        d = {k: ("jd", k) for k in range(8)}; nx.set_node_attributes(G, d, "a"); assert all(G.nodes[x]["a"] == d[x] for x in G.nodes if x in d) and set(G.nodes) == set(range(N)) | {x for e in es for x in e}
        ed = {e: i for i, e in enumerate(es)}; ed[(50, 51)] = 9; nx.set_edge_attributes(G, ed, "t"); assert not G.has_edge(50, 51)
        for u, v in G.edges(): assert G.edges[u, v]["t"] in [i for i, e in enumerate(es) if frozenset(e) == frozenset((u, v))] and G.edges[u, v]["t"] == G.edges[v, u]["t"]
        el = list(G.edges()); assert el == list(G.edges()) and len({frozenset(e) for e in el}) == len(el) == G.number_of_edges()
        try: G.nodes[99]["a"]; assert False
        except KeyError: pass
        H = G.copy(); H.add_edge(70, 71); assert not G.has_edge(70, 71)
        n += 1
    return n
@test("C09", "C10", "C11", "C13", "C18")
def networkx_edges_and_components():
    import networkx as nx
    n = 0
    for _ in range(300):
        G = nx.gnp_random_graph(R.randint(1, 7), R.random(), seed=R.randint(0, 10 ** 6))
        for u, v in G.edges(): assert G.has_edge(v, u) and G.degree(u) == len(list(G.neighbors(u)))
        H = G.copy(); es = list(G.edges())[:2]; H.remove_edges_from(es); assert {frozenset(e) for e in H.edges()} == {frozenset(e) for e in G.edges()} - {frozenset(e) for e in es}
        try: H.remove_edge(100, 101); assert False
        except nx.NetworkXError: pass
        cl = list(nx.enumerate_all_cliques(G)); assert all(all(G.has_edge(a, b) for a, b in itertools.combinations(c, 2)) for c in cl)
        assert {frozenset(c) for c in cl if len(c) == 2} == {frozenset(e) for e in G.edges()}
        brute = {frozenset(s) for r in range(1, G.number_of_nodes() + 1) for s in itertools.combinations(G.nodes, r) if all(G.has_edge(a, b) for a, b in itertools.combinations(s, 2))}
        assert {frozenset(c) for c in cl} == brute and len(cl) == len(brute)
        comps = sorted(nx.connected_components(G), key=len, reverse=True); assert len(comps[0]) == max(len(c) for c in comps) and sum(map(len, comps)) == G.order()
        srt = sorted(cl, key=len, reverse=True); assert Counter(map(tuple, srt)) == Counter(map(tuple, cl)) and all(len(a) >= len(b) for a, b in zip(srt, srt[1:]))
        n += 1
    return n
@test("C06", "C08")
def counter_and_product():
    n = 0
    for _ in range(400):
        jds, T = rjds(); c = Counter(jds); assert set(c) == set(jds) and all(c[k] == jds.count(k) for k in c)
        ks = [list(range(lo, lo + R.randint(0, 3))) for lo in (R.randint(0, 2) for _ in range(R.randint(1, 3)))]
        box = list(itertools.product(*ks)); assert len(box) == len(set(box)) == math.prod(len(k) for k in ks) and all(all(b[i] in ks[i] for i in range(len(ks))) for b in box)
        n += 1
    return n
@test("C06", "C13", "C14")
def finite_map_sum_axioms():
    n = 0
    for _ in range(500):
        d = {R.randint(0, 9): F(R.randint(-5, 9), R.randint(1, 7)) for _ in range(R.randint(0, 6))}; k = R.randint(0, 12); v = F(R.randint(-5, 9), 3)
        d2 = dict(d); d2[k] = v; assert sum(d2.values()) == sum(d.values()) - (d[k] if k in d else 0) + v
        c = F(R.randint(1, 9), R.randint(1, 5)); d3 = {x: y / c for x, y in d.items()}; assert sum(d3.values()) == sum(d.values()) / c
        n += 1
    return n
@test("C11", "C12", "C13")
def tuple_concatenation_injective_on_equal_lengths():
    n = 0
    for _ in range(500):
        T = R.randint(1, 4); mk = lambda: tuple(R.randint(0, 2) for _ in range(T)); a, b, c, d = mk(), mk(), mk(), mk()
        assert ((a + b) == (c + d)) == (a == c and b == d); n += 1
    return n
@test("C10")
def label_fstring_injective():
    seen = {}; n = 0
    for _ in range(3000):
        c = [R.randint(0, 12) for _ in range(R.randint(2, 4))]; ID = R.randint(0, 30); lab = f"{len(c)}-{c}-{ID}"; key = (len(c), tuple(c), ID)
        assert seen.setdefault(lab, key) == key; n += 1
    return n
@test("C19")
def real_functions():
    import numpy as np
    n = 0
    for _ in range(500):
        x = R.uniform(-30, 30); assert np.exp(x) > 0; k = R.randint(0, 30); assert math.factorial(k) >= 1 and math.factorial(k) == math.prod(range(1, k + 1))
        b = R.uniform(0.01, 50); e = R.uniform(-6, 6); assert pow(b, e) > 0 and b ** e == pow(b, e); n += 1
    return n

@test("C07")
def valid_splits_definition():
    """the recursion equations that DEFINE valid_splits (contracts/split_gen.py) enumerate exactly the admissible vectors, each once"""
    def vt(r, t):
        if t == 1: return [[r]]
        return [row + [i] for i in range(0, r // t + 1) for row in vt(r - i * t, t - 1)]
    n = 0
    for t in range(1, 5):
        for r in range(0, 13):
            got = [tuple(x) for x in vt(r, t)]
            want = [d for d in itertools.product(*[range(0, r // (c + 1) + 1) for c in range(t)]) if sum((c + 1) * d[c] for c in range(t)) == r]
            assert sorted(got) == sorted(want) and len(set(got)) == len(got); n += 1
    return n
@test("C01", "C03")
def partition_helper_arithmetic():
    """range(0, L, s) has ceil(L/s) elements q*s; int((0.0 + L) / s) == L // s when s divides L (the handshake precondition of the custom generator)"""
    n = 0
    for L in range(0, 40):
        for s_ in range(1, 7):
            rg = list(range(0, L, s_)); assert len(rg) == -(-L // s_) and all(rg[q] == q * s_ for q in range(len(rg)))
            if L % s_ == 0: assert int((0.0 + L) / s_) == L // s_ == len(rg)
            xs = list(range(100, 100 + L)); assert [xs[i:i + s_] for i in rg] == [xs[q * s_:q * s_ + s_] for q in range(len(rg))]; n += 1
    return n
@test("C17")
def set_iteration_visits_each_member_once():
    n = 0
    for _ in range(300):
        a = [R.randint(0, 9) for _ in range(R.randint(0, 8))]; b = [R.randint(0, 9) for _ in range(R.randint(0, 5))]
        d = set(a) - set(b); seen = list(d); assert len(seen) == len(set(seen)) and set(seen) == {x for x in a if x not in b}; n += 1
    return n
@test("C01", "C03")
def slice_clamping_as_encoded():
    """the executor's encoding of xs[a:b] (negative bounds count from the end, then clamp into [0, len]; empty when hi <= lo) against CPython"""
    n = 0
    for L in range(0, 7):
        xs = list(range(10, 10 + L))
        for a in list(range(-9, 10)) + [None]:
            for b in list(range(-9, 10)) + [None]:
                norm = lambda v, d: d if v is None else (max(v + L, 0) if v < 0 else min(v, L))
                lo, hi = norm(a, 0), norm(b, L); want = [xs[lo + t] for t in range(max(hi - lo, 0))]
                assert xs[a:b] == want; n += 1
    return n
@test("C16")
def nested_floor_division():
    n = 0
    for a in range(-40, 400, 7):
        for b in range(1, 9):
            for c in range(1, 9): assert (a // b) // c == a // (b * c); n += 1
    return n
@test("C06")
def column_stack_transposes():
    import numpy as np
    n = 0
    for _ in range(200):
        D = R.randint(1, 4); m = R.randint(0, 6); cols = [[R.randint(0, 9) for _ in range(m)] for _ in range(D)]
        rows = [tuple(jd) for jd in np.column_stack(cols).tolist()]; assert len(rows) == m and all(rows[q] == tuple(cols[i][q] for i in range(D)) for q in range(m)); n += 1
    return n
def main():
    tags = set(sys.argv[1:]); out = {}; bad = []
    for name, tg, f in TESTS:
        if tags and not (tags & set(tg)): continue
        try: out[name] = f()
        except AssertionError as e:
            import traceback; bad.append(name); out[name] = "CONTRADICTED: " + traceback.format_exc().splitlines()[-2].strip()
    print(json.dumps(out)); sys.exit(1 if bad else 0)
if __name__ == "__main__": main()
