import time
from .sym import FnExec, Theory, Obligation, Unsupported, ContractDrift
from .solve import discharge_all, ok
import z3

def prove_lemmas(reg, th, ex_factory):
    """induction lemmas declared in the registry: base + step obligations; each proved lemma is available as an axiom to the later ones"""
    obs = []
    for L in reg.lemmas:
        ex = ex_factory()
        from .types import fresh, Val, INT
        from .sym import State
        st = State(); st.env = {v: fresh(t, v) for v, t in L.vars.items()}
        if L.induct is None:
            # a plain (non-inductive) lemma: proved once, in isolation from every program hypothesis, then available as a triggered axiom (arithmetic facts that the
            # solvers decide at once alone but not next to quantified invariants)
            pre = [ex.spec_expr(L.requires, st, []).z] if L.requires else []; g = ex.spec_expr(L.stmt, st, []).z
            mine = [Obligation(f"lemma.{L.name}.direct", "lemma", th.hyps() + pre, g)]
            trig = ex.spec_expr(L.trigger, st, []).z if L.trigger else None; bound = [st.env[v].z for v in L.vars]; body = z3.Implies(z3.And(*pre), g) if pre else g
            L._axiom = z3.ForAll(bound, body, patterns=[trig]) if trig is not None else z3.ForAll(bound, body)
            discharge_all(mine); obs += mine
            if all(o.status == "proved" for o in mine):
                from .sym import symbols_of
                th.lemma_axioms_tagged.append((L._axiom, symbols_of(L._axiom) & set(th.sf_axioms)))
            continue
        n = st.env[L.induct].z
        def stmt_at(nz):
            s2 = st.copy(); s2.env[L.induct] = Val(INT, nz); return ex.spec_expr(L.stmt, s2, []).z
        pre = [ex.spec_expr(L.requires, st, []).z] if L.requires else []
        g0, gn, gn1 = stmt_at(z3.IntVal(0)), stmt_at(n), stmt_at(n + 1)      # translate first: declares the spec functions' axioms
        mine = [Obligation(f"lemma.{L.name}.base", "lemma", th.hyps() + pre, g0), Obligation(f"lemma.{L.name}.step", "lemma", th.hyps() + pre + [n >= 0, gn], gn1)]
        bound = [st.env[v].z for v in L.vars]
        body = z3.Implies(z3.And(n >= 0, *pre), stmt_at(n))
        trig = ex.spec_expr(L.trigger, st, []).z if L.trigger else None
        L._axiom = z3.ForAll(bound, body, patterns=[trig]) if trig is not None else z3.ForAll(bound, body)
        discharge_all(mine); obs += mine
        if all(o.status == "proved" for o in mine):
            from .sym import symbols_of
            th.lemma_axioms_tagged.append((L._axiom, symbols_of(L._axiom) & set(th.sf_axioms)))
    return obs

def verify(reg, quals, verbose=True, cex_bound=None, **kw):
    t0 = time.time(); th = Theory(reg, cex_bound); allobs = []; undecided = []
    if reg.lemmas and cex_bound is None:
        lob = prove_lemmas(reg, th, lambda: FnExec(reg, quals[0], th)); allobs += lob
    for q in quals:
        try:
            ex = FnExec(reg, q, th); allobs += ex.run()
        except (Unsupported, ContractDrift) as e:
            undecided.append((q, f"{type(e).__name__}: {e}"))
        except (StopIteration, KeyError, AttributeError, TypeError, IndexError, z3.Z3Exception) as e:
            # the function left the subset in a way the executor did not anticipate: undecided, never a verdict
            undecided.append((q, f"engine could not process the function: {type(e).__name__}: {e}"))
    if cex_bound is None:
        for name, fn in getattr(reg, "static_checks", []):
            try: okk, detail = fn(reg)
            except Exception as e: undecided.append((name, f"static check could not run: {type(e).__name__}: {e}")); continue
            o = Obligation(f"{name}", "link" if ":link." in name else "static", [], z3.BoolVal(bool(okk))); o.detail = detail; allobs.append(o)
    gen = time.time() - t0
    discharge_all(allobs, **kw)
    if verbose:
        for o in allobs:
            if not ok(o): print(f"   FAIL {o.status:8s} {o.secs:6.2f}s {o.name}")
        for q, why in undecided: print(f"   UNDECIDED {q}: {why}")
        by = {}
        for o in allobs: by[o.backend] = by.get(o.backend, 0) + 1
        print(f"   obligations={len(allobs)} failed={sum(1 for o in allobs if not ok(o))} undecided_fns={len(undecided)} gen={gen:.2f}s total={time.time()-t0:.2f}s backends={by}")
    return allobs, undecided, th

def counter_models(reg, quals, wanted, B=2, timeout_ms=30000):
    """small-scope instantiation of the same VCs (lengths <= B, quantifiers expanded, spec functions unrolled).
    wanted: set of obligation names left unknown in proof mode. Returns {name: (status, model, executor)}"""
    out = {}
    th = Theory(reg, B)
    for q in quals:
        if not any(w.startswith(q + ":") for w in wanted): continue
        ex = FnExec(reg, q, th)
        try: obs = ex.run()
        except (Unsupported, ContractDrift) as e:
            continue
        for o in obs:
            if o.name not in wanted or o.name in out and out[o.name][0] == "sat": continue
            s = z3.Solver(); s.set("timeout", timeout_ms); s.add(*o.hyps); s.add(*th.side); s.add(z3.Not(o.goal))
            r = s.check()
            out[o.name] = (str(r), s.model() if r == z3.sat else None, ex)
    return out
