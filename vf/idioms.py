"""vf2 library idioms recognised structurally on the AST (assumed contracts, each listed in the evidence)."""
import ast
import z3
from .types import *
from .sym import Unsupported

def is_call(n, name, nargs=None):
    return isinstance(n, ast.Call) and isinstance(n.func, ast.Name) and n.func.id == name and (nargs is None or len(n.args) == nargs)

def install(reg):
    # native spec function: functional list update
    def upd_smt(ex, xs, i, x):
        t = xs.t; return Val(t, t.make(t.len(xs.z), z3.Store(t.arr(xs.z), i.z, x.z), like=xs.z))
    reg.native_specfuns["upd"] = dict(smt=upd_smt, rt=lambda xs, i, x: xs[:i] + type(xs)([x]) + xs[i + 1:] if isinstance(xs, tuple) else xs[:i] + [x] + xs[i + 1:])
    # list(map(sum, zip(*rows)))  -> column sums
    def colsums(ex, node, st, pc):
        if not (is_call(node, "list", 1) and is_call(node.args[0], "map", 2) and isinstance(node.args[0].args[0], ast.Name) and node.args[0].args[0].id == "sum"
                and is_call(node.args[0].args[1], "zip", 1) and isinstance(node.args[0].args[1].args[0], ast.Starred)): return None
        rows = ex.expr(node.args[0].args[1].args[0].value, st, pc); t = rows.t; rt = t.elem
        n = t.len(rows.z); v = fresh_int("v")
        width = z3.If(n > 0, rt.len(t.at(rows.z, 0)), 0)
        ex.oblige(f"idiom.colsums.equal_rows@{node.lineno}", "requires@call", pc, z3.ForAll([v], z3.Implies(z3.And(0 <= v, v < n), rt.len(t.at(rows.z, v)) == width)), node)
        out = fresh(ListT(INT), "colsums"); c = fresh_int("c")
        cs = ex.apply_specfun(ex.reg.specfuns["colsum"], [rows, Val(INT, c), Val(INT, n)]).z
        pc.append(out.t.len(out.z) == width)
        if ex.th.B is None:
            pc.append(z3.ForAll([c], z3.Implies(z3.And(0 <= c, c < width), out.t.at(out.z, c) == cs)))
        else:
            for k in range(ex.th.B + 1):
                pc.append(z3.Implies(k < width, out.t.at(out.z, k) == z3.substitute(cs, (c, z3.IntVal(k)))))
        ex.assumptions.add("list(map(sum, zip(*rows))) yields the column sums of equal-length rows")
        return out
    reg.call_hooks.append(colsums)
    # list(d.keys()) / list(d.values()): one shared ghost enumeration per dict value
    def keys_values(ex, node, st, pc):
        if not (is_call(node, "list", 1) and isinstance(node.args[0], ast.Call) and isinstance(node.args[0].func, ast.Attribute) and node.args[0].func.attr in ("keys", "values") and not node.args[0].args): return None
        d = ex.expr(node.args[0].func.value, st, pc)
        if not isinstance(d.t, DictT): return None
        cache = st.env.setdefault("__keyseq__", {}) if isinstance(st.env.get("__keyseq__"), dict) else None
        key = d.z.get_id()
        if "__keyseq__" not in st.env or not isinstance(st.env["__keyseq__"], dict): st.env["__keyseq__"] = {}
        if key not in st.env["__keyseq__"]: st.env["__keyseq__"][key] = ex.keyseq(d, pc)
        ks = st.env["__keyseq__"][key]
        if node.args[0].func.attr == "keys": return ks
        out = fresh(ListT(d.t.v), "values"); q = fresh_int("q")
        pc.append(out.t.len(out.z) == ks.t.len(ks.z))
        pc.append(z3.ForAll([q], z3.Implies(z3.And(0 <= q, q < ks.t.len(ks.z)), out.t.at(out.z, q) == z3.Select(d.t.val(d.z), ks.t.at(ks.z, q)))))
        ex.assumptions.add("list(d.keys()) and list(d.values()) enumerate the same entries in the same order")
        return out
    reg.call_hooks.append(keys_values)
    # random.choices(population=, weights=, k=)
    def choices(ex, node, st, pc):
        if not (isinstance(node, ast.Call) and ast.unparse(node.func) == "random.choices"): return None
        kw = {k.arg: ex.expr(k.value, st, pc) for k in node.keywords}
        for nm_, a_ in zip(("population", "weights"), node.args): kw[nm_] = ex.expr(a_, st, pc)      # random.choices(population, weights, k=n) as well as the all-keyword form
        if not all(x in kw for x in ("population", "weights", "k")): raise Unsupported("random.choices without population, weights and k")
        pop, w, k = kw["population"], kw["weights"], kw["k"]
        ex.oblige(f"choices.aligned_lengths@{node.lineno}", "requires@call", pc, pop.t.len(pop.z) == w.t.len(w.z), node)
        ex.branch_exc(pc, pop.t.len(pop.z) == 0, "IndexError", node)
        out = fresh(ListT(pop.t.elem), "drawn"); q = fresh_int("q"); pick = fresh(ArrT(INT, INT), "pick"); r = lambda x_: z3.Select(pick.z, x_)      # pick[q]: the index of the q-th draw (ghost)
        pc.append(out.t.len(out.z) == z3.If(k.z > 0, k.z, 0))
        pc.append(z3.ForAll([q], z3.Implies(z3.And(0 <= q, q < k.z), z3.And(0 <= r(q), r(q) < pop.t.len(pop.z), out.t.at(out.z, q) == pop.t.at(pop.z, r(q))))))
        st.env["CHOICES_POP"] = pop; st.env["CHOICES_W"] = w; st.env["CHOICES_OUT"] = out; st.env["CHOICES_PICK"] = pick
        ex.rng_log.append(("choices", pick.z)); ex.assumptions.add("random.choices(population, weights, k) returns k members of the population (drawn in proportion to the weights: assumed, not re-tested)")
        return out
    reg.call_hooks.append(choices)


def params_record(reg, enum_name, fields, typename=None):
    """A parameter dictionary keyed by the members of an Enum is modelled as a record: one field per member plus a presence flag.
    fields: {MEMBER: Ty}.  Recognised: params[Enum.MEMBER] (KeyError when absent), Enum.MEMBER in params, params[Enum.MEMBER] = v, params = {}."""
    tn = typename or f"Params_{enum_name}"
    fs = {}
    for k, t in fields.items(): fs[k] = t; fs["has_" + k] = BOOL
    T = RecT(tn, fs); reg.type(tn, T)
    def member(node):
        return node.attr if isinstance(node, ast.Attribute) and isinstance(node.value, ast.Name) and node.value.id == enum_name and node.attr in fields else None
    def hook(ex, node, st, pc):
        if isinstance(node, ast.Subscript) and member(node.slice):
            try: base = ex.expr(node.value, st, list(pc))
            except Exception: return None
            if isinstance(base, Val) and base.t == T:
                k = member(node.slice); ex.branch_exc(pc, z3.Not(T.getf(base.z, "has_" + k)), "KeyError", node); return Val(fields[k], T.getf(base.z, k))
        if isinstance(node, ast.Compare) and len(node.ops) == 1 and isinstance(node.ops[0], (ast.In, ast.NotIn)) and member(node.left):
            try: base = ex.expr(node.comparators[0], st, list(pc))
            except Exception: return None
            if isinstance(base, Val) and base.t == T:
                z = T.getf(base.z, "has_" + member(node.left)); return Val(BOOL, z if isinstance(node.ops[0], ast.In) else z3.Not(z))
        return None
    reg.call_hooks.append(hook)
    def stmt(ex, s, st, pc):
        if isinstance(s, ast.Assign) and len(s.targets) == 1 and isinstance(s.targets[0], ast.Subscript) and member(s.targets[0].slice) and isinstance(s.targets[0].value, ast.Name):
            cur = st.env.get(s.targets[0].value.id)
            if isinstance(cur, Val) and cur.t == T:
                k = member(s.targets[0].slice); v = ex.expr(s.value, st, pc)
                st.env[s.targets[0].value.id] = Val(T, T.setf(T.setf(cur.z, k, v.z), "has_" + k, z3.BoolVal(True))); return True
        return None
    reg.stmt_hooks.append(stmt)
    def empty_params():
        v = fresh(T, "params")
        return v, [z3.Not(T.getf(v.z, "has_" + k)) for k in fields]
    T.empty = empty_params
    return T
