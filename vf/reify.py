"""z3 model -> concrete Python values of the function's entry state (self fields, parameters, RNG outcomes)."""
import z3
from .types import *
class Reifier:
    def __init__(self, model): self.m = model; self.ids = {}
    def ev(self, z): return self.m.eval(z, model_completion=True)
    def elem(self, z):
        k = str(self.ev(z)); self.ids.setdefault(k, len(self.ids)); return self.ids[k]
    def val(self, v):
        t, z = v.t, v.z
        if isinstance(t, IntT): return self.ev(z).as_long()
        if isinstance(t, BoolT): return z3.is_true(self.ev(z))
        if isinstance(t, RealT):
            r = self.ev(z); return float(r.numerator_as_long()) / float(r.denominator_as_long()) if z3.is_rational_value(r) else str(r)
        if isinstance(t, Elem): return self.elem(z)
        if isinstance(t, ListT):
            n = max(0, self.ev(t.len(z)).as_long()); items = [self.val(Val(t.elem, t.at(z, i))) for i in range(min(n, 8))]
            return tuple(items) if t.tagged and z3.is_true(self.ev(t.kind(z))) else items
        if isinstance(t, PairT): return (self.val(Val(t.a, t.fst(z))), self.val(Val(t.b, t.snd(z))))
        if isinstance(t, DictT):
            out = {}
            if isinstance(t.k, Elem):
                for kz in (self.m.get_universe(t.k.sort()) or []):
                    if z3.is_true(self.ev(z3.Select(t.dom(z), kz))): out[self.elem(kz)] = self.val(Val(t.v, z3.Select(t.val(z), kz)))
            return out
        if isinstance(t, RecT): return {f: self.val(Val(ft, t.getf(z, f))) for f, ft in t.fs.items()}
        return str(self.ev(z))
def reify_entry(ex, model):
    R = Reifier(model)
    out = {k: R.val(v) for k, v in ex.entry.env.items() if isinstance(v, Val)}
    def rng(kind, r):
        try: return R.val(Val(REAL if kind == "random" else INT, r))
        except Exception: return str(r)[:80]       # a ghost pick array / permutation: shown symbolically
    out["__rng__"] = [(kind, rng(kind, r)) for kind, r in ex.rng_log]
    return out
