"""./check <id> [--tier quick|thorough] [--replay file]
Proof part (obligations generated from the real source by vf.sym, discharged by z3/cvc5) + bounded stand-in
(bounded/<id>.py, run against the same tree) + known-findings filter + evidence + VIOLATION / KNOWN-FINDING lines.
Exit codes: 0 held on everything explored; 1 at least one VIOLATION; 2 nothing could be explored (engine/setup failure)."""
import argparse, ast, hashlib, importlib, json, os, re, subprocess, sys, time, traceback

VERIF = os.path.dirname(os.path.dirname(os.path.abspath(__file__)))
DROPPED = ["docstrings", "comments", "type annotations", "calls on self._logger", "the message expression of raise X(msg) (only the class is kept)",
           "the @proposal_efficiency counting decorator (pass-through)"]
GLOBAL_ASSUMPTIONS = [
    "A-ENGINE: the vf VC generator (AST -> SMT rules) is trusted; partial correctness only (termination is not proved)",
    "A-WF: well-formedness of typed values (list lengths >= 0, ...) assumed where values are introduced",
    "A-REAL: Python floats are treated as mathematical reals (rounding, overflow, NaN ignored)",
    "A-HASH: __eq__/__hash__ of keys and vertices are consistent",
    "A-ALIAS: no aliasing beyond one-level references into containers (checked syntactically, not proved)",
    "A-CALLBACK: user callbacks are pure and deterministic",
    "A-LOG: logging has no effect on program state"]

def load_known():
    p = os.path.join(VERIF, "known_findings.json")
    return json.load(open(p)) if os.path.exists(p) else {"fixed": [], "open": []}

def match_open(known, pid, kind, name, case=None):
    """kind: 'obligation' | 'bounded'.  An open finding lists regexes for obligation names and bounded clause names."""
    for f in known.get("open", []):
        if f["property"] != pid: continue
        pats = f.get("match", {}).get("obligations" if kind == "obligation" else "bounded_clauses", [])
        if any(re.search(p, name) for p in pats): return f
    return None

# ----------------------------------------------------------------------------------------------- proof part
def prove(plan, repo, tier):
    from vf.spec import Registry
    from vf import lib, idioms
    from vf.driver import verify, counter_models
    from vf.solve import ok
    out = dict(obligations=[], undecided=[], assumptions=set(), functions=[], engine_errors=[], axioms=[], lemmas=0, callees={})
    for ment in plan.get("modules", []):
        modname = ment["name"]
        try:
            import itertools, vf.types as _T
            _T._fresh = itertools.count(0)          # names (which influence solver search) do not depend on what ran before
            reg = Registry(repo); lib.install(reg); idioms.install(reg)
            mod = importlib.import_module(f"contracts.{modname}")
            quals = mod.build(reg)
            if ment.get("functions"): quals = [q for q in quals if q in ment["functions"] or any(q.startswith(f) for f in ment.get("prefixes", []))]
            short = set(ment.get("expected_open", []))
            kw = dict(timeout_ms=120000 if tier == "quick" else 240000)      # wall-clock backstops; the resource limits (deterministic) are what bounds a query; kw.update(plan.get("solver", {}))
            obs, undecided, th = verify(reg, quals, verbose=False, thorough=(tier == "thorough"), short=short, **kw)
        except Exception as e:
            out["engine_errors"].append(f"{modname}: {type(e).__name__}: {e}\n{traceback.format_exc()}")
            continue
        for q in quals:
            try:
                m, _ = reg.fn(q); d = reg.find_def(m.relpath, q)
                out["functions"].append(dict(function=q, file=m.relpath, lines=[d.lineno, d.end_lineno], ast_sha256=hashlib.sha256(ast.dump(d).encode()).hexdigest()[:16]))
            except Exception as e:
                out["undecided"].append((q, f"function not found in the current source: {e}"))
        only, skip = ment.get("only"), ment.get("skip")
        for o in obs:
            own = (only is None or re.search(only, o.name) is not None) and not (skip and re.search(skip, o.name))
            if o.kind in ("canary",) or o.kind.startswith("safe") or o.kind in ("raises",): own = own or ment.get("safety", True)
            out["obligations"].append(dict(name=o.name, kind=o.kind, status=o.status, backend=o.backend, secs=round(o.secs, 3), line=o.loc, module=modname,
                                           own=own, ok=ok(o), second=getattr(o, "second", None), _o=o, _reg=reg, _quals=quals))
        out["undecided"] += undecided
        for f_, cs_ in getattr(th, "callees", {}).items(): out["callees"].setdefault(f_, set()).update(cs_)
        out["assumptions"] |= set(th.assumptions)
        out["axioms"] += [f"{n}: {j}" for n, _, j in reg.axioms]
        out["lemmas"] += len(reg.lemmas)
    return out

def counter_models_for(failed, cap=4):
    """small-scope instantiation of the same VCs for (at most `cap`) failed obligations, one VC generation per function and bound"""
    from vf.driver import counter_models
    from vf.reify import reify_entry
    out = {}; todo = failed[:cap]; groups = {}
    for o in todo: groups.setdefault(id(o["_reg"]), []).append(o)
    for obs in groups.values():
        names = {o["name"] for o in obs}
        for b in (2, 3):
            if not names: break
            try: cms = counter_models(obs[0]["_reg"], obs[0]["_quals"], set(names), B=b, timeout_ms=8000)
            except Exception as e:
                for n in names: out[n] = dict(error=f"{type(e).__name__}: {e}")
                break
            for n in list(names):
                cm = cms.get(n)
                if cm and cm[0] == "sat":
                    try: out[n] = dict(bound=b, entry=reify_entry(cm[2], cm[1]))
                    except Exception as e: out[n] = dict(bound=b, entry=None, error=f"reify: {e}")
                    names.discard(n)
    return out

# ----------------------------------------------------------------------------------------------- bounded part
def start_bounded(plan, repo, tier, seed):
    if not plan.get("bounded"): return None
    env = dict(os.environ); env["PYTHONPATH"] = f"{VERIF}:{repo}"; env["PYTHONDONTWRITEBYTECODE"] = "1"; env["PYTHONWARNINGS"] = "ignore"
    return subprocess.Popen([sys.executable, "-m", f"bounded.{plan['bounded']}", "--repo", repo, "--tier", tier, "--seed", str(seed)],
                            cwd=VERIF, env=env, stdout=subprocess.PIPE, stderr=subprocess.PIPE, text=True)

def finish_bounded(proc):
    if proc is None: return None
    out, err = proc.communicate()
    try:
        res = json.loads(out.strip().splitlines()[-1]); res["_stderr"] = err[-2000:]; return res
    except Exception:
        return dict(crashed=True, _stderr=(err or out)[-4000:], evaluations=0, distinct_nontrivial=0, violations=[])

# ----------------------------------------------------------------------------------------------- main
def jsonable(x):
    if isinstance(x, dict): return {str(k): jsonable(v) for k, v in x.items() if not str(k).startswith("_")}
    if isinstance(x, tuple): return {"__tuple__": [jsonable(v) for v in x]}
    if isinstance(x, (list, set, frozenset)): return [jsonable(v) for v in (sorted(x, key=repr) if isinstance(x, (set, frozenset)) else x)]
    if isinstance(x, (int, float, str, bool)) or x is None: return x
    return repr(x)

def main():
    ap = argparse.ArgumentParser(); ap.add_argument("pid"); ap.add_argument("--tier", default=os.environ.get("VERIF_TIER", "quick")); ap.add_argument("--replay")
    a = ap.parse_args(); pid = a.pid; tier = a.tier if a.tier in ("quick", "thorough") else "quick"
    seed = int(os.environ.get("VERIF_SEED", "0") or 0); repo = os.environ.get("VF_REPO", "/repo")
    sys.path.insert(0, VERIF)
    from vf.plans import PLANS
    if pid not in PLANS: print(f"unknown property {pid}", file=sys.stderr); sys.exit(2)
    plan = PLANS[pid]
    if a.replay:
        env = dict(os.environ); env["PYTHONPATH"] = f"{VERIF}:{repo}"
        sys.exit(subprocess.call([sys.executable, "-m", f"bounded.{plan['bounded']}", "--repo", repo, "--replay", a.replay], cwd=VERIF, env=env))
    t0 = time.time(); known = load_known()
    bproc = start_bounded(plan, repo, tier, seed)
    P = prove(plan, repo, tier)
    B = finish_bounded(bproc)
    thorough_extra = {}
    if tier == "thorough" and not os.environ.get("VF_EVIDENCE_DIR"):
        # (a) the assumed library contracts this property rests on, exercised against the installed libraries (testing, not proof)
        r = subprocess.run([sys.executable, "-m", "vf.libcheck", pid], cwd=VERIF, capture_output=True, text=True, env=dict(os.environ, PYTHONPATH=VERIF))
        try: thorough_extra["library_contracts_exercised"] = json.loads(r.stdout.strip().splitlines()[-1])
        except Exception: thorough_extra["library_contracts_exercised"] = {"error": (r.stderr or r.stdout)[-300:]}
        # (b) self-test of the machinery: deliberately broken and deliberately harmless edits on scratch copies
        if os.path.exists(os.path.join(VERIF, "mutants", f"{pid}.json")):
            r = subprocess.run([sys.executable, "-m", "vf.mutants", pid, "--json"], cwd=VERIF, capture_output=True, text=True, env=dict(os.environ, PYTHONPATH=VERIF, VF_REPO=repo))
            try: thorough_extra["self_test"] = json.loads(r.stdout.strip().splitlines()[-1])
            except Exception: thorough_extra["self_test"] = {"error": (r.stderr or r.stdout)[-300:]}
    os.makedirs(os.path.join(VERIF, "evidence"), exist_ok=True); rdir = os.path.join(VERIF, "replays", pid); os.makedirs(rdir, exist_ok=True)
    lines, known_lines, notes = [], [], []
    obs = [o for o in P["obligations"] if o["kind"] != "canary"]; own = [o for o in obs if o["own"]]
    canaries = [o for o in P["obligations"] if o["kind"] == "canary"]
    vacuous = [o for o in canaries if not o["ok"]]
    # a failed `static` obligation is a sufficient syntactic condition that no longer holds: undecided, never a verdict
    for o in own:
        if o["kind"] == "static" and not o["ok"]: P["undecided"].append((o["name"], "structural sufficient condition does not hold on this source: " + str(getattr(o["_o"], "detail", ""))[:200]))
    failed = [o for o in own if not o["ok"] and o["kind"] != "static"]
    # modular soundness: a caller is checked against its callee's CONTRACT; while the callee itself could not be checked against that contract in this run (it left the subset,
    # its loops changed, ...), a caller's failed obligation says nothing about the property -- undecided, never a verdict
    und_fns = {q.split(":")[0] for q, _ in P["undecided"]}
    shaky = [o for o in failed if P["callees"].get(o["name"].split(":")[0], set()) & und_fns]
    for o in shaky: P["undecided"].append((o["name"], "the obligation relies on the contract of a callee that is itself undecided in this run: " + ", ".join(sorted(P["callees"][o["name"].split(":")[0]] & und_fns))))
    failed = [o for o in failed if o not in shaky]
    bviol = (B or {}).get("violations", []) if B else []
    # functions whose hypotheses are contradictory are treated as undecided, never as proved
    vac_fns = {o["name"].split(":")[0] for o in vacuous}
    for f in sorted(vac_fns): P["undecided"].append((f, "vacuity canary proved false: hypotheses contradictory")); notes.append(f"UNDECIDED function={f} reason=vacuous-hypotheses")
    new_b = []
    for v in bviol:
        f = match_open(known, pid, "bounded", v.get("clause", ""))
        if f: known_lines.append(f"KNOWN-FINDING: property={pid} {f['id']} {f['what']} [bounded clause {v.get('clause')}; e.g. {json.dumps(jsonable(v.get('case')))[:160]}]")
        else: new_b.append(v)
    new_failed = [o for o in failed if not match_open(known, pid, "obligation", o["name"])]
    cms = counter_models_for(new_failed) if new_failed else {}
    for o in failed:
        f = match_open(known, pid, "obligation", o["name"])
        if f:
            known_lines.append(f"KNOWN-FINDING: property={pid} {f['id']} {f['what']} [obligation {o['name']} {o['status']}]"); continue
        cm = cms.get(o["name"])
        fn = o["name"].split(":")[0]
        conc = next((v for v in new_b if v.get("function") in (None, fn)), None) or (new_b[0] if new_b else None)
        h = hashlib.sha256(o["name"].encode()).hexdigest()[:10]; path = os.path.join(rdir, f"obligation-{h}.json")
        try: smt = o["_o"].smt2()
        except Exception: smt = ""
        json.dump(jsonable(dict(property=pid, kind="failed-obligation", obligation=o["name"], obligation_kind=o["kind"], function=fn, source_line=o["line"], module=o["module"],
                                solver_status=o["status"], solver_output=f"{o['status']} (z3 E-matching, cvc5, z3 default; {o['secs']}s)", counter_model=cm,
                                concrete_failing_input=conc, repo=repo, smt2_head=smt[:3000])), open(path, "w"), indent=1)
        lines.append(f"VIOLATION property={pid} replay={path} obligation={o['name']}" + ("" if conc else " no-failing-input-found"))
    claimed_by_obl = {id(v) for o in failed for v in new_b[:1]} if failed else set()
    for i, v in enumerate(new_b):
        if failed and i == 0 and not any(match_open(known, pid, "obligation", o["name"]) for o in failed): continue     # already reported as the concrete input of a failed obligation
        h = hashlib.sha256(json.dumps(jsonable(v), sort_keys=True).encode()).hexdigest()[:10]; path = os.path.join(rdir, f"bounded-{h}.json")
        json.dump(jsonable(dict(property=pid, kind="bounded-violation", clause=v.get("clause"), function=v.get("function"), case=v.get("case"), detail=v.get("detail"), repo=repo)), open(path, "w"), indent=1)
        lines.append(f"VIOLATION property={pid} replay={path} clause={v.get('clause')}")
        if len(lines) >= 12: break
    for q, why in P["undecided"]: notes.append(f"UNDECIDED function={q} reason={why}")
    for e in P["engine_errors"]: notes.append("ENGINE-ERROR " + e.splitlines()[0]); print(e, file=sys.stderr)
    if B and B.get("crashed"): notes.append("BOUNDED-CRASHED"); print(B["_stderr"], file=sys.stderr)
    if B and "HARNESS-ERROR" in B.get("_stderr", ""): notes.append("UNDECIDED bounded harness raised internal errors (see stderr); those cases were not evaluated"); print(B["_stderr"], file=sys.stderr)
    # ---- evidence
    discharged = [o for o in own if o["ok"]]
    proof_complete = bool(own) and not failed and not P["undecided"] and not P["engine_errors"] and not vacuous
    claimed = plan["level"]
    if claimed == "proof" and not proof_complete: level = "other"
    elif claimed in ("other",) and not own and B: level = "exploration"
    else: level = claimed
    by = {}; secs = {}
    for o in own:
        by[o["backend"] or "none"] = by.get(o["backend"] or "none", 0) + 1; secs[o["backend"] or "none"] = round(secs.get(o["backend"] or "none", 0) + o["secs"], 2)
    kinds = {}
    for o in own: kinds[o["kind"]] = kinds.get(o["kind"], 0) + 1
    cov = dict(obligations=len(own), discharged=len(discharged), obligations_by_kind=kinds, backends=by, solver_seconds=secs,
               second_solver_confirmed=sum(1 for o in own if o.get("second") == "unsat") if tier == "thorough" else None,
               lemmas_proved_by_induction=P["lemmas"], canaries=len(canaries), canaries_vacuous=len(vacuous),
               supporting_obligations_not_counted=len(obs) - len(own),
               undecided=[o["name"] for o in failed] + [f"{q}: {w}" for q, w in P["undecided"]] + P["engine_errors"][:3] and [e.splitlines()[0] for e in P["engine_errors"]],
               functions_under_contract=P["functions"], dropped_by_extraction=DROPPED,
               checker_cmd=f"./check {pid} --tier {tier}  (vf: ast->SMT VC generator over {repo}; z3 {z3ver()} E-matching config raced with cvc5 {cvc5ver()}, then z3 default)",
               trusted_base=["vf VC generator (/verif/vf)", "z3", "cvc5", "CPython ast", "assumed library contracts (see assumptions)"],
               explanation=plan["explanation"], clauses=plan.get("clauses", {}), not_decided=plan.get("not_decided", []),
               known_findings=[l for l in known_lines])
    cov.update(thorough_extra)
    disagreements = [o["name"] for o in own if o["ok"] and o.get("second") == "sat"]
    if disagreements: P["engine_errors"].append("solver disagreement (unsat vs sat) on " + ", ".join(disagreements[:3]))
    cov["undecided"] = [o["name"] for o in failed] + [f"{q}: {w}" for q, w in P["undecided"]] + [e.splitlines()[0] for e in P["engine_errors"]]
    samples = [f"{o['name']} [{o['kind']}] -> {o['status']} by {o['backend']} in {o['secs']}s" for o in own[:4]]
    if B and not B.get("crashed"):
        cov.update(evaluations=B.get("evaluations", 0), distinct_nontrivial=B.get("distinct_nontrivial", 0), rule=B.get("rule", ""), exhaustive=bool(B.get("exhaustive")),
                   bounded=dict(label="bounded stand-in, never counted as proved", bound=B.get("bound"), wall_s=B.get("wall_s"), extra=B.get("extra")))
        samples += [jsonable(s) for s in B.get("samples", [])[:4]]
    cov["samples"] = samples or ["(none)"]
    if level == "proof" or cov.get("evaluations", 0) == 0:
        cov.setdefault("evaluations", len(own)); cov.setdefault("distinct_nontrivial", len({o["name"] for o in own})); cov.setdefault("rule", "one evaluation per proof obligation")
    ev = dict(property_id=pid, tier=tier, seed=seed, level=level, coverage=cov, wall_s=round(time.time() - t0, 2), violations=len(lines),
              assumptions=sorted(P["assumptions"]) + P["axioms"] + GLOBAL_ASSUMPTIONS + plan.get("assumptions", []))
    json.dump(ev, open(os.path.join(os.environ.get("VF_EVIDENCE_DIR") or os.path.join(VERIF, "evidence"), f"{pid}.json"), "w"), indent=1)
    for l in known_lines[:20]: print(l)
    for l in notes: print(l)
    for l in lines: print(l)
    print(f"{pid}: tier={tier} obligations={len(own)} discharged={len(discharged)} (+{len(obs) - len(own)} supporting) bounded_evaluations={cov.get('evaluations')} level={level} wall={ev['wall_s']}s")
    nothing = not own and (B is None or B.get("crashed"))
    crashed = bool(B and B.get("crashed"))          # the stand-in could not run at all (harness bug, or the tree does not even import): never reported as "held"
    sys.exit(1 if lines else (2 if (nothing or crashed) else 0))

def z3ver():
    import z3; return z3.get_version_string()
def cvc5ver():
    try: return subprocess.run(["cvc5", "--version"], capture_output=True, text=True).stdout.split("\n")[0].split("version")[-1].strip()
    except Exception: return "?"

if __name__ == "__main__": main()
