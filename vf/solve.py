"""vf2 discharge: SMT-LIB text to a process pool; portfolio z3-ematch / z3-default / cvc5; counter-model search."""
import multiprocessing as mp, subprocess, tempfile, os, time
import z3
Z3_CONFIGS = [("z3-ematch", {"smt.mbqi": False, "smt.auto_config": False}), ("z3-default", {})]

def _z3(smt, opts, rlimit, timeout_ms, want_model=False):
    s = z3.Solver(); s.set("timeout", timeout_ms); s.set("rlimit", rlimit)
    for k, v in opts.items(): s.set(k, v)
    s.from_string(smt); r = s.check()
    return str(r)
def _cvc5(smt, timeout_ms):
    f = tempfile.NamedTemporaryFile("w", suffix=".smt2", delete=False); f.write("(set-logic ALL)\n" + smt); f.close()
    try:
        out = subprocess.run(["cvc5", f"--tlimit={timeout_ms}", f.name], capture_output=True, text=True).stdout.strip()
    finally: os.unlink(f.name)
    return out if out in ("sat", "unsat") else "unknown"
def work(job):
    name, smt, rlimit, timeout_ms, use_cvc5 = job; t0 = time.time()
    for cname, opts in Z3_CONFIGS[:1]:
        if _z3(smt, opts, rlimit, timeout_ms) == "unsat": return name, "proved", cname, time.time() - t0
    if use_cvc5 and _cvc5(smt, min(timeout_ms, 20000)) == "unsat": return name, "proved", "cvc5", time.time() - t0
    r = _z3(smt, Z3_CONFIGS[1][1], rlimit, timeout_ms)
    if r == "unsat": return name, "proved", "z3-default", time.time() - t0
    if r == "sat": return name, "refuted", "z3-default", time.time() - t0
    return name, "unknown", None, time.time() - t0

def discharge_all(obs, rlimit=20_000_000, timeout_ms=60_000, procs=16, use_cvc5=True):
    jobs = [(o.name + f"#{i}", o.smt2(), (rlimit // 20 if o.kind == "canary" else rlimit), (3000 if o.kind == "canary" else timeout_ms), use_cvc5 and o.kind != "canary") for i, o in enumerate(obs)]
    with mp.Pool(min(procs, max(1, len(jobs)))) as p: res = p.map(work, jobs, chunksize=1)
    for o, (nm, status, backend, secs) in zip(obs, res):
        o.status, o.backend, o.secs = status, backend, secs
    return obs

def ok(o):
    """canaries: only a proof of `false` is an alarm"""
    return (o.status != "proved") if o.kind == "canary" else (o.status == "proved")
