"""vf discharge: SMT-LIB text to a process pool; portfolio z3 (E-matching config) -> cvc5 -> z3 default.
Budgets are resource limits (deterministic), wall-clock limits are only a generous backstop."""
import multiprocessing as mp, subprocess, tempfile, os, time, re
import z3
Z3_CONFIGS = [("z3-ematch", {"smt.mbqi": False, "smt.auto_config": False}), ("z3-default", {}), ("z3-ematch-auto", {"smt.mbqi": False})]

def _z3(smt, opts, rlimit, timeout_ms):
    s = z3.Solver(); s.set("timeout", timeout_ms); s.set("rlimit", rlimit)
    for k, v in opts.items(): s.set(k, v)
    s.from_string(smt); r = s.check()
    return str(r)
def _cvc5(smt, timeout_ms, rlimit=None):
    f = tempfile.NamedTemporaryFile("w", suffix=".smt2", delete=False); f.write("(set-logic ALL)\n" + smt); f.close()
    try:
        cmd = ["/usr/bin/cvc5", f"--tlimit={timeout_ms}"] + ([f"--rlimit={rlimit}"] if rlimit else []) + [f.name]
        out = subprocess.run(cmd, capture_output=True, text=True).stdout.strip()
    except Exception: out = "unknown"
    finally: os.unlink(f.name)
    return out if out in ("sat", "unsat") else "unknown"
def work(job):
    """portfolio, cheapest first; every configuration is a sound prover, the first `unsat` wins; only z3's default configuration and cvc5 may report `sat`"""
    name, smt, rlimit, timeout_ms, use_cvc5, both = job; t0 = time.time()
    status, backend, second = "unknown", None, None
    E, EA, D = Z3_CONFIGS[0][1], Z3_CONFIGS[2][1], Z3_CONFIGS[1][1]
    W = lambda frac, floor: max(floor, int(timeout_ms * frac))
    # a quick pass of every configuration with a small budget first (most obligations are decided in well under a second by ONE of them), then the long budgets
    stages = [("z3-ematch", lambda: _z3(smt, E, rlimit // 40, W(1 / 40, 4000))), ("z3-ematch-auto", lambda: _z3(smt, EA, rlimit // 40, W(1 / 40, 4000)))]
    if use_cvc5: stages.append(("cvc5", lambda: _cvc5(smt, W(1 / 20, 5000))))
    stages += [("z3-ematch", lambda: _z3(smt, E, rlimit // 8, W(1 / 8, 15000))), ("z3-ematch-auto", lambda: _z3(smt, EA, rlimit // 8, W(1 / 8, 15000))),
               ("z3-ematch", lambda: _z3(smt, dict(E, **{"smt.random_seed": 7}), rlimit // 2, timeout_ms // 2))]
    if use_cvc5: stages.append(("cvc5", lambda: _cvc5(smt, timeout_ms // 2)))
    stages.append(("z3-default", lambda: _z3(smt, D, rlimit, timeout_ms)))
    for nm, run in stages:
        r = run()
        if nm == "cvc5" and second is None: second = r
        if r == "unsat": status, backend = "proved", nm; break
        if r == "sat" and nm in ("cvc5", "z3-default"): status, backend = "refuted", nm; break
    if both and second is None: second = _cvc5(smt, min(timeout_ms, 30000))
    return name, status, backend, time.time() - t0, second

def discharge_all(obs, rlimit=40_000_000, timeout_ms=120_000, procs=16, use_cvc5=True, thorough=False, short=()):
    jobs = []
    for i, o in enumerate(obs):
        quick = o.kind == "canary" or any(re.search(p, o.name) for p in short)
        jobs.append((o.name + f"#{i}", o.smt2(), (rlimit // 20 if quick else rlimit), (3000 if o.kind == "canary" else (8000 if quick else timeout_ms)),
                     use_cvc5 and not quick, thorough and o.kind != "canary"))
    if not jobs: return obs
    # workers are started through a fork SERVER (a fresh process), never forked from this process: it has used z3 (native threads), and a plain fork of a threaded
    # process deadlocked once in about two thousand runs of these checks
    with mp.get_context("forkserver").Pool(min(procs, max(1, len(jobs)))) as p: res = p.map(work, jobs, chunksize=1)
    for o, (nm, status, backend, secs, second) in zip(obs, res):
        o.status, o.backend, o.secs, o.second = status, backend, secs, second
    return obs

def ok(o):
    """canaries: only a proof of `false` is an alarm"""
    return (o.status != "proved") if o.kind == "canary" else (o.status == "proved")
