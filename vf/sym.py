"""vf2 symbolic executor: real Python function ASTs + sidecar contracts -> proof obligations."""
import ast, copy, itertools, operator
import z3
from .types import *
from .spec import *

class Unsupported(Exception): pass
class ContractDrift(Exception): pass
class ContractError(Exception): pass

def loop_signatures(fn):
    """pre-order list of (kind, nesting depth, loop variables) of a function's loops.  The iterated expression / loop test is deliberately NOT part of
    the signature: an edit there keeps the loop bound to its invariant and is judged by the obligations; a removed, added, re-nested or re-targeted
    loop shifts the ordinals the invariants are bound by and is contract drift."""
    out = []
    def walk(n, depth):
        for c in ast.iter_child_nodes(n):
            if isinstance(c, ast.For): out.append(f"for {ast.unparse(c.target)} @depth {depth}"); walk(c, depth + 1)
            elif isinstance(c, ast.While): out.append(f"while @depth {depth}"); walk(c, depth + 1)
            else: walk(c, depth)
    walk(fn, 0); return out
_SIGS = None
def loop_signatures_recorded():
    global _SIGS
    if _SIGS is None:
        import json, os
        p = os.path.join(os.path.dirname(os.path.dirname(os.path.abspath(__file__))), "contracts", "loop_sigs.json")
        _SIGS = json.load(open(p)) if os.path.exists(p) else {}
    return _SIGS

class Obligation:
    def __init__(self, name, kind, hyps, goal, loc=None):
        self.name, self.kind, self.hyps, self.goal, self.loc = name, kind, list(hyps), goal, loc
        self.status = None; self.backend = None; self.secs = 0.0; self.model = None
    def smt2(self):
        s = z3.Solver(); s.add(*self.hyps); s.add(z3.Not(self.goal)); return s.to_smt2()

class Ref:
    def __init__(self, root, steps): self.root, self.steps = root, list(steps)

class State:
    def __init__(self): self.env = {}; self.old = None; self.undef = set(); self.qbound = frozenset()
    def copy(self):
        n = State(); n.env = dict(self.env); n.old = self.old; n.undef = set(self.undef); n.qbound = self.qbound; return n

class Outcome:
    def __init__(self, kind, state, pc, value=None, exc=None):
        self.kind, self.state, self.pc, self.value, self.exc = kind, state, pc, value, exc

def zand(xs):
    xs = [x for x in xs if not z3.is_true(x)]
    return z3.And(*xs) if len(xs) > 1 else (xs[0] if xs else z3.BoolVal(True))
def py_floordiv(a, d):
    q, r = a / d, a % d
    return z3.If(d > 0, q, z3.If(r == 0, q, q - 1))
def py_mod(a, d):
    r = a % d
    return z3.If(d > 0, r, z3.If(r == 0, r, r + d))
def set_has(sz, x):
    """membership in a set value; a set built by a comprehension-like rule is a lambda and is beta-reduced here (E-matching does not look through as-array terms)"""
    if z3.is_quantifier(sz) and sz.is_lambda(): return z3.substitute_vars(sz.body(), x)
    return z3.Select(sz, x)
def to_real(v): return z3.ToReal(v.z) if isinstance(v.t, IntT) else v.z

CMP = {"Eq": operator.eq, "NotEq": operator.ne, "Lt": operator.lt, "LtE": operator.le, "Gt": operator.gt, "GtE": operator.ge,
       "Is": operator.eq, "IsNot": operator.ne}

def symbols_of(e):
    """names of the uninterpreted function symbols applied in a z3 expression (quantifier bodies included)"""
    out = set(); seen = set(); todo = [e]
    while todo:
        x = todo.pop()
        if x.get_id() in seen: continue
        seen.add(x.get_id())
        if z3.is_quantifier(x): todo.append(x.body()); continue
        if z3.is_app(x):
            d = x.decl()
            if d.kind() == z3.Z3_OP_UNINTERPRETED and x.num_args() > 0: out.add(d.name())
            todo.extend(x.children())
    return out

def quant(kind, bound, body, patterns=None):
    """quantifier with explicit E-matching patterns when they are admissible (a pattern must not contain if-then-else or other interpreted structure), otherwise with inferred ones"""
    mk = z3.ForAll if kind == "forall" else z3.Exists
    def has_ite(e):
        todo = [e]; seen = set()
        while todo:
            x = todo.pop()
            if x.get_id() in seen: continue
            seen.add(x.get_id())
            if z3.is_app(x):
                if x.decl().kind() == z3.Z3_OP_ITE: return True
                todo.extend(x.children())
        return False
    if patterns and not any(has_ite(p) for p in patterns):
        try: return mk(bound, body, patterns=patterns)
        except z3.Z3Exception: pass
    return mk(bound, body)

class Theory:
    """SMT side of the registry: spec-function symbols + axioms, proved lemmas, assumed axioms. cex_bound=None -> proof mode."""
    def __init__(self, reg, cex_bound=None):
        self.reg = reg; self.B = cex_bound; self.funcs = {}; self.axioms = []; self.side = []; self.lemma_axioms = []
        self.sf_axioms = {}; self.sf_deps = {}; self.owned = set(); self.lemma_axioms_tagged = []
        self.assumptions = set()
    def hyps(self): return self.axioms + [a for a, _ in self.lemma_axioms_tagged] + self.lemma_axioms + [z for _, z, _ in self.reg.axioms]
    def hyps_for(self, goal, kind, pc=()):
        """definition reveal by goal relevance: the unfolding axioms of a recursive spec function (and the lemmas about it) are passed to the solver only
        when the goal mentions the function (transitively through the definitions); otherwise the function stays uninterpreted for this query.  Dropping
        hypotheses is always sound; it keeps the queries small and stops unrelated obligations from unfolding big definitions.  Goals that are `false`
        (unexpected exception, safety, canaries) get everything."""
        names = set(self.sf_axioms); lemma_names = names
        if not (kind in ("raises", "canary", "lemma", "hint") or kind.startswith("safe") or z3.is_false(goal)):
            lemma_names = set(symbols_of(goal) & names)          # engine-proved lemmas are cheap, pattern-guarded facts: relevant when goal OR hypotheses mention the function
            for h in pc: lemma_names |= symbols_of(h) & names
            seen = symbols_of(goal) & names; todo = list(seen)
            while todo:
                for d in self.sf_deps.get(todo.pop(), ()):
                    if d in names and d not in seen: seen.add(d); todo.append(d)
            names = seen
        out = [a for a in self.axioms if id(a) not in self.owned]
        for nm in self.sf_axioms:
            if nm in names: out += self.sf_axioms[nm]
        out += [a for a, ns in self.lemma_axioms_tagged if ns & lemma_names or not ns] + self.lemma_axioms
        return out + [z for _, z, _ in self.reg.axioms]

class FnExec:
    def __init__(self, reg, qual, theory):
        self.reg = reg; self.qual = qual; self.th = theory
        self.mod, self.spec = reg.fn(qual)
        self.fn = reg.find_def(self.mod.relpath, qual)
        self.cls = qual.split(".")[0] if "." in qual and reg.has_cls(qual.split(".")[0]) else None
        self.obligations = []; self.rng_log = []; self.assumptions = theory.assumptions
        self.loop_ids = {}
        def walk(n):
            for c in ast.iter_child_nodes(n):
                if isinstance(c, (ast.For, ast.While)): self.loop_ids[id(c)] = len(self.loop_ids)
                walk(c)
        walk(self.fn)
        self.comp_ids = {id(c): i for i, c in enumerate(x for x in ast.walk(self.fn) if isinstance(x, ast.ListComp))}
        self.mode = "code"; self.pending_exc = []; self.handlers = []
        # binding check: loop invariants attach to loops by ordinal, so the loop headers must be the ones the sidecar was written against
        rec = loop_signatures_recorded().get(f"{self.mod.relpath}::{qual}")
        if rec is not None and rec != loop_signatures(self.fn):
            raise ContractDrift(f"{qual}: loop structure changed (recorded {rec}, found {loop_signatures(self.fn)}); invariants cannot be bound")

    # ================================================================== obligations
    def oblige(self, name, kind, pc, goal, node=None):
        if self.mode == "spec": return
        self.obligations.append(Obligation(f"{self.qual}:{name}", kind, self.th.hyps_for(goal, kind, pc) + self.th.side + list(pc), goal, getattr(node, "lineno", None)))

    def branch_exc(self, pc, cond, exc, node):
        """operation may raise `exc` when cond holds: queue the exceptional path, continue on the normal one"""
        if self.mode == "spec": return
        self.pending_exc.append((list(pc) + [cond], exc, node))
        pc.append(z3.Not(cond))

    # ================================================================== paths (lvalues / references)
    def path_of(self, node, st, pc):
        if isinstance(node, ast.Name):
            v = st.env.get(node.id)
            if v is None: raise Unsupported(f"unknown name {node.id}")
            if isinstance(v, Ref): return v.root, list(v.steps)
            return node.id, []
        if isinstance(node, ast.Attribute):
            root, steps = self.path_of(node.value, st, pc)
            base = self.read_path(st, root, steps)
            if isinstance(base.t, RecT):
                fld = self.reg.cls(base.t.name).properties.get(node.attr, node.attr) if self.reg.has_cls(base.t.name) else node.attr
                if fld not in base.t.fs: raise Unsupported(f"class {base.t.name} has no field {fld}")
                return root, steps + [("field", fld)]
            raise Unsupported(f"attribute .{node.attr} on {base.t!r}")
        if isinstance(node, ast.Subscript):
            root, steps = self.path_of(node.value, st, pc)
            idx = self.expr(node.slice, st, pc)
            if isinstance(node.slice, ast.UnaryOp) and isinstance(node.slice.op, ast.USub) and isinstance(node.slice.operand, ast.Constant):
                cont = self.read_path(st, root, steps)
                if isinstance(cont.t, ListT): idx = Val(INT, cont.t.len(cont.z) - node.slice.operand.value)      # constant negative index counts from the end
            return root, steps + [("index", idx)]
        raise Unsupported(f"not an lvalue: {type(node).__name__}")

    def read_path(self, st, root, steps):
        v = st.env[root]
        if isinstance(v, Ref): return self.read_path(st, v.root, v.steps + list(steps))
        for s in steps: v = self.step_read(v, s)
        return v
    def step_read(self, v, s):
        t = v.t
        if s[0] == "field": return Val(t.fs[s[1]], t.getf(v.z, s[1]))
        if s[0] == "index":
            i = s[1]
            if isinstance(t, ListT): return Val(t.elem, t.at(v.z, i.z))
            if isinstance(t, DictT): return Val(t.v, z3.Select(t.val(v.z), i.z))
            if isinstance(t, ArrT): return Val(t.v, z3.Select(v.z, i.z))
        raise Unsupported(f"step {s[0]} on {t!r}")
    def write_path(self, st, root, steps, newv):
        cur = st.env.get(root)
        if isinstance(cur, Ref): return self.write_path(st, cur.root, cur.steps + list(steps), newv)
        st.env[root] = self._write(cur, list(steps), newv)
    def _write(self, cur, steps, newv):
        if not steps: return newv
        s, rest = steps[0], steps[1:]; t = cur.t
        inner = self._write(self.step_read(cur, s), rest, newv)
        if s[0] == "field": return Val(t, t.setf(cur.z, s[1], inner.z))
        i = s[1]
        if isinstance(t, ListT): return Val(t, t.make(t.len(cur.z), z3.Store(t.arr(cur.z), i.z, inner.z), like=cur.z))
        if isinstance(t, DictT): return Val(t, t.mk(z3.Store(t.dom(cur.z), i.z, True), z3.Store(t.val(cur.z), i.z, inner.z)))
        if isinstance(t, ArrT): return Val(t, z3.Store(cur.z, i.z, inner.z))
        raise Unsupported(f"write into {t!r}")

    # ================================================================== expressions
    def expr(self, node, st, pc):
        for hook in self.reg.call_hooks:
            r = hook(self, node, st, pc)
            if r is not None: return r
        m = getattr(self, "e_" + type(node).__name__, None)
        if m is None: raise Unsupported(f"expression {type(node).__name__} at line {getattr(node, 'lineno', '?')}")
        return m(node, st, pc)

    def e_Constant(self, n, st, pc):
        c = n.value
        if isinstance(c, bool): return Val(BOOL, z3.BoolVal(c))
        if isinstance(c, int): return Val(INT, z3.IntVal(c))
        if isinstance(c, float): return Val(REAL, z3.RealVal(repr(c)))
        if c is None: return Val(NONE, z3.BoolVal(True))
        raise Unsupported(f"constant {c!r}")
    def e_Name(self, n, st, pc):
        if n.id in st.env:
            v = st.env[n.id]
            return self.read_path(st, v.root, v.steps) if isinstance(v, Ref) else v
        if n.id in self.reg.consts: return self.reg.consts[n.id]
        raise Unsupported(f"unknown name {n.id}")
    def e_Attribute(self, n, st, pc):
        key = ast.unparse(n)
        if key in self.reg.consts: return self.reg.consts[key]
        try:
            root, steps = self.path_of(n, st, pc)
        except Unsupported:
            base = self.expr(n.value, st, pc)
            if isinstance(base.t, RecT):
                fld = self.reg.cls(base.t.name).properties.get(n.attr, n.attr) if self.reg.has_cls(base.t.name) else n.attr
                return Val(base.t.fs[fld], base.t.getf(base.z, fld))
            raise
        if root == "self" and len(steps) == 1 and steps[0][1] in st.undef:
            self.oblige(f"safe.defined({steps[0][1]})@{n.lineno}", "safe.defined", pc, z3.BoolVal(False), n)
        return self.read_path(st, root, steps)
    def e_Subscript(self, n, st, pc):
        if isinstance(n.slice, ast.Slice):
            base = self.expr(n.value, st, pc); t = base.t; sl = n.slice
            if not isinstance(t, ListT) or t.elem.mutable or sl.step is not None: raise Unsupported("slice of " + repr(t))
            ln = t.len(base.z)
            def norm(e, dflt):      # Python's clamping of a slice bound: negative counts from the end, then clamp into [0, len]
                if e is None: return dflt
                v = self.expr(e, st, pc).z; return z3.If(v < 0, z3.If(v + ln < 0, 0, v + ln), z3.If(v > ln, ln, v))
            lo, hi = norm(sl.lower, z3.IntVal(0)), norm(sl.upper, ln)
            asort = t.arr(base.z).sort(); SL = z3.Function(f"seq_slice_{abs(hash(asort.sexpr())) % 10**8}", asort, z3.IntSort(), asort)
            if SL.name() not in self.th.funcs:
                self.th.funcs[SL.name()] = SL; a_ = z3.Const("sla_", asort); p_, t_ = z3.Ints("slp_ slt_")
                self.th.axioms.append(z3.ForAll([a_, p_, t_], z3.Select(SL(a_, p_), t_) == z3.Select(a_, p_ + t_), patterns=[z3.Select(SL(a_, p_), t_)]))
            return Val(t, t.make(z3.If(hi > lo, hi - lo, 0), SL(t.arr(base.z), lo), like=base.z))
        base = self.expr(n.value, st, pc); idx = self.expr(n.slice, st, pc); t = base.t
        if isinstance(t, ListT):
            i = idx.z
            if isinstance(n.slice, ast.UnaryOp) and isinstance(n.slice.op, ast.USub) and isinstance(n.slice.operand, ast.Constant):
                i = t.len(base.z) - n.slice.operand.value      # constant negative index
            self.branch_exc(pc, z3.Not(z3.And(i >= 0, i < t.len(base.z))), "IndexError", n)
            return Val(t.elem, t.at(base.z, i))
        if isinstance(t, DictT):
            self.branch_exc(pc, z3.Not(z3.Select(t.dom(base.z), idx.z)), "KeyError", n)
            return Val(t.v, z3.Select(t.val(base.z), idx.z))
        if isinstance(t, ArrT): return Val(t.v, z3.Select(base.z, idx.z))
        if isinstance(t, PairT) and isinstance(n.slice, ast.Constant) and n.slice.value in (0, 1):
            return Val(t.a, t.fst(base.z)) if n.slice.value == 0 else Val(t.b, t.snd(base.z))
        raise Unsupported(f"subscript on {t!r}")
    def e_BinOp(self, n, st, pc):
        a = self.expr(n.left, st, pc); b = self.expr(n.right, st, pc); op = type(n.op).__name__
        if isinstance(a.t, (IntT, RealT)) and isinstance(b.t, (IntT, RealT)):
            real = isinstance(a.t, RealT) or isinstance(b.t, RealT) or op == "Div"
            az, bz = (to_real(a), to_real(b)) if real else (a.z, b.z); t = REAL if real else INT
            if op == "Add": return Val(t, az + bz)
            if op == "Sub": return Val(t, az - bz)
            opaque = getattr(self.spec, "opaque_arith", False) and real and not (z3.is_rational_value(z3.simplify(az)) or z3.is_rational_value(z3.simplify(bz)))
            if op == "Mult" and not real and getattr(self.spec, "opaque_arith", False) == "all" and not (z3.is_int_value(z3.simplify(az)) or z3.is_int_value(z3.simplify(bz))):
                # opaque_arith="all": a product of two non-constant integers (an offset p * size) is an uninterpreted function of its factors on both sides
                return Val(INT, z3.Function("int_mul", z3.IntSort(), z3.IntSort(), z3.IntSort())(az, bz))
            if op == "Mult":
                # opaque_arith: products / quotients of two non-constant reals become uninterpreted functions (code and contract are translated alike, so
                # only congruence is used); this keeps nonlinear arithmetic out of queries whose proof is pure bookkeeping.  Sound: fewer facts.
                return Val(t, z3.Function("real_mul", z3.RealSort(), z3.RealSort(), z3.RealSort())(az, bz) if opaque else az * bz)
            if op == "Div":
                self.branch_exc(pc, bz == 0, "ZeroDivisionError", n)
                return Val(REAL, z3.Function("real_div", z3.RealSort(), z3.RealSort(), z3.RealSort())(az, bz) if opaque else az / bz)
            if op == "FloorDiv" and not real:
                self.branch_exc(pc, bz == 0, "ZeroDivisionError", n)
                if getattr(self.spec, "opaque_arith", False) == "all":      # opaque integer arithmetic: a // b is an uninterpreted function of its operands on both sides
                    return Val(INT, z3.Function("int_floordiv", z3.IntSort(), z3.IntSort(), z3.IntSort())(az, bz))
                return Val(INT, py_floordiv(az, bz))
            if op == "Mod" and not real:
                self.branch_exc(pc, bz == 0, "ZeroDivisionError", n); return Val(INT, py_mod(az, bz))
        if op == "Mult" and isinstance(a.t, ListT) and isinstance(b.t, IntT):
            ln = z3.simplify(a.t.len(a.z))
            if not (z3.is_int_value(ln) and ln.as_long() == 1): raise Unsupported("list * int with len != 1")
            e0 = z3.simplify(a.t.at(a.z, 0))
            if isinstance(a.t.elem, IntT) and z3.is_int_value(e0):      # [c] * n for a literal c: the canonical representation (every slot c), e.g. [0] * n is the all-zero tuple body
                n_ = z3.If(b.z > 0, b.z, 0); return Val(a.t, a.t.make(n_, z3.K(z3.IntSort(), e0), kind=z3.BoolVal(False)))
            out = fresh(a.t, "rep"); q = fresh_int("q")
            pc.append(a.t.len(out.z) == z3.If(b.z > 0, b.z, 0))
            pc.append(z3.ForAll([q], z3.Implies(z3.And(0 <= q, q < b.z), a.t.at(out.z, q) == a.t.at(a.z, 0))))
            return out
        if op == "Sub" and isinstance(a.t, SetT) and isinstance(b.t, SetT) and type(a.t.elem) is type(b.t.elem):
            x = z3.Const(f"sx!{uid()}", a.t.elem.sort()); return Val(a.t, z3.Lambda([x], z3.And(set_has(a.z, x), z3.Not(set_has(b.z, x)))))
        if op == "Pow" and "pow" in self.reg.binop_hooks:
            r = self.reg.binop_hooks["pow"](self, a, b, pc, n)
            if r is not None: return r
        if op == "Add" and "concat" in self.reg.binop_hooks:
            r = self.reg.binop_hooks["concat"](self, a, b)
            if r is not None: return r
        raise Unsupported(f"binop {op} on {a.t!r},{b.t!r}")
    def e_UnaryOp(self, n, st, pc):
        a = self.expr(n.operand, st, pc)
        if isinstance(n.op, ast.Not): return Val(BOOL, z3.Not(a.z))
        if isinstance(n.op, ast.USub): return Val(a.t, -a.z)
        if isinstance(n.op, ast.UAdd): return a
        raise Unsupported("unary op")
    def e_BoolOp(self, n, st, pc):
        vals = []; cur = list(pc)
        for v in n.values:
            x = self.expr(v, st, cur); vals.append(x.z)
            cur = cur + [x.z if isinstance(n.op, ast.And) else z3.Not(x.z)]
        return Val(BOOL, z3.And(*vals) if isinstance(n.op, ast.And) else z3.Or(*vals))
    def e_Compare(self, n, st, pc):
        left = self.expr(n.left, st, pc); res = []
        for op, rn in zip(n.ops, n.comparators):
            right = self.expr(rn, st, pc); o = type(op).__name__
            if o in ("In", "NotIn"):
                t = right.t
                if isinstance(t, DictT): z = z3.Select(t.dom(right.z), left.z)
                elif isinstance(t, SetT): z = set_has(right.z, left.z)
                elif isinstance(t, ListT):
                    i = fresh_int("in"); z = z3.Exists([i], z3.And(0 <= i, i < t.len(right.z), t.at(right.z, i) == left.z))
                else: raise Unsupported(f"`in` on {t!r}")
                res.append(z if o == "In" else z3.Not(z))
            elif isinstance(left.t, NoneT) or isinstance(right.t, NoneT):
                # None is modelled as the only value of its type; values of every other declared type are never None
                same = isinstance(left.t, NoneT) and isinstance(right.t, NoneT)
                res.append(z3.BoolVal(same if o in ("Is", "Eq") else not same))
            elif o in ("Is", "IsNot") and not (isinstance(left.t, BoolT) and isinstance(right.t, BoolT)):
                # object identity of two non-singleton values is not a function of the values: `a is b` implies a == b, and nothing more is known
                # (CPython may or may not share equal immutable objects); modelled as a fresh boolean, so a branch on it must be right either way
                if type(left.t) is not type(right.t): raise Unsupported(f"`is` on {left.t!r},{right.t!r}")
                same = fresh(BOOL, "same_object").z; pc.append(z3.Implies(same, left.z == right.z))
                res.append(same if o == "Is" else z3.Not(same))
            else:
                az, bz = left.z, right.z
                if isinstance(left.t, IntT) and isinstance(right.t, RealT): az = z3.ToReal(az)
                if isinstance(left.t, RealT) and isinstance(right.t, IntT): bz = z3.ToReal(bz)
                res.append(CMP[o](az, bz))
            left = right
        return Val(BOOL, zand(res))
    def e_IfExp(self, n, st, pc):
        c = self.expr(n.test, st, pc)
        a = self.expr(n.body, st, pc + [c.z]); b = self.expr(n.orelse, st, pc + [z3.Not(c.z)])
        az, bz = a.z, b.z
        if isinstance(a.t, IntT) and isinstance(b.t, RealT): az = z3.ToReal(az); a = Val(REAL, az)
        if isinstance(a.t, RealT) and isinstance(b.t, IntT): bz = z3.ToReal(bz)
        return Val(a.t, z3.If(c.z, az, bz))
    def e_Tuple(self, n, st, pc):
        els = [self.expr(e, st, pc) for e in n.elts]
        if len(els) == 2:
            t = PairT(els[0].t, els[1].t); return Val(t, t.mk(els[0].z, els[1].z))
        raise Unsupported("tuple literal of length != 2")
    def e_Set(self, n, st, pc):
        els = [self.expr(e, st, pc) for e in n.elts]
        t = SetT(els[0].t); z = z3.K(els[0].t.sort(), z3.BoolVal(False))
        for e in els: z = z3.Store(z, e.z, True)
        return Val(t, z, meta={"elems": els})
    def e_List(self, n, st, pc):
        els = [self.expr(e, st, pc) for e in n.elts]
        if not els: raise Unsupported("empty list literal needs a declared type")
        t = ListT(els[0].t); arr = z3.Const(f"lit!{uid()}", z3.ArraySort(z3.IntSort(), els[0].t.sort()))
        for k, e in enumerate(els): arr = z3.Store(arr, k, e.z)
        return Val(t, t.make(z3.IntVal(len(els)), arr))

    def e_ListComp(self, n, st, pc):
        """[elt for x in seq]  (one generator, no filter): out[q] == elt(seq[q]) for every q; the element expression must not raise"""
        if len(n.generators) != 1 or n.generators[0].ifs or n.generators[0].is_async: raise Unsupported(f"comprehension with filters / several generators at line {n.lineno}")
        g = n.generators[0]
        seq = self.expr(g.iter, st, pc)
        if isinstance(seq.t, DictT): seq = self.keyseq(seq, pc)          # iterating a dict visits its keys (order unspecified)
        if not isinstance(seq.t, ListT): raise Unsupported(f"comprehension over {seq.t!r}")
        q = fresh_int("cq"); rng = z3.And(0 <= q, q < seq.t.len(seq.z))
        s2 = st.copy(); self.assign(g.target, Val(seq.t.elem, seq.t.at(seq.z, q)), s2, [])
        pcq = list(pc) + [rng]; base = len(pcq); saved = self.pending_exc; self.pending_exc = []
        try: v = self.expr(n.elt, s2, pcq)
        finally: mine = self.pending_exc; self.pending_exc = saved
        for epc, exc, node in mine:
            self.oblige(f"safe.comprehension({exc})@{getattr(node, 'lineno', n.lineno)}", "safe.comprehension", list(pc), z3.ForAll([q], z3.Implies(z3.And(rng, *epc[base:-1]), z3.Not(epc[-1]))), node)
        extra = [c for c in pcq[base:] if not any(c.eq(z3.Not(e[0][-1])) for e in mine)]
        if extra: raise Unsupported(f"comprehension element introduces side conditions (line {n.lineno})")
        out = fresh(ListT(v.t), "comp")
        pc.append(out.t.len(out.z) == seq.t.len(seq.z)); pc.extend(wf(out))
        pc.append(z3.ForAll([q], z3.Implies(rng, out.t.at(out.z, q) == v.z), patterns=[out.t.at(out.z, q)]))
        if id(n) in self.comp_ids: st.env[f"COMP{self.comp_ids[id(n)]}"] = out        # contracts may name the value of the k-th comprehension of the function (ast.walk order)
        return out

    # ------------------------------------------------------------------ calls
    def e_Call(self, n, st, pc):
        f = n.func
        if isinstance(f, ast.Name):
            nm = f.id
            if self.mode == "spec" or nm in ("len",):
                r = self.spec_call(nm, n, st, pc)
                if r is not None: return r
            if nm in ("list", "tuple") and len(n.args) == 1:
                a = self.expr(n.args[0], st, pc)
                if isinstance(a.t, ListT):
                    if not a.t.tagged and nm == "tuple" and isinstance(a.t.elem, IntT):      # a tuple of ints built from a plain list: the tagged (list/tuple) representation
                        tt = ListT(INT, tagged=True); return Val(tt, tt.make(a.t.len(a.z), a.t.arr(a.z), kind=z3.BoolVal(True)))
                    return Val(a.t, a.t.make(a.t.len(a.z), a.t.arr(a.z), kind=z3.BoolVal(nm == "tuple"))) if a.t.tagged else a
                raise Unsupported(f"{nm}() of {a.t!r}")
            if nm == "iter" and len(n.args) == 1: return self.expr(n.args[0], st, pc)
            if nm == "sum" and len(n.args) == 1:
                a = self.expr(n.args[0], st, pc)
                if isinstance(a.t, ListT) and isinstance(a.t.elem, (IntT, RealT)):
                    f = z3.Function("list_sum_" + ("int" if isinstance(a.t.elem, IntT) else "real"), a.t.sort(), a.t.elem.sort())
                    self.assumptions.add("sum(xs) of a list of numbers is a function of the list (left opaque: only its value's identity is used)"); return Val(a.t.elem, f(a.z))
            if nm in ("min", "max") and len(n.args) == 2 and not n.keywords:
                a, b = self.expr(n.args[0], st, pc), self.expr(n.args[1], st, pc)
                if isinstance(a.t, (IntT, RealT)) and isinstance(b.t, (IntT, RealT)):
                    real = isinstance(a.t, RealT) or isinstance(b.t, RealT); az, bz = (to_real(a), to_real(b)) if real else (a.z, b.z)
                    return Val(REAL if real else INT, z3.If((az <= bz) if nm == "min" else (az >= bz), az, bz))
            if nm == "abs" and len(n.args) == 1:
                a = self.expr(n.args[0], st, pc)
                if isinstance(a.t, (IntT, RealT)): return Val(a.t, z3.If(a.z >= 0, a.z, -a.z))
            if nm == "float" and len(n.args) == 1:
                a = self.expr(n.args[0], st, pc)
                if isinstance(a.t, (IntT, RealT)): return Val(REAL, to_real(a))
            if nm == "int" and len(n.args) == 1:
                a = self.expr(n.args[0], st, pc)
                if isinstance(a.t, IntT): return a
            if nm == "set" and len(n.args) == 1 and isinstance(n.args[0], ast.List):
                return self.e_Set(ast.Set(elts=n.args[0].elts), st, pc)
            if nm == "set" and len(n.args) == 1:
                a = self.expr(n.args[0], st, pc)
                if isinstance(a.t, ListT) and not a.t.elem.mutable:              # set(xs): the members of the list
                    x = z3.Const(f"sx!{uid()}", a.t.elem.sort()); i = fresh_int("si")
                    return Val(SetT(a.t.elem), z3.Lambda([x], z3.Exists([i], z3.And(0 <= i, i < a.t.len(a.z), a.t.at(a.z, i) == x))))
                if isinstance(a.t, SetT): return a
            if nm == "range" and len(n.args) == 3:
                lo, hi, stp = [self.expr(x, st, pc).z for x in n.args]
                if self.mode != "spec":
                    # the model below (element q = lo + q*step, opaque length) is used for POSITIVE steps only; a step that the path condition does not force to be >= 1
                    # (a count-down range, say) leaves the subset
                    chk = z3.Solver(); chk.set("timeout", 2000); chk.add(*[c for c in pc if not z3.is_quantifier(c)]); chk.add(stp < 1)
                    if chk.check() != z3.unsat: raise Unsupported("range(lo, hi, step) with a step not known to be positive")
                opq = getattr(self.spec, "opaque_arith", False) == "all"; rname = "py_range3_opaque" if opq else "py_range3"
                LI = ListT(INT); RF = z3.Function(rname, z3.IntSort(), z3.IntSort(), z3.IntSort(), LI.sort())
                if rname not in self.th.funcs:      # range(lo, hi, step): the q-th element is lo + q*step; its length is left as an opaque non-negative function of the three bounds
                    self.th.funcs[rname] = RF; l_, h_, s_, q_ = z3.Ints("r3l_ r3h_ r3s_ r3q_")
                    prod = z3.Function("int_mul", z3.IntSort(), z3.IntSort(), z3.IntSort())(q_, s_) if opq else q_ * s_
                    self.th.axioms.append(z3.ForAll([l_, h_, s_], LI.len(RF(l_, h_, s_)) >= 0, patterns=[RF(l_, h_, s_)]))
                    self.th.axioms.append(z3.ForAll([l_, h_, s_, q_], LI.at(RF(l_, h_, s_), q_) == l_ + prod, patterns=[LI.at(RF(l_, h_, s_), q_)]))
                self.assumptions.add("range(lo, hi, step): element q is lo + q*step; len(range(lo, hi, step)) is used as an opaque non-negative function of its arguments")
                return Val(LI, RF(lo, hi, stp))
            if nm == "range" and len(n.args) in (1, 2):
                a = [self.expr(x, st, pc).z for x in n.args]; lo, hi = (z3.IntVal(0), a[0]) if len(a) == 1 else (a[0], a[1])
                LI = ListT(INT); RF = z3.Function("py_range", z3.IntSort(), z3.IntSort(), LI.sort())
                if "py_range" not in self.th.funcs:          # range(lo, hi) as a total function of its bounds: no side conditions, usable inside comprehensions
                    self.th.funcs["py_range"] = RF; l_, h_, q_ = z3.Ints("rl_ rh_ rq_")
                    self.th.axioms.append(z3.ForAll([l_, h_], LI.len(RF(l_, h_)) == z3.If(h_ > l_, h_ - l_, 0), patterns=[RF(l_, h_)]))
                    self.th.axioms.append(z3.ForAll([l_, h_, q_], LI.at(RF(l_, h_), q_) == l_ + q_, patterns=[LI.at(RF(l_, h_), q_)]))
                return Val(LI, RF(lo, hi), meta={"range": (lo, hi)})
            if self.reg.has_cls(nm):
                q, owner = self.reg.resolve_method(nm, "__init__")
                if q is None: raise Unsupported(f"constructor of {nm} has no contract")
                return self.call_contract(q, None, n, st, pc, ctor=nm, owner=owner)
            if self.reg.has_fn(nm): return self.call_contract(nm, None, n, st, pc)
            raise Unsupported(f"call of {nm}")
        if isinstance(f, ast.Attribute):
            # Class.static(...)
            if isinstance(f.value, ast.Name) and self.reg.has_fn(f"{f.value.id}.{f.attr}") and f.value.id not in st.env:
                return self.call_contract(f"{f.value.id}.{f.attr}", None, n, st, pc)
            if isinstance(f.value, ast.Call) and isinstance(f.value.func, ast.Name) and f.value.func.id == "super" and not f.value.args and self.cls:
                # super().m(...): the method as the first declared base class (transitively) defines it, applied to self through its contract
                for b in getattr(self.reg.cls(self.cls), "bases", []) or []:
                    q, owner = self.reg.resolve_method(b, f.attr)
                    if q is not None: return self.call_contract(q, ("self", [], st.env["self"]), n, st, pc, owner=owner)
                raise Unsupported(f"super().{f.attr}: no base class of {self.cls} under contract defines it")
            try:
                root, steps = self.path_of(f.value, st, pc); recv = self.read_path(st, root, steps)
            except Unsupported:
                root, steps = None, None; recv = self.expr(f.value, st, pc)
            if isinstance(recv.t, RecT):
                q, owner = self.reg.resolve_method(recv.t.name, f.attr)
                if q is not None: return self.call_contract(q, (root, steps, recv), n, st, pc, owner=owner)
            h = self.reg.methods.get((recv.t.name if isinstance(recv.t, RecT) else type(recv.t).__name__, f.attr))
            if h is None: raise Unsupported(f"method .{f.attr} on {recv.t!r}")
            args = [self.expr(a, st, pc) for a in n.args]
            return h(self, recv, args, st, root, steps, pc, n)
        raise Unsupported("call form")

    def call_contract(self, qual, recv, n, st, pc, ctor=None, owner=None):
        """modular call: assert requires, havoc frame, assume ensures; exceptional exits per callee's raises"""
        _, cs = self.reg.fn(qual)
        cdef = self.reg.find_def(self.reg.fn(qual)[0].relpath, qual)
        pnames = [a.arg for a in cdef.args.args if a.arg != "self"]
        args = [self.expr(a, st, pc) for a in n.args]
        if n.keywords: raise Unsupported(f"keyword arguments in a modular call of {qual}")
        callee = State()
        if ctor:
            ct = self.reg.cls(ctor).ty; selfv = fresh(ct, "new_" + ctor); callee.env["self"] = selfv
        elif recv is not None:
            callee.env["self"] = recv[2]
        for p, a in zip(pnames, args): callee.env[p] = a
        for g in cs.ghost:
            src = self.spec.call_ghosts.get(qual, {}).get(g)
            callee.env[g] = self.spec_expr(src, st, pc) if src else fresh(cs.params[g], g)
        if recv is not None and not ctor and recv[0] == "self" and not recv[1] and st.undef:
            need = set(st.undef) - set(getattr(cs, "assigns", []) or [])
            need &= set(self.reg.cls(owner).fields) if owner and self.reg.has_cls(owner) else need
            if need: self.oblige(f"safe.defined({','.join(sorted(need))})@call.{qual}@{n.lineno}", "safe.defined", pc, z3.BoolVal(False), n)
            st.undef -= set(getattr(cs, "assigns", []) or [])
        pre = callee.copy(); pre.old = None
        if not ctor:
            for nm, e in cs.requires.items():
                self.oblige(f"requires@call.{qual}.{nm}@{n.lineno}", "requires@call", pc, self.spec_expr(e, pre, pc).z, n)
        post = callee.copy(); post.old = pre
        # frame: self (if any) and mutable args may change unless the callee is pure
        changed = []
        if not cs.pure:
            if recv is not None and not ctor:
                post.env["self"] = fresh(recv[2].t, "self_after"); changed.append("self")
                if owner is not None and owner != recv[2].t.name and self.reg.has_cls(owner):
                    # inherited method: fields the defining class does not declare are outside its frame (A-INHERIT)
                    for fld in recv[2].t.fs:
                        if fld not in self.reg.cls(owner).fields: pc.append(recv[2].t.getf(post.env["self"].z, fld) == recv[2].t.getf(recv[2].z, fld))
                    self.assumptions.add("A-INHERIT: a method inherited from a base class modifies only fields the base class declares")
        res = fresh(cs.ret, "ret") if cs.ret is not None else Val(NONE, z3.BoolVal(True))
        post.env["result"] = res
        for nm_, t_ in getattr(cs, "exports", {}).items():       # exported callee locals: some value exists for which the clauses hold (the callee's own exit state is the witness)
            post.env[nm_] = fresh(t_, nm_ + "_exported"); pc.extend(wf(post.env[nm_])); st.env[f"{nm_}_of_{qual.split('.')[-1]}"] = post.env[nm_]
        for v in [post.env.get("self"), res]:
            if isinstance(v, Val): pc.extend(wf(v))
        # exceptional exits
        for exc, rs in cs.raises.items():
            cond = self.spec_expr(rs["when"], pre, pc).z
            self.pending_exc.append((list(pc) + [cond], exc, n))
            if rs.get("only", True): pc.append(z3.Not(cond))
        for nm, e in cs.ensures.items():
            try: pc.append(self.spec_expr(e, post, pc).z)
            except Unsupported as ex_:
                if "unknown name" not in str(ex_): raise
                self.assumptions.add(f"clause {qual}:{nm} mentions the callee's locals and is not exported to callers (nothing is assumed from it)")
        if "self" in changed and recv[0] is not None: self.write_path(st, recv[0], recv[1], post.env["self"])
        if ctor: return post.env["self"]
        self.assumptions.add(f"modular call: {qual} used through its contract")
        if not hasattr(self.th, "callees"): self.th.callees = {}
        self.th.callees.setdefault(self.qual, set()).add(qual)      # who relies on whose contract (a caller's failed obligation is not a verdict while the callee itself is undecided)
        return res

    # ------------------------------------------------------------------ spec forms
    def spec_expr(self, src, st, pc):
        saved = self.mode; self.mode = "spec"
        try: return self.expr(ast.parse(src, mode="eval").body, st, list(pc))
        finally: self.mode = saved

    def bind_q(self, st, var, val):
        # a nested quantifier that re-binds the name of an enclosing one silently captures it (a contract-writing error that made a wrong clause provable once)
        if var in st.qbound: raise ContractError(f"{self.qual}: bound variable `{var}` is re-bound by a nested quantifier (capture)")
        s2 = st.copy(); s2.env[var] = val; s2.qbound = st.qbound | {var}
        if st.old is not None: s2.old = st.old.copy(); s2.old.env[var] = val
        return s2

    def spec_call(self, nm, n, st, pc):
        if nm == "len":
            a = self.expr(n.args[0], st, pc)
            if isinstance(a.t, ListT): return Val(INT, a.t.len(a.z))
            if isinstance(a.t, DictT):      # number of keys: an (opaque, non-negative) function of the key set
                f = z3.Function(f"card_{abs(hash(repr(a.t.k))) % 10**6}", z3.ArraySort(a.t.k.sort(), z3.BoolSort()), z3.IntSort()); c = f(a.t.dom(a.z)); pc.append(c >= 0); return Val(INT, c)
            raise Unsupported(f"len of {a.t!r}")
        if nm == "old":
            if st.old is None: raise Unsupported("old() without a pre-state")
            return self.expr(n.args[0], st.old, pc)
        if nm == "implies":
            a = self.expr(n.args[0], st, pc)
            if z3.is_false(z3.simplify(a.z)): return Val(BOOL, z3.BoolVal(True))       # short-circuit: the consequent may mention names that exist only when the antecedent holds
            b = self.expr(n.args[1], st, pc + [a.z]); return Val(BOOL, z3.Implies(a.z, b.z))
        if nm in ("forall", "exists") and self.th.B is None and isinstance(n.args[3], ast.Call) and isinstance(n.args[3].func, ast.Name) and n.args[3].func.id == nm:
            # directly nested quantifiers of the same kind become ONE multi-variable quantifier, so that E-matching can use a multi-pattern
            chain = []; cur = n
            while isinstance(cur, ast.Call) and isinstance(cur.func, ast.Name) and cur.func.id == nm and len(cur.args) == 4:
                chain.append(cur); cur = cur.args[3]
            s2 = st; bound = []; rngs = []; trig_src = []
            for q in chain:
                lo = self.expr(q.args[1], s2, pc).z; hi = self.expr(q.args[2], s2, pc).z
                i = fresh_int(q.args[0].id); bound.append(i); rngs.append(z3.And(lo <= i, i < hi)); s2 = self.bind_q(s2, q.args[0].id, Val(INT, i))
                trig_src += [k.value for k in q.keywords if k.arg == "trigger"]
            body = self.expr(cur, s2, pc).z
            trigs = [self.expr(t, s2, pc).z for t in trig_src]
            pats = [z3.MultiPattern(*trigs) if len(trigs) > 1 else trigs[0]] if trigs else None      # the triggers of the chain together form one multi-pattern
            return Val(BOOL, quant(nm, bound, z3.Implies(z3.And(*rngs), body) if nm == "forall" else z3.And(*rngs, body), pats))
        if nm in ("forall", "exists"):
            var = n.args[0].id; lo = self.expr(n.args[1], st, pc).z; hi = self.expr(n.args[2], st, pc).z
            i = fresh_int(var); sq = self.bind_q(st, var, Val(INT, i)); body = self.expr(n.args[3], sq, pc).z
            rng = z3.And(lo <= i, i < hi)
            trig = [self.expr(k.value, sq, pc).z for k in n.keywords if k.arg == "trigger"]
            if trig and self.th.B is None:          # explicit E-matching trigger: forall(j, lo, hi, body, trigger=xs[j])
                return Val(BOOL, quant(nm, [i], z3.Implies(rng, body) if nm == "forall" else z3.And(rng, body), trig))
            if self.th.B is not None:
                self.th.side.append(z3.And(lo >= -1, hi <= self.th.B + 1))
                insts = [z3.substitute(z3.Implies(rng, body) if nm == "forall" else z3.And(rng, body), (i, z3.IntVal(k))) for k in range(-1, self.th.B + 1)]
                return Val(BOOL, z3.And(*insts) if nm == "forall" else z3.Or(*insts))
            return Val(BOOL, z3.ForAll([i], z3.Implies(rng, body)) if nm == "forall" else z3.Exists([i], z3.And(rng, body)))
        if nm in ("forall_elem", "exists_elem"):
            var = n.args[0].id; t = self.reg.types[n.args[1].id]
            x = z3.Const(f"{var}!{uid()}", t.sort()); body = self.expr(n.args[2], self.bind_q(st, var, Val(t, x)), pc).z
            return Val(BOOL, z3.ForAll([x], body) if nm == "forall_elem" else z3.Exists([x], body))
        if nm == "inv":
            o = self.expr(n.args[0], st, pc); cs = self.reg.cls(o.t.name)
            s2 = st.copy(); s2.env["self"] = o
            return Val(BOOL, zand([self.expr(ast.parse(e, mode="eval").body, s2, pc).z for e in cs.inv.values()]))
        if nm == "keyset_eq":
            a = self.expr(n.args[0], st, pc); b = self.expr(n.args[1], st, pc)
            return Val(BOOL, a.t.dom(a.z) == b.t.dom(b.z))
        if nm == "is_tuple":
            a = self.expr(n.args[0], st, pc); return Val(BOOL, a.t.kind(a.z))
        if nm in self.reg.native_specfuns:
            return self.reg.native_specfuns[nm]["smt"](self, *[self.expr(a, st, pc) for a in n.args])
        if nm in self.reg.specfuns:
            return self.apply_specfun(self.reg.specfuns[nm], [self.expr(a, st, pc) for a in n.args])
        return None

    def apply_specfun(self, sf, args):
        th = self.th
        if th.B is not None and sf.rec is not None:       # counter-model mode: bounded unrolling
            return self.unroll(sf, args, th.B + 1)
        if sf.name not in th.funcs: self.declare_specfun(sf)
        if sf.define is not None and sf.name not in th.funcs:
            pass
        return Val(sf.ret, th.funcs[sf.name](*[a.z for a in args]))

    def declare_specfun(self, sf):
        th = self.th
        f = z3.Function(sf.name, *[t.sort() for _, t in sf.params], sf.ret.sort()); th.funcs[sf.name] = f
        bound = [z3.Const(f"{p}_", t.sort()) for p, t in sf.params]
        st = State(); st.env = {p: Val(t, b) for (p, t), b in zip(sf.params, bound)}
        app = f(*bound)
        mine = []
        if sf.define is not None:
            mine.append(z3.ForAll(bound, app == self.spec_expr(sf.define, st, []).z, patterns=[app]))
        else:
            n = bound[-1]
            mine.append(z3.ForAll(bound, z3.Implies(n <= 0, app == self.spec_expr(sf.base, st, []).z), patterns=[app]))
            mine.append(z3.ForAll(bound, z3.Implies(n > 0, app == self.spec_expr(sf.rec, st, []).z), patterns=[app]))
        th.sf_axioms[sf.name] = mine; th.axioms += mine; th.owned |= {id(a) for a in mine}
        deps = set()
        for a in mine: deps |= symbols_of(a)
        th.sf_deps[sf.name] = deps - {sf.name}

    def unroll(self, sf, args, depth):
        names = [p for p, _ in sf.params]; n = args[-1].z
        self.th.side.append(n <= self.th.B)
        def go(nz, d):
            st = State(); st.env = {p: a for p, a in zip(names[:-1], args[:-1])}; st.env[names[-1]] = Val(INT, nz)
            base = self.spec_expr(sf.base, st, []).z
            if d == 0: return base
            saved = self.reg.specfuns[sf.name]
            # evaluate rec with the recursive call f(.., n-1) replaced by the unrolled value
            inner = go(nz - 1, d - 1)
            self._unroll_stub = (sf.name, inner)
            try:
                rec = self._spec_with_stub(sf.rec, st, sf.name, inner).z
            finally:
                self._unroll_stub = None
            return z3.If(nz <= 0, base, rec)
        return Val(sf.ret, go(n, depth))

    def _spec_with_stub(self, src, st, fname, inner):
        tree = ast.parse(src, mode="eval").body
        class R(ast.NodeTransformer):
            def visit_Call(s, node):
                s.generic_visit(node)
                if isinstance(node.func, ast.Name) and node.func.id == fname: return ast.Name(id="__rec__", ctx=ast.Load())
                return node
        tree = R().visit(tree); ast.fix_missing_locations(tree)
        s2 = st.copy(); s2.env["__rec__"] = Val(self.reg.specfuns[fname].ret, inner)
        saved = self.mode; self.mode = "spec"
        try: return self.expr(tree, s2, [])
        finally: self.mode = saved

    # ================================================================== statements
    def block(self, stmts, st, pc):
        outs = [Outcome("normal", st, list(pc))]
        for s in stmts:
            nxt = []
            for o in outs:
                if o.kind != "normal": nxt.append(o)
                else: nxt.extend(self.stmt(s, o.state, o.pc))
            outs = nxt
        return outs

    def stmt(self, s, st, pc):
        m = getattr(self, "s_" + type(s).__name__, None)
        if m is None: raise Unsupported(f"statement {type(s).__name__} at line {s.lineno}")
        saved = self.pending_exc; self.pending_exc = []
        pre = st.copy()
        outs = None
        for hook in self.reg.stmt_hooks:
            if hook(self, s, st, pc): outs = [Outcome("normal", st, pc)]; break
        if outs is None: outs = m(s, st, pc)
        for epc, exc, node in self.pending_exc: outs.append(Outcome("raise", pre.copy(), epc, exc=exc))
        self.pending_exc = saved
        return outs

    def s_Pass(self, s, st, pc): return [Outcome("normal", st, pc)]
    def s_Delete(self, s, st, pc):
        """del xs[i] on a list: the elements after i move down by one (IndexError when i is out of range; negative indices not modelled)"""
        for tgt in s.targets:
            if not isinstance(tgt, ast.Subscript): raise Unsupported("del of a non-subscript")
            root, steps = self.path_of(tgt.value, st, pc); cont = self.read_path(st, root, steps); idx = self.expr(tgt.slice, st, pc)
            if not isinstance(cont.t, ListT): raise Unsupported(f"del on {cont.t!r}")
            t = cont.t; ln = t.len(cont.z); q = z3.Int(f"dq!{uid()}")
            self.branch_exc(pc, z3.Not(z3.And(idx.z >= 0, idx.z < ln)), "IndexError", s)
            arr = z3.Lambda([q], z3.If(q < idx.z, z3.Select(t.arr(cont.z), q), z3.Select(t.arr(cont.z), q + 1)))
            self.write_path(st, root, steps, Val(t, t.make(ln - 1, arr, like=cont.z)))
        return [Outcome("normal", st, pc)]
    def s_FunctionDef(self, s, st, pc):
        st.env[s.name] = Val(NONE, z3.BoolVal(True), meta={"closure": s.name}); return [Outcome("normal", st, pc)]
    def s_Expr(self, s, st, pc):
        if isinstance(s.value, ast.Constant): return [Outcome("normal", st, pc)]
        if isinstance(s.value, ast.Yield):
            v = self.expr(s.value.value, st, pc); y = st.env["YIELDED"]; t = y.t
            st.env["YIELDED"] = Val(t, t.make(t.len(y.z) + 1, z3.Store(t.arr(y.z), t.len(y.z), v.z), like=y.z))
            return [Outcome("normal", st, pc)]
        if self.is_dropped(s.value): return [Outcome("normal", st, pc)]
        self.expr(s.value, st, pc); return [Outcome("normal", st, pc)]
    def is_dropped(self, e):
        # A-LOG: logging calls have no effect on program state (their arguments are not evaluated by the executor)
        return isinstance(e, ast.Call) and ast.unparse(e.func).startswith(("self._logger.", "logger.", "logging.", "log."))
    def s_Return(self, s, st, pc):
        v = self.expr(s.value, st, pc) if s.value is not None else Val(NONE, z3.BoolVal(True))
        return [Outcome("return", st, pc, value=v)]
    def s_Raise(self, s, st, pc):
        e = s.exc
        exc = e.func.id if isinstance(e, ast.Call) and isinstance(e.func, ast.Name) else (e.id if isinstance(e, ast.Name) else "TypeError")
        return [Outcome("raise", st, pc, exc=exc)]
    def s_AnnAssign(self, s, st, pc):
        if s.value is None: return [Outcome("normal", st, pc)]
        return self.s_Assign(ast.Assign(targets=[s.target], value=s.value, lineno=s.lineno), st, pc)
    def s_Assign(self, s, st, pc):
        tgt0 = s.targets[0]
        v = self.rhs(s.value, tgt0, st, pc)
        for tgt in s.targets: self.assign(tgt, v, st, pc, src=s.value)
        return [Outcome("normal", st, pc)]
    def rhs(self, node, tgt, st, pc):
        if (isinstance(node, ast.Dict) and not node.keys) or (isinstance(node, ast.List) and not node.elts):
            t = self.declared_type(tgt, st)
            if isinstance(t, RecT) and hasattr(t, "empty"):          # parameter dictionary modelled as a record (vf.idioms.params_record)
                v, cons = t.empty(); pc.extend(cons); return v
            return empty(t)
        return self.expr(node, st, pc)
    def declared_type(self, tgt, st):
        if isinstance(tgt, ast.Attribute):
            root, steps = self.path_of(tgt, st, [])
            return self.read_path(st, root, steps).t
        if isinstance(tgt, ast.Name):
            t = self.spec.locals.get(tgt.id)
            if t is None: raise Unsupported(f"local {tgt.id} initialised empty needs a declared type")
            return t
        raise Unsupported("declared type of target")
    def assign(self, tgt, v, st, pc, src=None):
        if isinstance(tgt, ast.Name):
            # alias rule: a name bound to a mutable sub-object of another variable is a reference to it
            if src is not None and isinstance(v, Val) and v.t.mutable and isinstance(src, (ast.Subscript, ast.Attribute)) and self.mode == "code":
                try:
                    root, steps = self.path_of(src, st, [])
                    st.env[tgt.id] = Ref(root, steps); return
                except Unsupported: pass
            st.env[tgt.id] = v; return
        if isinstance(tgt, ast.Tuple):
            if isinstance(v.t, PairT) and len(tgt.elts) == 2:
                self.assign(tgt.elts[0], Val(v.t.a, v.t.fst(v.z)), st, pc); self.assign(tgt.elts[1], Val(v.t.b, v.t.snd(v.z)), st, pc); return
            if isinstance(v.t, ListT):
                kk = len(tgt.elts); self.branch_exc(pc, v.t.len(v.z) != kk, "ValueError", tgt)
                for i_, e_ in enumerate(tgt.elts): self.assign(e_, Val(v.t.elem, v.t.at(v.z, i_)), st, pc)
                return
            raise Unsupported("tuple unpacking")
        if isinstance(tgt, ast.Attribute):
            root, steps = self.path_of(tgt, st, pc)
            if isinstance(v.t, NoneT) and not isinstance(self.read_path(st, root, steps).t, NoneT):
                # `self.f = None` for a field of another declared type: a placeholder, the field counts as not yet assigned
                if root == "self" and len(steps) == 1: st.undef.add(steps[0][1]); return
                raise Unsupported("None stored into a typed location")
            if root == "self" and len(steps) == 1: st.undef.discard(steps[0][1])
            self.write_path(st, root, steps, v); return
        if isinstance(tgt, ast.Subscript):
            root, steps = self.path_of(tgt.value, st, pc)
            cont = self.read_path(st, root, steps); idx = self.expr(tgt.slice, st, pc)
            if isinstance(cont.t, ListT) and isinstance(tgt.slice, ast.UnaryOp) and isinstance(tgt.slice.op, ast.USub) and isinstance(tgt.slice.operand, ast.Constant):
                idx = Val(INT, cont.t.len(cont.z) - tgt.slice.operand.value)
            if isinstance(cont.t, ListT):
                self.branch_exc(pc, z3.Not(z3.And(idx.z >= 0, idx.z < cont.t.len(cont.z))), "IndexError", tgt)
            self.write_path(st, root, steps + [("index", idx)], v); return
        raise Unsupported("assignment target")
    def s_AugAssign(self, s, st, pc):
        load = copy.deepcopy(s.target)
        for x in ast.walk(load):
            if hasattr(x, "ctx"): x.ctx = ast.Load()
        v = self.expr(ast.BinOp(left=load, op=s.op, right=s.value, lineno=s.lineno), st, pc)
        self.assign(s.target, v, st, pc); return [Outcome("normal", st, pc)]
    def s_If(self, s, st, pc):
        c = self.expr(s.test, st, pc); cz = z3.simplify(c.z) if isinstance(c.t, BoolT) else c.z
        if isinstance(c.t, IntT): cz = c.z != 0
        outs = []
        if not z3.is_false(cz): outs += self.block(s.body, st.copy(), pc + [cz])          # a branch whose guard is literally False is dead code
        if not z3.is_true(cz):
            outs += self.block(s.orelse, st.copy(), pc + [z3.Not(cz)]) if s.orelse else [Outcome("normal", st.copy(), pc + [z3.Not(cz)])]
        return outs
    def s_Try(self, s, st, pc):
        outs = []
        for o in self.block(s.body, st, pc):
            if o.kind != "raise": outs.append(o); continue
            for h in s.handlers:
                names = [h.type.id] if isinstance(h.type, ast.Name) else ([e.id for e in h.type.elts] if isinstance(h.type, ast.Tuple) else [ast.unparse(h.type).split(".")[-1]] if h.type is not None else [o.exc])
                if o.exc in names or h.type is None or "Exception" in names:
                    outs.extend(self.block(h.body, o.state, o.pc)); break
            else: outs.append(o)
        return outs

    # ------------------------------------------------------------------ loops
    def assigned_roots(self, body):
        """names whose value may change in `body`: rebound names, and roots mutated in place (directly or through an alias
        created inside the body: x = a[i] / x = o.f / x = y followed by x.append(..), x[i] = .., x.f = ..)"""
        rebound, mutated, alias = set(), set(), {}
        def root(e):
            while isinstance(e, (ast.Attribute, ast.Subscript)): e = e.value
            return e.id if isinstance(e, ast.Name) else None
        for n in ast.walk(ast.Module(body=list(body), type_ignores=[])):
            tg = []
            if isinstance(n, ast.Assign): tg = n.targets
            elif isinstance(n, (ast.AugAssign, ast.AnnAssign)): tg = [n.target]
            elif isinstance(n, ast.For): tg = [n.target]
            elif isinstance(n, ast.Delete): tg = n.targets
            elif isinstance(n, ast.Call) and isinstance(n.func, ast.Attribute) and n.func.attr not in self.reg.pure_methods:
                r = root(n.func.value)
                if r: mutated.add(r)
            for t in tg:
                for e in (t.elts if isinstance(t, ast.Tuple) else [t]):
                    r = root(e)
                    if r is None: continue
                    (rebound if isinstance(e, ast.Name) else mutated).add(r)
            if isinstance(n, (ast.Assign, ast.AnnAssign)) and getattr(n, "value", None) is not None and isinstance(n.value, (ast.Subscript, ast.Attribute, ast.Name)):
                r = root(n.value)
                if r:
                    for t in (n.targets if isinstance(n, ast.Assign) else [n.target]):
                        if isinstance(t, ast.Name): alias.setdefault(t.id, set()).add(r)
            if isinstance(n, ast.For):
                # the loop variable may be a reference to an element of whatever is iterated: mutating it mutates that container (conservatively: every name in the header)
                srcs = {x.id for x in ast.walk(n.iter) if isinstance(x, ast.Name)}
                for t in ast.walk(n.target):
                    if isinstance(t, ast.Name): alias.setdefault(t.id, set()).update(srcs)
        changed = True
        while changed:
            changed = False
            for x in list(mutated):
                for r in alias.get(x, ()):
                    if r not in mutated: mutated.add(r); changed = True
        return rebound | mutated
    def resolve_roots(self, st, names):
        out = set()
        for nm in names:
            v = st.env.get(nm)
            out.add(v.root if isinstance(v, Ref) else nm)
        return out
    def havoc(self, st, names):
        cons = []
        for nm in names:
            v = st.env.get(nm)
            if isinstance(v, Val):
                st.env[nm] = fresh(v.t, nm); cons += wf(st.env[nm])
        return cons

    def s_For(self, s, st, pc):
        k = self.loop_ids[id(s)]
        lspec = self.spec.loops.get(k)
        if lspec is None: raise ContractDrift(f"{self.qual}: loop {k} (line {s.lineno}) has no invariant in the sidecar")
        if lspec.get("iterates") and ast.unparse(s.iter).replace(" ", "") != lspec["iterates"].replace(" ", ""):
            # the invariants of this loop presuppose WHICH sequence is visited in WHICH order (e.g. `c == cover[IT]`); another iterated expression cannot be bound to them
            raise ContractDrift(f"{self.qual}: loop {k} iterates `{ast.unparse(s.iter)}`, the contract was written for `{lspec['iterates']}`")
        for hook in self.reg.loop_hooks:
            r = hook(self, s, st, pc, k, lspec)
            if r is not None: return r
        it = s.iter
        if isinstance(it, ast.Call) and isinstance(it.func, ast.Name) and it.func.id == "range":
            if len(it.args) not in (1, 2) or it.keywords: raise Unsupported("for over range(lo, hi, step)")      # (a step was silently ignored here once: found by an independently written edit)
            a = [self.expr(x, st, pc).z for x in it.args]
            lo, hi = (z3.IntVal(0), a[0]) if len(a) == 1 else (a[0], a[1])
            def bind(state, g): self.assign(s.target, Val(INT, g["IT"]), state, [])
        elif isinstance(it, ast.Call) and isinstance(it.func, ast.Name) and it.func.id == "enumerate":
            root, steps = self.path_of(it.args[0], st, pc); seq = self.read_path(st, root, steps)
            if isinstance(seq.t, DictT):
                ks = self.keyseq(seq, pc); st.env["KEYS"] = ks          # enumerate(d): the keys in the dict's (unspecified) iteration order
                lo, hi = z3.IntVal(0), ks.t.len(ks.z)
                def bind(state, g):
                    self.assign(s.target.elts[0], Val(INT, g["IT"]), state, [])
                    self.assign(s.target.elts[1], Val(ks.t.elem, ks.t.at(ks.z, g["IT"])), state, [])
            else:
              lo, hi = z3.IntVal(0), seq.t.len(seq.z)
              def bind(state, g):
                self.assign(s.target.elts[0], Val(INT, g["IT"]), state, [])
                self.bind_item(state, s.target.elts[1], root, steps, seq, g["IT"])
        elif isinstance(it, ast.Call) and isinstance(it.func, ast.Name) and it.func.id == "zip":
            seqs = [self.expr(a, st, pc) for a in it.args]
            lo = z3.IntVal(0); hi = seqs[0].t.len(seqs[0].z)
            for q in seqs[1:]: hi = z3.If(q.t.len(q.z) < hi, q.t.len(q.z), hi)
            def bind(state, g):
                for tg, q in zip(s.target.elts, seqs): self.assign(tg, Val(q.t.elem, q.t.at(q.z, g["IT"])), state, [])
        elif isinstance(it, (ast.Name, ast.Attribute)) and isinstance(self.expr(it, st, list(pc)).t, DictT):
            return self.for_dict(s, st, pc, k, lspec, it, "keys")
        elif isinstance(it, ast.Call) and isinstance(it.func, ast.Attribute) and it.func.attr in ("keys", "items", "values") and not it.args \
                and isinstance(self.expr(it.func.value, st, list(pc)).t, DictT):
            return self.for_dict(s, st, pc, k, lspec, it.func.value, it.func.attr)
        elif isinstance(it, ast.Call) and isinstance(it.func, ast.Name) and it.func.id == "reversed" and len(it.args) == 1:
            seq = self.expr(it.args[0], st, pc)
            if not isinstance(seq.t, ListT) or seq.t.elem.mutable: raise Unsupported("reversed() of " + ast.unparse(it.args[0]))
            lo, hi = z3.IntVal(0), seq.t.len(seq.z)                   # the IT-th iteration visits xs[len - 1 - IT]
            def bind(state, g): self.assign(s.target, Val(seq.t.elem, seq.t.at(seq.z, seq.t.len(seq.z) - 1 - g["IT"])), state, [])
        elif isinstance(it, (ast.Name, ast.Attribute)):
            root, steps = self.path_of(it, st, pc); seq = self.read_path(st, root, steps)
            if isinstance(seq.t, SetT):
                # iteration over a set: a ghost duplicate-free enumeration ELEMS of exactly its members, in an unspecified order (invariants may name ELEMS)
                es = self.elemseq(seq, pc, st); st.env["ELEMS"] = es; lo, hi = z3.IntVal(0), es.t.len(es.z)
                def bind(state, g): self.assign(s.target, Val(es.t.elem, es.t.at(es.z, g["IT"])), state, [])
                top = z3.If(hi > lo, hi, lo)
                return self.loop_generic(s, st, pc, k, lspec, {"IT": lo}, lambda g: g["IT"] < hi, bind, lambda g: {"IT": g["IT"] + 1}, lambda g: [lo <= g["IT"], g["IT"] <= top])
            if not isinstance(seq.t, ListT): raise Unsupported(f"for over {seq.t!r}")
            lo, hi = z3.IntVal(0), seq.t.len(seq.z)
            def bind(state, g): self.bind_item(state, s.target, root, steps, seq, g["IT"])
        else:
            seq = self.expr(it, st, pc)
            if not isinstance(seq.t, ListT): raise Unsupported("for over " + ast.unparse(it))
            st.env["SEQ"] = seq                                      # invariants may name the (once evaluated) sequence a loop iterates over
            lo, hi = z3.IntVal(0), seq.t.len(seq.z)
            def bind(state, g): self.assign(s.target, Val(seq.t.elem, seq.t.at(seq.z, g["IT"])), state, [])
        top = z3.If(hi > lo, hi, lo)
        return self.loop_generic(s, st, pc, k, lspec, {"IT": lo}, lambda g: g["IT"] < hi, bind,
                                 lambda g: {"IT": g["IT"] + 1}, lambda g: [lo <= g["IT"], g["IT"] <= top])
    def s_While(self, s, st, pc):
        k = self.loop_ids[id(s)]; lspec = self.spec.loops.get(k)
        if lspec is None: raise ContractDrift(f"{self.qual}: loop {k} (line {s.lineno}) has no invariant in the sidecar")
        if s.orelse: raise Unsupported("while/else")
        test = s.test
        def guard_state(state, pcx):
            c = self.expr(test, state, pcx)
            if isinstance(c.t, IntT): return c.z != 0
            return c.z
        return self.loop_generic(s, st, pc, k, lspec, {"IT": z3.IntVal(0)}, None, lambda state, g: None,
                                 lambda g: {"IT": g["IT"] + 1}, lambda g: [g["IT"] >= 0], guard_state=guard_state)
    def s_Break(self, s, st, pc): return [Outcome("break", st, pc)]
    def s_Continue(self, s, st, pc): return [Outcome("continue", st, pc)]

    def elemseq(self, sv, pc, st=None):
        """ghost duplicate-free enumeration ELEMS of a set's members (iteration order is left unspecified); ELEMIDX[x] = the position of member x"""
        t = sv.t; es = fresh(ListT(t.elem), "ELEMS"); i = fresh_int("i"); xq = z3.Const(f"xq!{uid()}", t.elem.sort())
        L = es.t.len(es.z); it = ArrT(t.elem, INT); idx = fresh(it, "ELEMIDX")
        pc.append(L >= 0)
        pc.append(z3.ForAll([i], z3.Implies(z3.And(0 <= i, i < L), z3.And(set_has(sv.z, es.t.at(es.z, i)), z3.Select(idx.z, es.t.at(es.z, i)) == i)), patterns=[es.t.at(es.z, i)]))
        pc.append(z3.ForAll([xq], z3.Implies(set_has(sv.z, xq), z3.And(0 <= z3.Select(idx.z, xq), z3.Select(idx.z, xq) < L, es.t.at(es.z, z3.Select(idx.z, xq)) == xq)), patterns=[z3.Select(idx.z, xq)]))
        self.assumptions.add("iterating a set visits every member exactly once, in an unspecified order")
        if st is not None: st.env["ELEMIDX"] = idx
        return es
    def keyseq(self, d, pc):
        """ghost duplicate-free enumeration of a dict's keys (iteration order is left unspecified)"""
        t = d.t; ks = fresh(ListT(t.k), "KEYS"); i, j = fresh_int("i"), fresh_int("j"); kq = z3.Const(f"kq!{uid()}", t.k.sort())
        L = ks.t.len(ks.z)
        pc.append(L >= 0)
        pc.append(z3.ForAll([i], z3.Implies(z3.And(0 <= i, i < L), z3.Select(t.dom(d.z), ks.t.at(ks.z, i)))))
        pc.append(z3.ForAll([i, j], z3.Implies(z3.And(0 <= i, i < j, j < L), ks.t.at(ks.z, i) != ks.t.at(ks.z, j))))
        idx = z3.Function(f"keyidx!{uid()}", t.k.sort(), z3.IntSort())
        pc.append(z3.ForAll([kq], z3.Implies(z3.Select(t.dom(d.z), kq), z3.And(0 <= idx(kq), idx(kq) < L, ks.t.at(ks.z, idx(kq)) == kq))))
        self.assumptions.add("iterating a dict visits every key exactly once, in an unspecified order")
        return ks
    def for_dict(self, s, st, pc, k, lspec, dnode, what):
        root, steps = self.path_of(dnode, st, pc); d0 = self.read_path(st, root, steps)
        ks = self.keyseq(d0, pc); st.env["KEYS"] = ks; st.env["DICT0"] = d0
        lo, hi = z3.IntVal(0), ks.t.len(ks.z)
        def bind(state, g):
            key = Val(d0.t.k, ks.t.at(ks.z, g["IT"]))
            if what == "keys": self.assign(s.target, key, state, [])
            else:
                cur = self.read_path(state, root, steps); v = Val(d0.t.v, z3.Select(d0.t.val(cur.z), key.z))
                if what == "values": self.assign(s.target, v, state, [])
                else:
                    self.assign(s.target.elts[0], key, state, []); self.assign(s.target.elts[1], v, state, [])
        # the key set must not change while iterating: stated as an implicit invariant that the body has to preserve
        lspec = dict(lspec); inv = dict(lspec["inv"])
        inv["dict_iter.keys_unchanged"] = "keyset_eq(" + ast.unparse(dnode) + ", DICT0)"
        lspec["inv"] = inv
        return self.loop_generic(s, st, pc, k, lspec, {"IT": lo}, lambda g: g["IT"] < hi, bind, lambda g: {"IT": g["IT"] + 1},
                                 lambda g: [lo <= g["IT"], g["IT"] <= hi])

    def bind_item(self, state, tgt, root, steps, seq, i):
        if seq.t.elem.mutable: state.env[tgt.id] = Ref(root, steps + [("index", Val(INT, i))])
        else: self.assign(tgt, Val(seq.t.elem, seq.t.at(seq.z, i)), state, [])

    def loop_generic(self, s, st, pc, k, lspec, ghosts0, guard, bind, advance, implicit, guard_state=None):
        for nm, e in lspec.get("snap", {}).items(): st.env[nm] = self.spec_expr(e, st, [])
        mods = self.assigned_roots([s]) if isinstance(s, ast.For) else self.assigned_roots(s.body)      # the For node itself: its target aliases what it iterates
        for g in lspec.get("ghost_end", []): mods |= self.assigned_roots(ast.parse(g).body)
        mods = self.resolve_roots(st, mods)
        def invs(state, g):
            s2 = state.copy()
            for nm, z in g.items(): s2.env[nm] = Val(INT, z)
            return [(nm, self.spec_expr(e, s2, []).z) for nm, e in lspec["inv"].items()]
        for nm, z in invs(st, ghosts0): self.oblige(f"loop{k}.entry.{nm}", "inv.entry", pc, z, s)
        # ---- arbitrary iteration
        st_h = st.copy(); wf_h = self.havoc(st_h, mods)
        g = {nm: fresh_int(f"{nm}{k}") for nm in ghosts0}
        head = invs(st_h, g); head_id = {z.get_id(): nm for nm, z in head}; uses = lspec.get("uses", {})
        def relevant(nm, hyps):
            """`uses`: {conjunct: [conjuncts it needs at the loop head]} -- the preservation of that conjunct is proved from those only (dropping hypotheses is sound; it
            keeps quantified conjuncts that feed each other's triggers out of queries that do not need them)"""
            if nm not in uses: return hyps
            allowed = set(uses[nm]) | {nm}
            return [h for h in hyps if head_id.get(h.get_id(), nm) in allowed]
        pc_h = list(pc) + wf_h + implicit(g) + [z for _, z in head]
        pc_h.append(guard(g) if guard_state is None else guard_state(st_h, pc_h))
        self.oblige(f"loop{k}.canary", "canary", pc_h, z3.BoolVal(False), s)
        st_b = st_h.copy(); bind(st_b, g)
        for nm, z in g.items(): st_b.env[nm] = Val(INT, z)
        for nm, e in lspec.get("head_snap", {}).items(): st_b.env[nm] = self.spec_expr(e, st_b, [])
        for nm, e in lspec.get("hints", {}).items():
            hz = self.spec_expr(e, st_b, []).z
            self.oblige(f"loop{k}.hint.{nm}", "hint", pc_h, hz, s); pc_h = pc_h + [hz]
        outs = []
        for o in self.block(s.body, st_b, pc_h):
            if o.kind in ("normal", "continue"):
                for gs in lspec.get("ghost_end", []):
                    saved = self.mode; self.mode = "spec"
                    try:
                        for stmt_ in ast.parse(gs).body: self.s_Assign(stmt_, o.state, o.pc)
                    finally: self.mode = saved
                pco = list(o.pc)
                s3 = o.state.copy()
                for nm_, z_ in g.items(): s3.env[nm_] = Val(INT, z_)
                for nm, e in lspec.get("end_hints", {}).items():
                    hz = self.spec_expr(e, s3, []).z
                    self.oblige(f"loop{k}.end_hint.{nm}", "hint", pco, hz, s); pco.append(hz)
                for nm, z in invs(o.state, advance(g)): self.oblige(f"loop{k}.preserve.{nm}", "inv.preserve", relevant(nm, pco), z, s)
            elif o.kind == "break": outs.append(Outcome("normal", o.state, o.pc))
            else: outs.append(o)
        # ---- exit
        st_e = st.copy(); wf_e = self.havoc(st_e, mods)
        ge = {nm: fresh_int(f"{nm}x{k}") for nm in ghosts0}
        pc_e = list(pc) + wf_e + implicit(ge) + [z for _, z in invs(st_e, ge)]
        for nm, z in ge.items(): st_e.env[nm + "_exit"] = Val(INT, z)
        for nm, e in lspec.get("exit_snap", {}).items(): st_e.env[nm] = self.spec_expr(e, st_e, [])      # ghost snapshot of the state in which the loop is left
        gz = z3.Not(guard(ge)) if guard_state is None else z3.Not(guard_state(st_e, pc_e))
        if not z3.is_false(z3.simplify(gz)):
            outs.append(Outcome("normal", st_e, pc_e + [gz]))
        return outs

    # ================================================================== driver
    def run(self):
        st = State(); spec = self.spec
        is_init = self.fn.name == "__init__"
        for a in self.fn.args.args:
            if a.arg == "self":
                ct = self.reg.cls(self.cls).ty; st.env["self"] = fresh(ct, "self")
                if is_init: st.undef = set(ct.fs)
                elif getattr(spec, "assigns", None): st.undef = set(spec.assigns)
            else:
                if a.arg not in spec.params: raise ContractDrift(f"{self.qual}: parameter {a.arg} not in the sidecar contract")
                st.env[a.arg] = fresh(spec.params[a.arg], a.arg)
        for g in spec.ghost: st.env[g] = fresh(spec.params[g], g)
        if any(isinstance(x, (ast.Yield, ast.YieldFrom)) for x in ast.walk(self.fn)): st.env["YIELDED"] = empty(spec.ret)
        pc = []
        for v in st.env.values():
            if isinstance(v, Val): pc += wf(v)
        st.old = st.copy(); self.entry = st.old
        for nm, e in spec.requires.items(): pc.append(self.spec_expr(e, st, []).z)
        self.oblige("canary.requires", "canary", pc, z3.BoolVal(False), self.fn)
        self.pending_exc = []
        outs = self.block(self.fn.body, st, pc)
        for pi, o in enumerate(outs):
            if o.kind in ("normal", "return"):
                s2 = o.state.copy(); s2.env["result"] = o.value if o.value is not None else Val(NONE, z3.BoolVal(True))
                if "YIELDED" in o.state.env: s2.env["result"] = o.state.env["YIELDED"]      # a generator (also when left by a bare `return`): callers see the list of yielded values
                if (is_init or getattr(spec, "assigns", None)) and o.state.undef:
                    self.oblige(f"path{pi}.init.all_fields_assigned({','.join(sorted(o.state.undef))})", "safe.defined", o.pc, z3.BoolVal(False), self.fn)
                pcx = list(o.pc)
                for nm, e in spec.exit_hints.items():
                    hz = self.spec_expr(e, s2, []).z
                    self.oblige(f"path{pi}.exit_hint.{nm}", "hint", pcx, hz, self.fn); pcx.append(hz)
                for nm, e in spec.ensures.items():
                    self.oblige(f"path{pi}.ensures.{nm}", "ensures", pcx, self.spec_expr(e, s2, []).z, self.fn)
            elif o.kind == "raise":
                rs = spec.raises.get(o.exc)
                if rs is None: self.oblige(f"path{pi}.raises.unexpected({o.exc})", "raises", o.pc, z3.BoolVal(False), self.fn)
                else:
                    self.oblige(f"path{pi}.raises.{o.exc}.when", "raises", o.pc, self.spec_expr(rs["when"], st.old, []).z, self.fn)
                    for nm, e in rs.get("ensures", {}).items():
                        self.oblige(f"path{pi}.raises.{o.exc}.{nm}", "raises", o.pc, self.spec_expr(e, o.state, []).z, self.fn)
        return self.obligations
