"""vf2 run-time interpretation of contract clauses on concrete Python values + contract wrapper + RNG chooser."""
import ast, copy, inspect, itertools
class ContractViolation(Exception):
    def __init__(self, clause, kind, detail=""): super().__init__(f"{kind}:{clause} {detail}"); self.clause, self.kind, self.detail = clause, kind, detail
class NotEvaluable(Exception): pass

class Evaluator:
    def __init__(self, reg, universes=None): self.reg = reg; self.uni = universes or {}; self._cache = {}
    def parse(self, src):
        if src not in self._cache: self._cache[src] = ast.parse(src, mode="eval").body
        return self._cache[src]
    def ev(self, src, env, old=None): return self.e(self.parse(src), env, old)
    def e(self, n, env, old): return getattr(self, "e_" + type(n).__name__)(n, env, old)
    def e_Constant(self, n, env, old): return n.value
    def e_Name(self, n, env, old):
        if n.id in env: return env[n.id]
        raise NotEvaluable(n.id)
    def e_Attribute(self, n, env, old): return getattr(self.e(n.value, env, old), n.attr)
    def e_Subscript(self, n, env, old): return self.e(n.value, env, old)[self.e(n.slice, env, old)]
    def e_Tuple(self, n, env, old): return tuple(self.e(x, env, old) for x in n.elts)
    def e_UnaryOp(self, n, env, old):
        v = self.e(n.operand, env, old); return (not v) if isinstance(n.op, ast.Not) else (-v if isinstance(n.op, ast.USub) else v)
    def e_BinOp(self, n, env, old):
        import operator as o
        return {ast.Add: o.add, ast.Sub: o.sub, ast.Mult: o.mul, ast.Div: o.truediv, ast.FloorDiv: o.floordiv, ast.Mod: o.mod}[type(n.op)](self.e(n.left, env, old), self.e(n.right, env, old))
    def e_BoolOp(self, n, env, old):
        if isinstance(n.op, ast.And): return all(self.e(v, env, old) for v in n.values)
        return any(self.e(v, env, old) for v in n.values)
    def e_IfExp(self, n, env, old): return self.e(n.body, env, old) if self.e(n.test, env, old) else self.e(n.orelse, env, old)
    def e_Compare(self, n, env, old):
        import operator as o
        left = self.e(n.left, env, old)
        for op, rn in zip(n.ops, n.comparators):
            right = self.e(rn, env, old)
            if isinstance(op, (ast.Eq, ast.NotEq)):
                r = self.struct_eq(left, right)
                if (not r) if isinstance(op, ast.Eq) else r: return False
                left = right; continue
            f = {ast.Eq: o.eq, ast.NotEq: o.ne, ast.Lt: o.lt, ast.LtE: o.le, ast.Gt: o.gt, ast.GtE: o.ge, ast.In: lambda a, b: a in b, ast.NotIn: lambda a, b: a not in b}[type(op)]
            if not f(left, right): return False
            left = right
        return True
    def struct_eq(self, a, b):
        """equality as the prover sees it: records of classes under contract are compared field by field"""
        for cls in (type(a).__mro__ if hasattr(type(a), "__mro__") else ()):
            if self.reg.has_cls(cls.__name__) and isinstance(b, cls):
                return all(self.struct_eq(getattr(a, f, None), getattr(b, f, None)) for f in self.reg.cls(cls.__name__).fields)
        if isinstance(a, (list, tuple)) and isinstance(b, (list, tuple)) and type(a) is type(b):
            return len(a) == len(b) and all(self.struct_eq(x, y) for x, y in zip(a, b))
        return a == b
    def bind(self, env, old, var, val):
        e2 = dict(env); e2[var] = val; o2 = None
        if old is not None: o2 = dict(old); o2[var] = val
        return e2, o2
    def e_Call(self, n, env, old):
        f = n.func.id; A = n.args
        if f == "len": return len(self.e(A[0], env, old))
        if f == "old":
            if old is None: raise NotEvaluable("old")
            return self.e(A[0], old, old)
        if f == "implies": return (not self.e(A[0], env, old)) or self.e(A[1], env, old)
        if f in ("forall", "exists"):
            lo, hi = self.e(A[1], env, old), self.e(A[2], env, old)
            gen = (self.e(A[3], *self.bind(env, old, A[0].id, i)) for i in range(lo, hi))
            return all(gen) if f == "forall" else any(gen)
        if f in ("forall_elem", "exists_elem"):
            dom = self.uni[A[1].id](env, old) if callable(self.uni.get(A[1].id)) else self.uni[A[1].id]
            gen = (self.e(A[2], *self.bind(env, old, A[0].id, x)) for x in dom)
            return all(gen) if f == "forall_elem" else any(gen)
        if f == "inv":
            obj = self.e(A[0], env, old); cs = self.reg.cls(type(obj).__name__)
            return all(self.ev(src, {**env, "self": obj}, old) for src in cs.inv.values())
        if f == "is_tuple": return isinstance(self.e(A[0], env, old), tuple)
        if f == "keyset_eq": return set(self.e(A[0], env, old)) == set(self.e(A[1], env, old))
        if f in self.reg.native_specfuns:
            rt = self.reg.native_specfuns[f].get("rt")
            if rt is None: raise NotEvaluable(f)
            return rt(*[self.e(a, env, old) for a in A])
        if f in self.reg.specfuns:
            sf = self.reg.specfuns[f]; args = [self.e(a, env, old) for a in A]
            return self.specfun(sf, args)
        raise NotEvaluable(f)
    def specfun(self, sf, args):
        names = [p for p, _ in sf.params]
        if sf.define is not None: return self.ev(sf.define, dict(zip(names, args)))
        n = args[-1]; acc = self.ev(sf.base, dict(zip(names, args[:-1] + [0])))
        for k in range(1, n + 1):          # iterative evaluation of the primitive recursion
            env = dict(zip(names, args[:-1] + [k])); env["__rec__"] = acc
            tree = self.parse(sf.rec)
            acc = self.e(_stub(tree, sf.name), env, None)
        return acc
def _stub(tree, fname):
    class R(ast.NodeTransformer):
        def visit_Call(self, node):
            self.generic_visit(node)
            return ast.Name(id="__rec__", ctx=ast.Load()) if isinstance(node.func, ast.Name) and node.func.id == fname else node
    return ast.fix_missing_locations(R().visit(copy.deepcopy(tree)))

def checked(reg, qual, real, universes=None, ghost=None, stats=None):
    """wrap a real function/method with its sidecar contract (requires / ensures / raises)"""
    _, spec = reg.fn(qual); E = Evaluator(reg, universes); params = [p for p in inspect.signature(real).parameters]
    def wrapper(*args):
        env = dict(zip(params, args)); env.update(ghost(env) if ghost else {})
        for nm, src in spec.requires.items():
            if not E.ev(src, env): raise ContractViolation(f"{qual}:requires.{nm}", "precondition", repr(args[1:] if params and params[0] == "self" else args))
        old = copy.deepcopy(env)
        try: res = real(*args)
        except Exception as ex:
            rs = spec.raises.get(type(ex).__name__)
            if rs is None: raise ContractViolation(f"{qual}:raises.unexpected({type(ex).__name__})", "raises", repr(ex))
            if not E.ev(rs["when"], old, old): raise ContractViolation(f"{qual}:raises.{type(ex).__name__}.when", "raises")
            raise
        env2 = {**env, "result": res}
        for nm, src in spec.ensures.items():
            try: okc = E.ev(src, env2, old)
            except NotEvaluable as ne:
                if stats is not None: stats.setdefault("not_evaluable", set()).add(f"{nm} ({ne})")
                continue
            if stats is not None: stats["clauses_evaluated"] = stats.get("clauses_evaluated", 0) + 1
            if not okc: raise ContractViolation(f"{qual}:ensures.{nm}", "postcondition", f"in={old!r} out={res!r}")
        return res
    return wrapper

class Chooser:
    """systematic enumeration of RNG outcomes (DFS over choice points)"""
    def __init__(self): self.script = []; self.arity = []; self.pos = 0
    def pick(self, n):
        if n <= 0: raise ValueError("empty range")
        if self.pos == len(self.script): self.script.append(0); self.arity.append(n)
        self.arity[self.pos] = n; c = self.script[self.pos]; self.pos += 1; return c
    def advance(self):
        self.script = self.script[:self.pos]; self.arity = self.arity[:self.pos]
        while self.script and self.script[-1] + 1 >= self.arity[-1]: self.script.pop(); self.arity.pop()
        if not self.script: return False
        self.script[-1] += 1; self.pos = 0; return True
    def reset(self): self.pos = 0
