"""vf2 library contracts (assumed semantics of builtins / random / ...), symbolic side."""
import ast
import z3
from .types import *
from .sym import Unsupported

def install(reg):
    M = reg.methods
    # ------------------------------------------------------------ list
    def list_append(ex, recv, args, st, root, steps, pc, n):
        t = recv.t; ln = t.len(recv.z)
        ex.write_path(st, root, steps, Val(t, t.make(ln + 1, z3.Store(t.arr(recv.z), ln, args[0].z), like=recv.z))); return Val(NONE, z3.BoolVal(True))
    def list_pop(ex, recv, args, st, root, steps, pc, n):
        if args: raise Unsupported("list.pop(i)")
        t = recv.t; ln = t.len(recv.z)
        ex.branch_exc(pc, ln == 0, "IndexError", n)
        ex.write_path(st, root, steps, Val(t, t.make(ln - 1, t.arr(recv.z), like=recv.z))); return Val(t.elem, t.at(recv.z, ln - 1))
    def list_extend(ex, recv, args, st, root, steps, pc, n):
        t = recv.t; ln = t.len(recv.z); o = args[0]; n2 = o.t.len(o.z); q = fresh_int("q")
        na = z3.Const(f"ext!{uid()}", t.arr(recv.z).sort())
        pc.append(z3.ForAll([q], z3.Select(na, q) == z3.If(z3.And(q >= ln, q < ln + n2), o.t.at(o.z, q - ln), t.at(recv.z, q))))
        ex.write_path(st, root, steps, Val(t, t.make(ln + n2, na, like=recv.z))); return Val(NONE, z3.BoolVal(True))
    M[("ListT", "append")] = list_append; M[("ListT", "pop")] = list_pop; M[("ListT", "extend")] = list_extend
    # ------------------------------------------------------------ dict
    def dict_pop(ex, recv, args, st, root, steps, pc, n):
        t = recv.t; k = args[0].z
        ex.branch_exc(pc, z3.Not(z3.Select(t.dom(recv.z), k)), "KeyError", n)
        ex.write_path(st, root, steps, Val(t, t.mk(z3.Store(t.dom(recv.z), k, False), t.val(recv.z)))); return Val(t.v, z3.Select(t.val(recv.z), k))
    def dict_get(ex, recv, args, st, root, steps, pc, n):
        t = recv.t; k = args[0].z; d = args[1]
        dz = z3.ToReal(d.z) if isinstance(t.v, RealT) and isinstance(d.t, IntT) else d.z
        return Val(t.v, z3.If(z3.Select(t.dom(recv.z), k), z3.Select(t.val(recv.z), k), dz))
    M[("DictT", "pop")] = dict_pop; M[("DictT", "get")] = dict_get
    def set_issubset(ex, recv, args, st, root, steps, pc, n):
        els = (recv.meta or {}).get("elems")
        if els is None: raise Unsupported("issubset on a non-literal set")
        return Val(BOOL, z3.And(*[z3.Select(args[0].z, e.z) for e in els]))
    M[("SetT", "issubset")] = set_issubset
    # ------------------------------------------------------------ random (every outcome in the support is admissible)
    def random_hook(ex, node, st, pc):
        if not (isinstance(node, ast.Call) and isinstance(node.func, ast.Attribute) and isinstance(node.func.value, ast.Name) and node.func.value.id == "random"): return None
        meth = node.func.attr; r = z3.Int(f"rng!{len(ex.rng_log)}!{uid()}")
        if meth == "choice":
            a = ex.expr(node.args[0], st, pc)
            ex.branch_exc(pc, a.t.len(a.z) == 0, "IndexError", node); pc.append(z3.And(0 <= r, r < a.t.len(a.z)))
            ex.rng_log.append(("choice", r)); ex.assumptions.add("random.choice(seq) returns seq[r] for an arbitrary 0 <= r < len(seq)")
            return Val(a.t.elem, a.t.at(a.z, r))
        if meth == "randrange":
            lo, hi = [ex.expr(a, st, pc).z for a in node.args]
            ex.branch_exc(pc, lo >= hi, "ValueError", node); pc.append(z3.And(lo <= r, r < hi))
            ex.rng_log.append(("randrange", r)); ex.assumptions.add("random.randrange(a, b) returns an arbitrary a <= r < b")
            return Val(INT, r)
        if meth == "random":
            x = z3.Real(f"rngf!{len(ex.rng_log)}!{uid()}"); pc.append(z3.And(0 <= x, x < 1))
            ex.rng_log.append(("random", x)); ex.assumptions.add("random.random() returns an arbitrary 0 <= r < 1"); st.env["RANDOM_DRAW"] = Val(REAL, x)
            return Val(REAL, x)
        return None
    reg.call_hooks.append(random_hook)
