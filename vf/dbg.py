"""developer tool: python -m vf.dbg <module> <obligation substring>  -- times one obligation under each back end"""
import sys, importlib, time, itertools
import z3
import vf.types as T
from vf.spec import Registry
from vf import lib, idioms
from vf.sym import FnExec, Theory
from vf.driver import prove_lemmas
from vf.solve import _z3, _cvc5, Z3_CONFIGS
if __name__ == "__main__":
    modname, pat = sys.argv[1], sys.argv[2]; repo = sys.argv[3] if len(sys.argv) > 3 else "/repo"
    import os; T._fresh = itertools.count(int(os.environ.get("VF_OFFSET", "0")))
    reg = Registry(repo); lib.install(reg); idioms.install(reg)
    quals = importlib.import_module(f"contracts.{modname}").build(reg); th = Theory(reg)
    if reg.lemmas: prove_lemmas(reg, th, lambda: FnExec(reg, quals[0], th))
    for q in quals:
        if not any(True for _ in [0]): continue
        try: obs = FnExec(reg, q, th).run()
        except Exception as e: print("skip", q, e); continue
        for o in obs:
            if pat in o.name:
                smt = o.smt2(); print(o.name, len(smt), "bytes")
                for nm, cfg in Z3_CONFIGS:
                    t = time.time(); r = _z3(smt, cfg, 400_000_000, 120000); print(f"   {nm:16s} {r:8s} {time.time() - t:6.1f}s", flush=True)
                t = time.time(); r = _cvc5(smt, 120000); print(f"   {'cvc5':16s} {r:8s} {time.time() - t:6.1f}s", flush=True)
