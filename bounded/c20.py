"""C20 bounded stand-in / replay harness: every history of <= L operations over a 3-element universe, every draw outcome;
the real DrawSet is compared with a plain set after every step and its representation invariant (I1, I2 of the contract) re-checked."""
import itertools, sys
from bounded.common import *
import gcmpy.tools.draw_set as ds

U = [(0, 1), (1, 2), (0, 2)]
OPS = [("add", i) for i in range(3)] + [("remove", i) for i in range(3)] + [("draw", None), ("contains", 1), ("len", None), ("iter", None)]
BOUND = {"quick": "histories of <= 5 operations over a 3-element universe, all draw outcomes", "thorough": "histories of <= 6 operations over a 3-element universe, all draw outcomes"}
RULE = "every sequence of add/remove/draw/contains/len/iter up to the bound; non-trivial = contains at least one remove or draw on a non-empty set"
EXHAUSTIVE = True
BUDGET_S = {"quick": 60, "thorough": 900}

def cases(tier, rnd):
    L = 5 if tier == "quick" else 6
    for n in range(1, L + 1):
        for hist in itertools.product(range(len(OPS)), repeat=n): yield {"history": [list(OPS[i]) for i in hist]}

def nontrivial(case):
    size = 0; nt = False
    for op, x in case["history"]:
        if op == "add": size = min(3, size + 1)
        if op in ("remove", "draw") and size > 0: nt = True
    return nt

def inv(d):
    es, hm = d._edges, d._edge_hashmap
    if len(es) != len(hm): return "len(_edges) != len(_edge_hashmap)"
    for i, e in enumerate(es):
        if e not in hm or hm[e] != i: return f"I1 fails at {i}"
    for e, i in hm.items():
        if not (0 <= i < len(es)) or es[i] != e: return f"I2 fails at {e}"
    return None

def check(case):
    out = []
    def one(ch):
        # every way of drawing an index is scripted (the statement does not say HOW a member is drawn): random.choice and random.randrange / randint enumerate their outcomes
        saved = (ds.random.choice, ds.random.randrange, ds.random.randint)
        def set_rng(pick):
            ds.random.choice = lambda seq: seq[pick(len(seq))]
            def rr(a, b=None, step=1):
                lo, hi = (0, a) if b is None else (a, b)
                if hi <= lo: raise ValueError("empty range for randrange()")
                return lo + pick(hi - lo)
            ds.random.randrange = rr; ds.random.randint = lambda a, b: rr(a, b + 1)
        set_rng(ch.pick)
        try:
            d = guarded("DrawSet.__init__", ds.DrawSet); model = set(); drawn_possible = None
            for op, x in case["history"]:
                e = tuple(list(U[x])) if x is not None else None      # a freshly built equal key, never the stored object itself (callers pass tuple(sorted(edge)))
                if op == "add":
                    before = list(d._edges); guarded("DrawSet.add", d.add, e)
                    if e in model and list(d._edges) != before: raise Violation("DrawSet.add.noop_if_present", f"add({e}) of a present element changed the member list")
                    model.add(e)
                elif op == "remove":
                    snap = (list(d._edges), dict(d._edge_hashmap))
                    try:
                        d.remove(e)
                        if e not in model: raise Violation("DrawSet.remove.raises_when_absent", f"remove({e}) of an absent element did not raise")
                        model.discard(e)
                    except KeyError:
                        if e in model: raise Violation("DrawSet.remove.raises.unexpected(KeyError)", f"remove({e}) of a member raised KeyError")
                        if (list(d._edges), dict(d._edge_hashmap)) != snap: raise Violation("DrawSet.remove.raises.KeyError.state_unchanged", f"remove({e}) of an absent element corrupted the structure: {snap} -> {(d._edges, d._edge_hashmap)}")
                    except Violation: raise
                    except Exception as ex: raise Violation(f"DrawSet.remove.raises.unexpected({type(ex).__name__})", repr(ex))
                elif op == "draw":
                    if model:
                        r = guarded("DrawSet.draw", d.draw)
                        if r not in model: raise Violation("DrawSet.draw.member", f"draw() returned {r}, not a member of {model}")
                    else:
                        try: d.draw(); raise Violation("DrawSet.draw.raises_when_empty", "draw() on an empty set returned")
                        except Violation: raise
                        except Exception: pass      # which exception an empty set raises is not part of the statement
                elif op == "contains":
                    if guarded("DrawSet.__contains__", lambda: e in d) != (e in model): raise Violation("DrawSet.__contains__.member", f"{e} in d disagrees with the model {model}")
                elif op == "len":
                    if guarded("DrawSet.__len__", len, d) != len(model): raise Violation("DrawSet.__len__.len", f"len {len(d)} vs model {len(model)}")
                elif op == "iter":
                    it = guarded("DrawSet.__iter__", lambda: list(iter(d)))
                    if sorted(it) != sorted(model): raise Violation("DrawSet.__iter__.each_member_once", f"iteration {it} vs model {sorted(model)}")
                bad = inv(d)
                if bad: raise Violation(f"DrawSet.{op}.inv", bad)
                if set(d._edge_hashmap) != model: raise Violation(f"DrawSet.{op}.view", f"members {set(d._edge_hashmap)} vs model {model}")
            # every member can be drawn: enumerate the outcomes of one more draw
            if model:
                got = set()
                for k in range(len(d._edges)):
                    set_rng(lambda n, k=k: k % n)
                    got.add(d.draw())
                if got != model: raise Violation("DrawSet.draw.every_member_drawable", f"drawable {got} vs model {model}")
        finally: ds.random.choice, ds.random.randrange, ds.random.randint = saved
    for script, _ in all_scripts(one): pass
    return out
FUNCTION_OF = {"DrawSet": None}
if __name__ == "__main__": main(sys.modules[__name__])
