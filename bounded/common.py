"""Shared plumbing of the bounded stand-ins (run-time contracts on the real functions over a stated bounded input space).
Every module exposes  cases(tier, seed) -> iterable of JSON-able cases  and  check(case) -> list of (clause, detail) violations,
and calls main(__name__-module).  The same check(case) is the replay harness:  python -m bounded.cXX --repo R --replay file.json
A stand-in never counts as proof; it reports evaluations, how many were distinct and non-trivial, the bound, and samples."""
import argparse, json, os, random, sys, time, traceback, itertools

class Chooser:
    """systematic enumeration of RNG outcomes (DFS over choice points); pick(n) returns 0..n-1"""
    def __init__(self, script=None): self.script = list(script or []); self.arity = [None] * len(self.script); self.pos = 0; self.fixed = script is not None
    def pick(self, n):
        if n <= 0: raise IndexError("empty range")
        if self.pos == len(self.script): self.script.append(0); self.arity.append(n)
        self.arity[self.pos] = n; c = self.script[self.pos] % n; self.pos += 1; return c
    def advance(self):
        self.script = self.script[:self.pos]; self.arity = self.arity[:self.pos]
        while self.script and self.script[-1] + 1 >= self.arity[-1]: self.script.pop(); self.arity.pop()
        if not self.script: return False
        self.script[-1] += 1; self.pos = 0; return True
    def reset(self): self.pos = 0

class ScriptedRandom:
    """replaces the `random` functions a module uses by outcomes taken from a Chooser (every outcome in the support is reachable)"""
    def __init__(self, ch): self.ch = ch
    def choice(self, seq):
        seq = list(seq) if not hasattr(seq, "__getitem__") else seq
        return seq[self.ch.pick(len(seq))]
    def randrange(self, a, b=None):
        if b is None: a, b = 0, a
        return a + self.ch.pick(b - a)
    def shuffle(self, xs):
        # Fisher-Yates driven by the chooser: every permutation reachable exactly once
        for i in range(len(xs) - 1, 0, -1):
            j = self.ch.pick(i + 1); xs[i], xs[j] = xs[j], xs[i]
    def random(self):
        # three representative outcomes: exactly 0.0, 0.5, just below 1
        return (0.0, 0.5, 1.0 - 2 ** -53)[self.ch.pick(3)]

def all_scripts(run, cap=None):
    """run(chooser) for every RNG resolution (DFS); yields (script, result). cap limits the number of resolutions."""
    ch = Chooser(); n = 0
    while True:
        ch.reset(); r = run(ch); yield list(ch.script[:ch.pos]), r; n += 1
        if cap is not None and n >= cap: return
        if not ch.advance(): return

def untuple(x):
    if isinstance(x, dict):
        if set(x) == {"__tuple__"}: return tuple(untuple(v) for v in x["__tuple__"])
        return {k: untuple(v) for k, v in x.items()}
    if isinstance(x, list): return [untuple(v) for v in x]
    return x
def jsonable(x):
    if isinstance(x, dict): return {str(k): jsonable(v) for k, v in x.items()}
    if isinstance(x, tuple): return {"__tuple__": [jsonable(v) for v in x]}
    if isinstance(x, (list, set, frozenset)): return [jsonable(v) for v in (sorted(x, key=repr) if isinstance(x, (set, frozenset)) else x)]
    if isinstance(x, (int, float, str, bool)) or x is None: return x
    return repr(x)

class Violation(Exception):
    def __init__(self, clause, detail=""): super().__init__(f"{clause}: {detail}"); self.clause = clause; self.detail = detail

def guarded(clause_prefix, fn, *a, **kw):
    """call code under test; an exception the contract does not allow is a violation of `<prefix>.raises.unexpected(E)`"""
    try: return fn(*a, **kw)
    except Violation: raise
    except Exception as e:
        tb = traceback.extract_tb(e.__traceback__)[-1]
        raise Violation(f"{clause_prefix}.raises.unexpected({type(e).__name__})", f"{e!r} at {os.path.basename(tb.filename)}:{tb.lineno}")

def main(mod):
    ap = argparse.ArgumentParser(); ap.add_argument("--repo", default="/repo"); ap.add_argument("--tier", default="quick"); ap.add_argument("--seed", default="0"); ap.add_argument("--replay")
    a = ap.parse_args(); t0 = time.time()
    if a.replay:
        rec = json.load(open(a.replay)); case = rec.get("case") or (rec.get("concrete_failing_input") or {}).get("case")
        if case is None: print("replay file carries no concrete input (obligation-only report):", rec.get("obligation")); print(json.dumps(rec.get("counter_model"))[:2000]); sys.exit(3)
        vs = run_check(mod, untuple(case))
        for c, d in vs: print(f"REPLAY violation clause={c} {d}")
        print("REPLAY: " + ("violation reproduced" if vs else "no violation on this tree")); sys.exit(1 if vs else 0)
    seed = int(a.seed or 0); rnd = random.Random(seed)
    budget = getattr(mod, "BUDGET_S", {"quick": 40, "thorough": 600})[a.tier]
    n = 0; distinct = set(); nontrivial = 0; viol = []; samples = []; exhausted = True; seen_clauses = set()
    for case in mod.cases(a.tier, rnd):
        if time.time() - t0 > budget: exhausted = False; break
        n += 1
        key = json.dumps(jsonable(case), sort_keys=True)
        if key not in distinct:
            distinct.add(key)
            if getattr(mod, "nontrivial", lambda c: True)(case): nontrivial += 1
        if len(samples) < 3 or (n % 997 == 0 and len(samples) < 6): samples.append(jsonable(case))
        for clause, detail in run_check(mod, case):
            if clause in seen_clauses: continue        # report each clause once, with its first (smallest) failing case
            seen_clauses.add(clause); viol.append(dict(clause=clause, function=getattr(mod, "FUNCTION_OF", {}).get(clause.split(".")[0]), case=jsonable(case), detail=str(detail)[:400]))
        if len(viol) >= 8: break
    res = dict(evaluations=n, distinct_nontrivial=nontrivial, rule=mod.RULE, bound=mod.BOUND[a.tier] if isinstance(mod.BOUND, dict) else mod.BOUND,
               exhaustive=bool(getattr(mod, "EXHAUSTIVE", False) and exhausted and not viol), samples=samples, violations=viol, wall_s=round(time.time() - t0, 2),
               extra=getattr(mod, "extra", lambda: None)())
    print(json.dumps(res))

def run_check(mod, case):
    try:
        return list(mod.check(case))
    except Violation as v: return [(v.clause, v.detail)]
    except Exception as e:
        # an exception escaping the harness itself: report as harness error on stderr, do not turn it into a verdict
        print("HARNESS-ERROR " + "".join(traceback.format_exception(e))[-1500:], file=sys.stderr); return []
