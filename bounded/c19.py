"""C19 bounded stand-in / replay harness: the real distribution factories on a parameter grid, compared with 50-digit mpmath values of the
named laws (zeta, polylog); non-negativity, agreement within the series-truncation bound, and sums over the support within the same bound."""
import sys, math
import mpmath as mpm
from bounded.common import *
from gcmpy.distributions.exponential import exponential
from gcmpy.distributions.poisson import poisson
from gcmpy.distributions.power_law import power_law
from gcmpy.distributions.scale_free_cut_off import scale_free_cut_off
mpm.mp.dps = 50
BOUND = {"quick": "a in (0,5], mean in (0,20] with k <= 150, alpha in [2,6], kappa in [0.03,50]; 120 parameter points, up to 40 degrees each", "thorough": "same ranges, 2500 parameter points"}
RULE = "seeded parameter grid incl. corner values (alpha = 2, tiny kappa, k >= 21 for Poisson); non-trivial = every case"
EXHAUSTIVE = False
TOL = 1e-6
def cases(tier, rnd):
    n = 30 if tier == "quick" else 600
    fixed = [dict(law="exponential", a=a) for a in (0.01, 0.5, 1.0, 5.0)] + [dict(law="poisson", mean=m) for m in (0.1, 1.0, 2.5, 20.0)] + \
            [dict(law="power_law", alpha=a) for a in (2.0, 2.5, 3.0, 6.0)] + [dict(law="cutoff", alpha=a, kappa=k) for a in (2.0, 3.5) for k in (0.03, 0.05, 0.07, 0.1, 0.5, 5.0, 50.0)]
    for c in fixed: yield c
    for _ in range(n):
        yield dict(law="exponential", a=round(rnd.uniform(0.01, 5), 3)); yield dict(law="poisson", mean=round(rnd.uniform(0.05, 20), 3))
        yield dict(law="power_law", alpha=round(rnd.uniform(2, 6), 3)); yield dict(law="cutoff", alpha=round(rnd.uniform(2, 6), 3), kappa=round(math.exp(rnd.uniform(math.log(0.03), math.log(50))), 4))

def rel(a, b): return abs(mpm.mpf(a) - b) / abs(b) if b != 0 else abs(mpm.mpf(a))
def finite_nonneg(law, k, v):
    if not (isinstance(v, (float, int)) or hasattr(v, "__float__")) or math.isnan(float(v)) or math.isinf(float(v)) or float(v) < 0: raise Violation(f"{law}.p.nonnegative_finite", f"p({k}) = {v!r}")

def check(c):
    law = c["law"]
    if law == "exponential":
        a = c["a"]; p = guarded("exponential", exponential, a); s = mpm.mpf(0)
        for k in range(0, 400):
            v = guarded("exponential.p", p, k); finite_nonneg(law, k, v); e = (1 - mpm.e ** (-mpm.mpf(a))) * mpm.e ** (-mpm.mpf(a) * k)
            if rel(v, e) > 1e-9 and abs(mpm.mpf(v) - e) > 1e-300: raise Violation("exponential.p.formula", f"a={a}, p({k}) = {v!r}, (1-e^-a)e^-ak = {mpm.nstr(e, 15)}")
            s += mpm.mpf(float(v))
        tail = mpm.e ** (-mpm.mpf(a) * 400)
        if abs(s + tail - 1) > 1e-9: raise Violation("exponential.p.sums_to_one", f"a={a}: sum over k<400 plus tail = {mpm.nstr(s + tail, 15)}")
    elif law == "poisson":
        m = c["mean"]; p = guarded("poisson", poisson, m); s = mpm.mpf(0)
        for k in range(0, 151):
            v = guarded("poisson.p", p, k); finite_nonneg(law, k, v); e = mpm.e ** (-mpm.mpf(m)) * mpm.mpf(m) ** k / mpm.factorial(k)
            if rel(v, e) > 1e-9 and abs(mpm.mpf(float(v)) - e) > 1e-300: raise Violation("poisson.p.formula", f"mean={m}, p({k}) = {v!r}, e^-m m^k/k! = {mpm.nstr(e, 15)}")
            s += mpm.mpf(float(v))
        if abs(s - 1) > 1e-9: raise Violation("poisson.p.sums_to_one", f"mean={m}: sum over k<=150 = {mpm.nstr(s, 15)}")
    else:
        alpha = c["alpha"]
        if law == "power_law":
            p = guarded("power_law", power_law, alpha); Cx = mpm.zeta(alpha); term = lambda j: mpm.mpf(j) ** (-alpha); f = lambda k: mpm.mpf(k) ** (-alpha)
        else:
            kappa = c["kappa"]; z = mpm.e ** (-1 / mpm.mpf(kappa)); p = guarded("scale_free_cut_off", scale_free_cut_off, alpha, kappa); Cx = mpm.polylog(alpha, z)
            term = lambda j: z ** j * mpm.mpf(j) ** (-alpha); f = lambda k: mpm.mpf(k) ** (-alpha) * mpm.e ** (-mpm.mpf(k) / kappa)
        # truncation bound: the series is cut after the first term below 1e-6; the dropped tail is at most the integral bound / geometric bound
        K = 1
        while term(K) >= TOL and K < 10 ** 7: K += 1
        tail = Cx - mpm.nsum(term, [1, K]) if K < 5000 else mpm.mpf(K) ** (1 - alpha) / (alpha - 1)
        bound = float(abs(tail) / Cx) * 1.05 + 1e-9
        ks = list(range(1, 31)) + [50, 100, 500, 1000]
        for k in ks:
            v = guarded(f"{law}.p", p, k); finite_nonneg(law, k, v); e = f(k) / Cx
            if e > mpm.mpf(10) ** (-290) and rel(v, e) > bound: raise Violation(f"{law}.p.formula_within_truncation", f"{c}: p({k}) = {v!r}, named law gives {mpm.nstr(e, 15)} (relative truncation bound {bound:.3g})")
        # sum over the support = C_exact / C_used, recovered from one well-conditioned value
        v1 = mpm.mpf(float(p(1))); ratio = v1 / (f(1) / Cx)
        if abs(ratio - 1) > bound: raise Violation(f"{law}.p.sums_to_one_within_truncation", f"{c}: total mass {mpm.nstr(ratio, 12)} (bound {bound:.3g})")
    return []
if __name__ == "__main__": main(sys.modules[__name__])
