"""C13 bounded stand-in / replay harness: the real JointExcessJointDegree / JointExcessDegree on small annotated networks (random simple
graphs with 1-3 topologies, including declared topologies without edges and self-paired classes), 1-3 extractions per object; every
matrix entry is recomputed independently with exact Fractions from the definition (fraction of the topology's edge ends)."""
import itertools, sys
from fractions import Fraction as F
from collections import Counter, defaultdict
import networkx as nx
from bounded.common import *
from gcmpy.tools.joint_excess_joint_degree import JointExcessJointDegree
from gcmpy.tools.joint_excess_degree import JointExcessDegree
from gcmpy.names.tools_names import ToolsNames as TN
from gcmpy.names.network_names import NetworkNames as NN

BOUND = {"quick": "simple graphs on <= 6 vertices, <= 9 edges, 1-3 declared topologies (some possibly without edges), consistent annotations, 1-3 extractions per object",
         "thorough": "simple graphs on <= 9 vertices, <= 16 edges, 1-4 declared topologies, 1-3 extractions per object"}
RULE = "seeded random edge sets with random topology labels plus hand-made paths/stars/cliques; non-trivial = at least two edges"
EXHAUSTIVE = False
def cases(tier, rnd):
    hand = [dict(n=4, edges=[[0, 1, 0], [1, 2, 0], [2, 3, 0]], names=["a"]), dict(n=3, edges=[[0, 1, 0], [1, 2, 0], [0, 2, 0]], names=["a"]),
            dict(n=4, edges=[[0, 1, 1], [1, 2, 1], [2, 3, 1]], names=["red", "green", "blue"]), dict(n=4, edges=[[0, 1, 0], [1, 2, 2], [2, 3, 2], [0, 3, 0]], names=["r", "g", "b"]),
            dict(n=5, edges=[[0, 1, 0], [0, 2, 0], [0, 3, 0], [0, 4, 1]], names=["x", "y"])]
    hand += [dict(n=5, edges=[[0, 1, 0], [1, 2, 1], [2, 3, 1], [3, 4, 0], [0, 4, 1]], names=["2-clique", "2-clique-red"]), dict(n=4, edges=[[0, 1, 0], [1, 2, 1], [2, 3, 2], [0, 3, 1]], names=["a", "ab", "b"]),
             dict(n=4, edges=[[0, 1, 1], [1, 2, 0], [2, 3, 1]], names=["tri-x", "tri"])]
    for h in hand:
        for reps in (1, 2, 3): yield dict(h, reps=reps)
    nmax, emax, tmax = (6, 9, 3) if tier == "quick" else (9, 16, 4)
    for _ in range(1500 if tier == "quick" else 30000):
        n = rnd.randint(2, nmax); T = rnd.randint(1, tmax)
        pairs = [(u, v) for u in range(n) for v in range(u + 1, n)]; rnd.shuffle(pairs)
        used = rnd.sample(range(T), rnd.randint(1, T))
        es = [[u, v, rnd.choice(used)] if rnd.random() < .5 else [v, u, rnd.choice(used)] for u, v in pairs[:rnd.randint(1, min(emax, len(pairs)))]]
        names = [f"t{k}" for k in range(T)] if rnd.random() < 0.6 else ["c" + "x" * k for k in range(T)]        # labels may be substrings of one another
        yield dict(n=n, edges=es, names=names, reps=rnd.randint(1, 3))
def nontrivial(c): return len(c["edges"]) >= 2

def build(c):
    G = nx.Graph(); T = len(c["names"]); G.add_nodes_from(range(c["n"]))
    deg = defaultdict(lambda: [0] * T)
    for u, v, t in c["edges"]:
        G.add_edge(u, v, **{}); G.edges[u, v][NN.TOPOLOGY] = c["names"][t]; G.edges[u, v][NN.MOTIF_IDS] = 0; deg[u][t] += 1; deg[v][t] += 1
    for x in range(c["n"]): G.nodes[x][NN.JOINT_DEGREE] = tuple(deg[x])
    return G, {x: tuple(deg[x]) for x in range(c["n"])}

def oracle(c, jd):
    T = len(c["names"]); out = {}
    for t, name in enumerate(c["names"]):
        es = [(u, v) for u, v, tt in c["edges"] if tt == t]; m = Counter()
        exc = lambda x: tuple(k - (1 if i == t else 0) for i, k in enumerate(jd[x]))
        for u, v in es: m[exc(u) + exc(v)] += F(1, 2 * len(es)); m[exc(v) + exc(u)] += F(1, 2 * len(es))
        out[name] = dict(m)
    return out

def close(a, b): return abs(float(a) - float(b)) <= 1e-12
def check(c):
    G, jd = build(c); T = len(c["names"]); exp = oracle(c, jd)
    snap = (sorted(G.nodes(data=True), key=repr), sorted(G.edges(data=True), key=repr))
    ext = guarded("JointExcessJointDegree.__init__", JointExcessJointDegree, {TN.NETWORK: G, TN.EDGE_NAMES: list(c["names"])})
    for rep in range(c["reps"]):
        M = guarded("JointExcessJointDegree.get_ejks", ext.get_ejks)
        for name in c["names"]:
            got = M.ejks.get(name)
            if got is None: raise Violation("JointExcessJointDegree.get_ejks.one_matrix_per_topology", f"no matrix for {name!r}")
            e = exp[name]; tag = "" if rep == 0 else f" on extraction #{rep + 1}"
            for k in set(e) | set(got):
                if not close(got.get(k, 0), e.get(k, 0)):
                    clause = "JointExcessJointDegree.get_ejk.exact" if rep == 0 else "JointExcessJointDegree.count_edge_types.counts_are_a_function_of_the_graph"
                    raise Violation(clause, f"topology {name!r} entry {k}: {got.get(k, 0)} vs exact {e.get(k, 0)}{tag}")
            half = T
            for k, v in got.items():
                if not close(v, got.get(k[half:] + k[:half], 0)): raise Violation("JointExcessJointDegree.get_ejk.symmetric", f"{name!r} {k}")
            if e and not close(sum(got.values()), 1): raise Violation("JointExcessJointDegree.get_ejk.mass_one", f"{name!r} sums to {sum(got.values())}{tag}")
            # row sums = excess distribution of the topology computed from the empirical joint degree distribution
            t = c["names"].index(name); P = Counter(jd.values()); N = c["n"]; mean = sum(F(k[t] * cnt, N) for k, cnt in P.items())
            if e and mean:
                q = {tuple(x - (1 if i == t else 0) for i, x in enumerate(k)): F(k[t] * cnt, N) / mean for k, cnt in P.items() if k[t] > 0}
                rows = defaultdict(float)
                for k, v in got.items(): rows[k[:half]] += v
                for a in set(q) | set(rows):
                    if not close(rows.get(a, 0), q.get(a, 0)): raise Violation("JointExcessJointDegree.get_ejk.row_sums_are_the_excess_distribution", f"{name!r} row {a}: {rows.get(a, 0)} vs {q.get(a, 0)}")
        if (sorted(G.nodes(data=True), key=repr), sorted(G.edges(data=True), key=repr)) != snap: raise Violation("JointExcessJointDegree.get_ejks.independent_of_earlier_calls", "the network was modified")
    # overall-degree variant
    got = guarded("JointExcessDegree.get_ejk", JointExcessDegree.get_ejk, G); m = Counter(); E = G.number_of_edges()
    for u, v in G.edges(): m[(G.degree(u) - 1, G.degree(v) - 1)] += F(1, 2 * E); m[(G.degree(v) - 1, G.degree(u) - 1)] += F(1, 2 * E)
    for k in set(m) | set(got):
        if not close(got.get(k, 0), m.get(k, 0)): raise Violation("JointExcessDegree.get_ejk.exact", f"entry {k}: {got.get(k, 0)} vs {m.get(k, 0)}")
    return []
if __name__ == "__main__": main(sys.modules[__name__])
