"""C11 bounded stand-in / replay harness (shared MCMC harness, clauses of C11 only) -- see bounded/mcmc_common.py"""
import sys
from bounded.common import *
from bounded import mcmc_common as M
PID = "C11"
BOUND = {"quick": "clean networks from the real generators, N <= 14, 2-cliques/triangles/4-cycles, full-support targets (C12: pairings removed or zeroed), convergence limit in {default,0,1,2,5} (every prefix of the swap history by re-running the seed), search limit in {default,1,20}; runs exceeding 40000 RNG draws are abandoned (liveness not claimed)",
         "thorough": "same with N <= 24, also 6-cycles, 600 networks"}
RULE = "seeded random joint degree sequences -> real generator -> clean network; non-trivial = at least one run returned a graph that differs from the input"
EXHAUSTIVE = False
BUDGET_S = {"quick": 60, "thorough": 1500}
def cases(tier, rnd):
    for c in M.gen_cases(tier, rnd, c12=(PID == "C12")): yield c
def check(case):
    return [(cl, d) for cl, d in M.check_case(case) if not cl.startswith("C1") or cl.startswith(PID + ".")]
if __name__ == "__main__": main(sys.modules[__name__])
