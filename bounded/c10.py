"""C10 bounded stand-in / replay harness: the real MPCC on every graph of the networkx atlas with <= 6 (thorough 7) vertices and at least one
edge, size limit in {0, 2, 3, 4}, several orderings of the shuffled clique list (scripted shuffle), plus cover / edit-in-place / cover-again
histories.  Run-time postconditions = the ensures clauses of contracts/mpcc.py evaluated on the labels."""
import ast, itertools, random, sys
import networkx as nx
from networkx.generators.atlas import graph_atlas_g
from bounded.common import *
import gcmpy.covers.mpcc as mp

BOUND = {"quick": "all atlas graphs with 2..6 vertices and >= 1 edge x limit in {0,2,3,4} x 3 shuffle outcomes; 60 two-step histories", "thorough": "all atlas graphs with 2..7 vertices x limit in {0,2,3,4,5} x 8 shuffle outcomes; 400 histories"}
RULE = "atlas graphs (relabelled randomly) x size limit x seeded shuffle outcomes; non-trivial = the graph contains a triangle"
EXHAUSTIVE = False
BUDGET_S = {"quick": 50, "thorough": 1200}
ATLAS = None
def atlas(nmax):
    global ATLAS
    if ATLAS is None: ATLAS = [g for g in graph_atlas_g() if 2 <= g.number_of_nodes() <= 7 and g.number_of_edges() >= 1]
    return [g for g in ATLAS if g.number_of_nodes() <= nmax]
def cases(tier, rnd):
    nmax, lims, reps = (6, (0, 2, 3, 4), 3) if tier == "quick" else (7, (0, 2, 3, 4, 5), 8)
    gs = atlas(nmax); idx = list(range(len(gs))); rnd.shuffle(idx)
    for k, i in enumerate(idx):
        g = gs[i]; perm = list(g.nodes()); rnd.shuffle(perm)
        es = [[perm[u], perm[v]] for u, v in g.edges()]; rnd.shuffle(es)
        for lim in lims:
            yield dict(kind="single", n=g.number_of_nodes(), edges=es, limit=lim, seeds=[rnd.randint(0, 10 ** 6) for _ in range(reps)])
        if k % (20 if tier == "quick" else 3) == 0 and g.number_of_edges() >= 3:
            # history: cover, then swap some edges in place (same number of nodes and edges), cover again
            non = [[perm[u], perm[v]] for u, v in nx.non_edges(g)]
            if non:
                kk = rnd.randint(1, min(2, len(non), len(es)))
                yield dict(kind="history", n=g.number_of_nodes(), edges=es, remove=rnd.sample(es, kk), add=rnd.sample(non, kk), limit=rnd.choice(lims), seeds=[rnd.randint(0, 10 ** 6)])
def nontrivial(c): return any(1 for _ in nx.enumerate_all_cliques(nx.Graph([tuple(e) for e in c["edges"]])) if len(_) >= 3)

def parse(label):
    a, rest = label.split("-", 1); members, idv = rest.rsplit("-", 1)
    return int(a), ast.literal_eval(members), int(idv)

def post(G0, H, limit, tag):
    if H is None: raise Violation("MPCC.returns_graph", tag)
    if set(H.nodes) != set(G0.nodes) or {frozenset(e) for e in H.edges} != {frozenset(e) for e in G0.edges}: raise Violation("MPCC.edges_unchanged", f"nodes/edges changed {tag}")
    by = {}
    for u, v, d in H.edges(data=True):
        if "clique" not in d: raise Violation("MPCC.every_edge_labelled", f"edge {(u, v)} has no label {tag}")
        try: size, members, idv = parse(d["clique"])
        except Exception: raise Violation("MPCC.label_is_size_members_id", f"label {d['clique']!r} {tag}")
        by.setdefault(d["clique"], []).append(frozenset((u, v)))
        if u not in members or v not in members: raise Violation("MPCC.label_is_size_members_id", f"edge {(u, v)} labelled {d['clique']!r} is not a pair of the member list {tag}")
    ids = {}
    for lab, es in by.items():
        size, members, idv = parse(lab)
        if len(members) != size or len(set(members)) != size: raise Violation("MPCC.label_is_size_members_id", f"{lab!r}: size does not match members {tag}")
        want = {frozenset(p) for p in itertools.combinations(members, 2)}
        if set(es) != want or len(es) != len(want): raise Violation("MPCC.label_edges_are_all_pairs_of_members", f"{lab!r} on edges {sorted(map(sorted, es))}, pairs {sorted(map(sorted, want))} {tag}")
        if limit > 0 and size > limit: raise Violation("MPCC.cover_within_limit", f"{lab!r} exceeds limit {limit} {tag}")
        if idv in ids: raise Violation("MPCC.ids_unique", f"id {idv} used by {ids[idv]!r} and {lab!r} {tag}")
        ids[idv] = lab
    owner = {e: parse(lab)[0] for lab, es in by.items() for e in es}
    for K in nx.enumerate_all_cliques(G0):
        if len(K) < 2 or (limit > 0 and len(K) > limit): continue
        if not any(owner[frozenset(p)] >= len(K) for p in itertools.combinations(K, 2)):
            raise Violation("MPCC.greedy_maximal", f"clique {K} has no edge assigned to a cover clique of size >= {len(K)} (limit {limit}) {tag}")

def run(G, limit, seed):
    r = random.Random(seed); saved = mp.shuffle; mp.shuffle = lambda xs: r.shuffle(xs)
    try: return guarded("MPCC", mp.MPCC, G, limit)
    finally: mp.shuffle = saved

def check(c):
    G = nx.Graph(); G.add_nodes_from(range(c["n"])); G.add_edges_from([tuple(e) for e in c["edges"]])
    for seed in c["seeds"]:
        G1 = G.copy(); ref = G.copy(); H = run(G1, c["limit"], seed); post(ref, H, c["limit"], f"(limit {c['limit']}, shuffle seed {seed})")
        if c["kind"] == "history":
            for e in c["remove"]: G1.remove_edge(*e)
            for e in c["add"]: G1.add_edge(*e)
            ref2 = nx.Graph(); ref2.add_nodes_from(G1.nodes); ref2.add_edges_from(G1.edges())
            H2 = run(G1, c["limit"], seed + 1); post(ref2, H2, c["limit"], f"(second cover of the same graph object after removing {c['remove']} and adding {c['add']}; limit {c['limit']})")
    return []
if __name__ == "__main__": main(sys.modules[__name__])
