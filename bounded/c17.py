"""C17 bounded stand-in / replay harness: the real MessagePassing.theoretical on a corpus of cover-labelled networks (<= 14 vertices; cliques,
cycles, diamonds, chorded cycles; motifs pairwise sharing at most one vertex, tree-like and ring arrangements), phi grid, iterations in {1,5,25}.
Run-time postconditions: run to convergence, equals the FIXED POINT of an independent iteration (same start 0.5; each motif's exact brute-force expectation, each other
motif of a neighbour counted once; no particular sweep schedule or sweep count is demanded); 0 at phi=0; within [0,1]; non-decreasing over the grid; any query order gives the answers of fresh objects."""
import itertools, sys, math
import networkx as nx
from bounded.common import *
from gcmpy.message_passing.message_passing import MessagePassing

BOUND = {"quick": "up to 40 networks with <= 14 vertices, phi grid of 6 points, iterations in {1,4,10}, 2 query orders", "thorough": "400 networks with <= 18 vertices, phi grid of 21 points, iterations in {1,5,25}, 3 query orders"}
RULE = "seeded gluing of motifs (K2,K3,K4,C4,C5,diamond,chorded C5, paw) at shared vertices, occasionally closing rings; non-trivial = at least two motifs sharing a vertex"
EXHAUSTIVE = False
BUDGET_S = {"quick": 55, "thorough": 1500}
MOTIFS = {"K2": [(0, 1)], "K3": [(0, 1), (0, 2), (1, 2)], "K4": [(0, 1), (0, 2), (0, 3), (1, 2), (1, 3), (2, 3)], "C4": [(0, 1), (1, 2), (2, 3), (0, 3)], "C5": [(0, 1), (1, 2), (2, 3), (3, 4), (0, 4)],
          "diamond": [(0, 1), (1, 2), (2, 3), (0, 3), (0, 2)], "chordC5": [(0, 1), (1, 2), (2, 3), (3, 4), (0, 4), (1, 3)], "paw": [(0, 1), (0, 2), (1, 2), (2, 3)]}
def cases(tier, rnd):
    n_nets, vmax, grid = (40, 14, 6) if tier == "quick" else (400, 18, 21)
    for t in range(n_nets):
        motifs = []; nv = 0; members_of = {}
        def add(kind, anchors):
            nonlocal nv
            size = 1 + max(max(e) for e in MOTIFS[kind]); vs = list(anchors) + list(range(nv, nv + size - len(anchors))); nv += size - len(anchors); rnd.shuffle(vs)
            motifs.append(dict(kind=kind, vs=vs, edges=[[vs[a], vs[b]] for a, b in MOTIFS[kind]]))
            for v in vs: members_of.setdefault(v, []).append(len(motifs) - 1)
        add(rnd.choice(list(MOTIFS)), [])
        while nv < vmax - 3 and len(motifs) < 7:
            if rnd.random() < 0.2 and nv >= 4:
                # close a ring with a K2 between two vertices that share no motif
                cand = [(a, b) for a in range(nv) for b in range(a + 1, nv) if not set(members_of[a]) & set(members_of[b])]
                if cand: a, b = rnd.choice(cand); motifs.append(dict(kind="K2", vs=[a, b], edges=[[a, b]])); members_of[a].append(len(motifs) - 1); members_of[b].append(len(motifs) - 1); continue
            add(rnd.choice(list(MOTIFS)), [rnd.randrange(nv)])
        yield dict(motifs=motifs, n=nv, grid=grid, iterations=rnd.choice([1, 4, 10] if tier == "quick" else [1, 5, 25]), order_seed=rnd.randint(0, 999))
def nontrivial(c): return len(c["motifs"]) >= 2

def label(m, idx): return f"{len(m['vs'])}-{m['vs']}-{[tuple(e) for e in m['edges']]}-{idx}"
def build(c):
    G = nx.Graph()
    for idx, m in enumerate(c["motifs"]):
        for a, b in m["edges"]: G.add_edge(a, b, CoverLabel=label(m, idx))
    return G

def component_weights(m, focal):
    """for the motif and focal vertex: list of (other members of the focal component, [count of connected spanning edge sets with k edges], inner edge count, boundary edge count)"""
    g = nx.Graph(); g.add_edges_from([tuple(e) for e in m["edges"]]); out = []
    others = [v for v in g.nodes if v != focal]
    for r in range(len(others) + 1):
        for extra in itertools.combinations(others, r):
            S = {focal, *extra}; H = g.subgraph(S)
            if not nx.is_connected(H): continue
            inner = list(H.edges()); boundary = sum(1 for a, b in g.edges() if (a in S) != (b in S)); cnt = [0] * (len(inner) + 1)
            for k in range(len(inner) + 1):
                for keep in itertools.combinations(inner, k):
                    J = nx.Graph(); J.add_nodes_from(S); J.add_edges_from(keep)
                    if nx.is_connected(J): cnt[k] += 1
            out.append((extra, cnt, len(inner), boundary))
    return out

def reference(c, G, phi, iterations, cw, table=None):
    """iterations = n: n sweeps from the 0.5 start; iterations = None: sweeps until converged; table = a message table {(vertex, motif id): value}: no sweep at all --
    returns (largest residual |table - F(table)| of the motif-cover equations at that table, 1 - vertex average of the products taken from that table)"""
    H = {}
    memb = {}
    for idx, m in enumerate(c["motifs"]):
        for v in m["vs"]: H[(v, idx)] = 0.5; memb.setdefault(v, []).append(idx)
    lab = {frozenset(e): idx for idx, m in enumerate(c["motifs"]) for e in map(tuple, m["edges"])}
    if table is not None:
        if set(table) != set(H): return None, None
        H = {k: float(v) for k, v in table.items()}
    def update(focal, idx):
        m = c["motifs"][idx]; u = {}
        for j in m["vs"]:
            if j == focal: continue
            pj = 1.0
            for other in memb[j]:
                if other != idx: pj *= H[(j, other)]
            u[j] = pj
        tot = 0.0
        for extra, cnt, mi, bd in cw[(idx, focal)]:
            w = sum(cn * phi ** k * (1 - phi) ** (mi - k) for k, cn in enumerate(cnt)) * (1 - phi) ** bd
            for j in extra: w *= u[j]
            tot += w
        if table is not None: return tot
        H[(focal, idx)] = tot
    if table is not None:
        res = max(abs(update(f, idx) - H[(f, idx)]) for (f, idx) in list(H))
        s = 0.0
        for i in G.nodes():
            pr = 1.0
            for idx in memb[i]: pr *= H[(i, idx)]
            s += pr
        return res, 1 - s / G.order()
    sweeps = 0
    while True:
        if iterations is not None and sweeps >= iterations: break
        before = dict(H)
        for i, j in G.edges():
            idx = lab[frozenset((i, j))]; update(i, idx); update(j, idx)
        sweeps += 1
        if iterations is None and (max(abs(H[k] - before[k]) for k in H) < 1e-14 or sweeps >= 400): break
    s = 0.0
    for i in G.nodes():
        pr = 1.0
        for idx in memb[i]: pr *= H[(i, idx)]
        s += pr
    return (1 - s / G.order(), sweeps) if iterations is None else 1 - s / G.order()

def check(c):
    G = build(c); its = c["iterations"]; grid = [k / (c["grid"] - 1) for k in range(c["grid"])]
    cw = {(idx, f): component_weights(m, f) for idx, m in enumerate(c["motifs"]) for f in m["vs"]}
    fresh = {}
    for phi in grid:
        mp = guarded("MessagePassing.__init__", MessagePassing, G.copy(), iterations=its)
        v = guarded("MessagePassing.theoretical", mp.theoretical, phi); fresh[phi] = v
        if not (isinstance(v, float) or isinstance(v, int)) or math.isnan(v): raise Violation("MessagePassing.theoretical.equals_the_motif_cover_iteration", f"phi={phi}: returned {v!r}")
        # The statement fixes the FIXED POINT reached from the 0.5 start, not the sweep schedule or a number of sweeps: the real code is run long enough to converge and compared
        # with the converged independent iteration (points where the independent iteration itself needs more than 40 sweeps -- near the transition -- are not compared).
        ref, need = reference(c, G, phi, None, cw)
        if need <= 40:
            mpc = guarded("MessagePassing.__init__", MessagePassing, G.copy(), iterations=need + 15); vc = guarded("MessagePassing.theoretical", mpc.theoretical, phi)
            if not isinstance(vc, (float, int)) or math.isnan(vc): raise Violation("MessagePassing.theoretical.equals_the_motif_cover_iteration", f"phi={phi}: returned {vc!r}")
            tab = getattr(mpc, "_H_tau", None); res = agg = None
            if isinstance(tab, dict):
                try: res, agg = reference(c, G, phi, None, cw, table=tab)
                except Exception: res = agg = None
            if res is not None:
                # where the equations have several fixed points (phi = 1 on small networks) the one reached depends on the sweep schedule, which the statement leaves open: the real
                # code's own message table must BE a fixed point of the independent equations, and the returned value must be 1 - the vertex average of the products taken from it
                if res > 1e-6: raise Violation("MessagePassing.theoretical.equals_the_motif_cover_iteration", f"phi={phi}: after {need + 15} sweeps the real message table is not a fixed point of the motif-cover equations with exact per-motif expectations (largest residual {res:.3g}; the independent iteration converges in {need} sweeps)")
                if abs(vc - agg) > 1e-9: raise Violation("MessagePassing.theoretical.equals_the_motif_cover_iteration", f"phi={phi}: returned {vc!r}, but 1 - the vertex average of the products of its own messages is {agg!r}")
            elif abs(vc - ref) > 1e-7:      # message table not accessible under its usual name: fall back to comparing values with the converged independent iteration
                raise Violation("MessagePassing.theoretical.equals_the_motif_cover_iteration", f"phi={phi}: after {need + 15} sweeps the real code returns {vc!r}, the converged independent iteration gives {ref!r}")
        if v < -1e-12 or v > 1 + 1e-12: raise Violation("MessagePassing.theoretical.within_unit_interval", f"phi={phi}: {v}")
    if abs(fresh[0.0]) > 1e-12: raise Violation("MessagePassing.theoretical.zero_at_phi_zero", f"{fresh[0.0]}")
    for a, b in zip(grid, grid[1:]):
        if fresh[b] < fresh[a] - 1e-9: raise Violation("MessagePassing.theoretical.non_decreasing_in_phi", f"S({a})={fresh[a]} > S({b})={fresh[b]} ({its} iterations)")
    import random
    r = random.Random(c["order_seed"])
    orders = [sorted(grid, reverse=True), [0.6, 0.0, 0.8] if 0.6 in grid else [grid[len(grid) // 2], 0.0, grid[-2]]] + ([r.sample(grid, len(grid))] if c["grid"] > 6 else [])
    for order in orders:
        mp = MessagePassing(G.copy(), iterations=its)
        for phi in order:
            v = guarded("MessagePassing.theoretical", mp.theoretical, phi)
            if not abs(v - fresh[phi]) <= 1e-12: raise Violation("MessagePassing.theoretical.independent_of_query_history", f"query order {order[:6]}...: phi={phi} gives {v!r} on the reused object, {fresh[phi]!r} on a fresh one")
    return []
if __name__ == "__main__": main(sys.modules[__name__])
