"""C09 bounded stand-in / replay harness: the real EECC.get_EECC on every labelled graph with <= 5 vertices and no isolated vertex (random
edge insertion order and orientation), sampled graphs on 6-9 vertices incl. disjoint unions of overlapping cliques, m0 in 2..n+1, EVERY
tie-break path (DFS over the outcomes of random.choice, capped), plus query-then-cover histories on one object."""
import itertools, sys, random
import networkx as nx
from bounded.common import *
import gcmpy.covers.eecc as ee

BOUND = {"quick": "all labelled graphs on <= 5 vertices without isolated vertices (one random edge order each), 150 sampled graphs on 6-9 vertices, m0 in 2..n+1, all tie-break paths (cap 60 per input), 40 histories",
         "thorough": "same with three edge orders each, 3000 sampled graphs on 6-10 vertices, cap 400 paths"}
RULE = "exhaustive labelled graphs on <= 5 vertices + seeded samples; each case runs every tie-break path up to the cap; non-trivial = the graph has two maximal cliques sharing an edge"
EXHAUSTIVE = False
BUDGET_S = {"quick": 55, "thorough": 1500}
def cases(tier, rnd):
    q = tier == "quick"; reps = 1 if q else 3
    small = []
    for n in range(2, 6):
        pairs = list(itertools.combinations(range(1, n + 1), 2))
        for mask in range(1, 1 << len(pairs)):
            es = [pairs[i] for i in range(len(pairs)) if mask >> i & 1]
            if len({x for e in es for x in e}) != n: continue
            small.append((n, es))
    rnd.shuffle(small)
    samples = []
    for _ in range(150 if q else 3000):
        n = rnd.randint(6, 9 if q else 10); pr = rnd.choice([0.3, 0.5, 0.7])
        es = [(u, v) for u in range(n) for v in range(u + 1, n) if rnd.random() < pr]
        if rnd.random() < 0.3:      # disjoint union of overlapping cliques (diamonds, K4s)
            es = []; base = 0
            for _ in range(rnd.randint(2, 4)):
                kind = rnd.choice(["K4", "diamond", "K3", "bowtie"]); 
                loc = {"K4": [(0, 1), (0, 2), (0, 3), (1, 2), (1, 3), (2, 3)], "diamond": [(0, 1), (0, 2), (1, 2), (1, 3), (2, 3)], "K3": [(0, 1), (0, 2), (1, 2)], "bowtie": [(0, 1), (0, 2), (1, 2), (2, 3), (2, 4), (3, 4)]}[kind]
                es += [(a + base, b + base) for a, b in loc]; base += 1 + max(max(e) for e in loc)
        if es: samples.append((None, es))
    allc = small + samples; hist = 0
    for i, (n, es) in enumerate(allc):
        vs = sorted({x for e in es for x in e})
        for r in range(reps):
            order = list(es); rnd.shuffle(order); order = [list(e) if rnd.random() < .5 else [e[1], e[0]] for e in order]
            m0s = list(range(2, len(vs) + 2)) if len(vs) <= 5 else rnd.sample(range(2, 7), 3)
            for m0 in m0s: yield dict(kind="cover", edges=order, m0=m0)
        if i % (len(allc) // (40 if q else 400) + 1) == 0 and len(es) >= 3:
            yield dict(kind="history", edges=[list(e) for e in es], query_m0=2, m0=rnd.choice([3, 4]))
def nontrivial(c):
    G = nx.Graph([tuple(e) for e in c["edges"]]); mc = [set(x) for x in nx.find_cliques(G)]
    return any(len(a & b) >= 2 for a, b in itertools.combinations(mc, 2))

def post(G0, cover, m0, obj, tag):
    if not isinstance(cover, list): raise Violation("EECC.get_EECC.returns_list", tag)
    seen = {}
    for c in cover:
        c = list(c)
        if not (2 <= len(c) <= m0) or len(set(c)) != len(c): raise Violation("EECC.get_EECC.size_within_bound", f"{c} for m0={m0} {tag}")
        for a, b in itertools.combinations(c, 2):
            if not G0.has_edge(a, b): raise Violation("EECC.get_EECC.cliques_of_the_input", f"{c}: {(a, b)} is not an edge {tag}")
            k = frozenset((a, b))
            if k in seen: raise Violation("EECC.get_EECC.edge_disjoint", f"edge {(a, b)} is covered by {seen[k]} and {c} {tag}")
            seen[k] = c
    missing = [tuple(e) for e in G0.edges() if frozenset(e) not in seen]
    if missing: raise Violation("EECC.get_EECC.every_edge_covered", f"edges {missing[:4]} not covered {tag}")
    if obj.has_edges(): raise Violation("EECC.get_EECC.no_edges_left", f"the working graph still has {obj.G.number_of_edges()} edges {tag}")
    mc = [set(x) for x in nx.find_cliques(G0)]
    for K in mc:
        if 2 <= len(K) <= m0 and all(len(K & L) < 2 for L in mc if L is not K):
            if not any(set(c) == K for c in cover): raise Violation("EECC.get_EECC.isolated_maximal_cliques_intact", f"maximal clique {sorted(K)} shares no edge with another maximal clique but is not in the cover {[list(c) for c in cover][:6]} {tag}")

def run(c, ch):
    saved = ee.choice; ee.choice = lambda seq: seq[ch.pick(len(seq))]
    try:
        obj = ee.EECC()
        for e in c["edges"]: obj.add_edge(tuple(e))
        G0 = obj.G.copy()
        if c["kind"] == "history":
            obj.set_max_clique_size(c["query_m0"]); guarded("EECC.limited_maximal_cliques", obj.limited_maximal_cliques)
        obj.set_max_clique_size(c["m0"])
        cover = guarded("EECC.get_EECC", obj.get_EECC)
        post(G0, cover, c["m0"], obj, f"(m0={c['m0']}, tie-breaks {ch.script[:ch.pos]}" + (", after a read-only limited_maximal_cliques() query at m0=2 on the same object)" if c["kind"] == "history" else ")"))
    finally: ee.choice = saved

def check(c):
    cap = 60
    for _ in all_scripts(lambda ch: run(c, ch), cap=cap): pass
    return []
if __name__ == "__main__": main(sys.modules[__name__])
