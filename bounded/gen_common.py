"""Shared bounded harness for C01 / C02 / C03: the three real generators (edge-list 'fast', network, custom motifs), built directly and
through GCMAlgorithmMain.load_gcm_algorithm, on small joint degree sequences with recording build callbacks, driven through EVERY outcome
of random.shuffle (Fisher-Yates decisions enumerated by a Chooser).  Run-time postconditions are tagged with the property they belong to."""
import itertools, math, random as _random
from collections import Counter
from bounded.common import *
from gcmpy.gcm_algorithm.gcm_algorithm_fast import GCMAlgorithmFast
from gcmpy.gcm_algorithm.gcm_algorithm_network import GCMAlgorithmNetwork
from gcmpy.gcm_algorithm.gcm_algorithm_custom_motifs import GCMAlgorithmCustomMotifs
from gcmpy.gcm_algorithm.gcm_algorithm_main import GCMAlgorithmMain
from gcmpy.gcm_algorithm.gcm_algorithm_types import GCMAlgorithmTypes
from gcmpy.names.gcm_algorithm_names import GCMAlgorithmNames as GN
from gcmpy.names.network_names import NetworkNames
from gcmpy.motif_generators import clique_motif, cycle_motif, diamond_motif

# ---- build callbacks (kind -> function of a vertex list); each also has an independent reference
def path2(vs): return [(vs[0], vs[1]), (vs[1], vs[2])]
def bare_edge(vs): return (vs[0], vs[1])
def one_edge_list(vs): return [(vs[0], vs[1])]
def star(vs): return tuple((vs[0], v) for v in vs[1:])
def no_edges(vs): return []
CB = {"clique": clique_motif, "cycle": cycle_motif, "diamond": diamond_motif, "path2": path2, "bare_edge": bare_edge, "edge": one_edge_list, "star": star, "none": no_edges}
def ref_edges(kind, vs):
    if kind == "clique": return [(vs[i], vs[j]) for i in range(len(vs)) for j in range(i + 1, len(vs))]
    if kind == "cycle": return [(vs[i], vs[i + 1]) for i in range(len(vs) - 1)] + [(vs[0], vs[-1])]
    if kind == "diamond": return [(vs[0], vs[1]), (vs[1], vs[2]), (vs[2], vs[3]), (vs[0], vs[3]), (vs[0], vs[2]), (vs[1], vs[3])]
    if kind == "path2": return [(vs[0], vs[1]), (vs[1], vs[2])]
    if kind in ("bare_edge", "edge"): return [(vs[0], vs[1])]
    if kind == "star": return [(vs[0], v) for v in vs[1:]]
    return []
def names_for(kind, size, label):
    """custom-motif naming callback: per-edge names (a bare name for a bare edge)"""
    n = len(ref_edges(kind, list(range(size))))
    if kind == "bare_edge": return lambda: label
    return lambda: tuple(f"{label}.{i}" for i in range(n))
def ref_names(kind, size, label):
    n = len(ref_edges(kind, list(range(size))))
    return [label] if kind == "bare_edge" else [f"{label}.{i}" for i in range(n)]

class Recorder:
    def __init__(self): self.calls = []
    def wrap(self, j, kind):
        def f(vs):
            self.calls.append((j, list(vs))); return CB[kind](vs)
        return f

class RngPatch:
    """random.shuffle driven by the chooser; any other random.* function is recorded as 'unmodelled'"""
    def __init__(self, ch): self.ch = ch; self.shuffles = 0; self.other = []
    def __enter__(self):
        self.saved = {n: getattr(_random, n) for n in ("shuffle", "sample", "choice", "random", "randrange", "randint", "choices")}
        sr = ScriptedRandom(self.ch)
        def shuffle(xs): self.shuffles += 1; sr.shuffle(xs)
        _random.shuffle = shuffle
        for n in ("sample", "choice", "random", "randrange", "randint", "choices"):
            def mk(n):
                def f(*a, **k): self.other.append(n); return self.saved[n](*a, **k)
                return f
            setattr(_random, n, mk(n))
        return self
    def __exit__(self, *a):
        for n, f in self.saved.items(): setattr(_random, n, f)

def make_algo(case, rec):
    sizes = list(case["sizes"]); kinds = case["kinds"]; typ = case["algo"]
    if typ == "custom":
        idx = [list(ix) for ix in case["indices"]]
        msize = [sum(sizes[i] for i in ix) for ix in idx]
        p = {GN.MOTIF_SIZES: sizes, GN.BUILD_FUNCTIONS: [rec.wrap(j, kinds[j]) for j in range(len(idx))],
             GN.EDGE_NAMES: [names_for(kinds[j], msize[j], f"m{j}") for j in range(len(idx))], GN.MOTIF_INDICES: idx}
        cls, enum = GCMAlgorithmCustomMotifs, GCMAlgorithmTypes.MOTIFS
    else:
        p = {GN.MOTIF_SIZES: sizes, GN.BUILD_FUNCTIONS: [rec.wrap(k, kinds[k]) for k in range(len(sizes))], GN.EDGE_NAMES: [f"t{k}" for k in range(len(sizes))]}
        cls, enum = (GCMAlgorithmFast, GCMAlgorithmTypes.FAST) if typ == "fast" else (GCMAlgorithmNetwork, GCMAlgorithmTypes.NETWORK)
    if case.get("via_main"):
        p[GN.GCM_TYPE] = enum.value if case.get("type_as_string", True) else enum
        algo = guarded("GCMAlgorithmMain.load_gcm_algorithm", GCMAlgorithmMain.load_gcm_algorithm, p)
        if type(algo) is not cls: raise Violation("C01.dispatch.class", f"load_gcm_algorithm returned {type(algo).__name__} for type {enum.value}")
    else: algo = guarded(f"{cls.__name__}.__init__", cls, p)
    return algo

def placement_key(calls): return tuple((j, tuple(vs)) for j, vs in calls)

def run_once(case, ch):
    """one run under one RNG resolution; returns (violations, placement key, rng info)"""
    jds = [tuple(r) for r in case["jds"]]; jds_in = list(jds); N = len(jds); sizes = list(case["sizes"]); kinds = case["kinds"]; typ = case["algo"]
    rec = Recorder(); V = []
    algo = make_algo(case, rec)
    with RngPatch(ch) as rp:
        out = guarded(f"{type(algo).__name__}.random_clustered_graph", algo.random_clustered_graph, jds_in)
    calls = rec.calls
    def bad(prop, clause, detail): V.append((f"{prop}.{clause}", detail))
    # ---------------- what was asked for
    if typ == "custom":
        idx = case["indices"]; groups = [(j, ix) for j, ix in enumerate(idx)]
    else: groups = [(k, [k]) for k in range(len(sizes))]
    colsum = [sum(r[c] for r in jds) for c in range(len(sizes))]
    # C01: number of build calls per motif type, size and provenance of the stubs of each call, slot counts
    per = Counter(j for j, _ in calls)
    slot = Counter()
    for j, ix in groups:
        want = colsum[ix[0]] // sizes[ix[0]]
        if per.get(j, 0) != want: bad("C01", "motif_count", f"motif type {j}: {per.get(j, 0)} build calls, expected {want}")
    for j, vs in calls:
        ix = dict(groups)[j]
        if len(vs) != sum(sizes[i] for i in ix): bad("C01", "group_size", f"motif type {j} built from {len(vs)} stubs {vs}, expected {sum(sizes[i] for i in ix)}")
        if any((not isinstance(v, int)) or v < 0 or v >= N for v in vs): bad("C01", "vertex_range", f"vertex outside 0..{N - 1} in {vs}")
        pos = 0
        for i in ix:
            for v in vs[pos:pos + sizes[i]]: slot[(v, i)] += 1
            pos += sizes[i]
    for v in range(N):
        for c in range(len(sizes)):
            if slot[(v, c)] != jds[v][c]: bad("C01", "slots_per_vertex", f"vertex {v} occupies {slot[(v, c)]} slots of topology/orbit {c}, requested {jds[v][c]} (calls {calls})")
    if jds_in != jds: bad("C01", "jds_unmodified", f"the caller's joint degree sequence was modified: {jds_in}")
    # ---------------- observe the output
    if typ == "network":
        G = out.G
        if sorted(G.nodes) != list(range(N)): bad("C01", "network.nodes", f"nodes {sorted(G.nodes)} for N={N}")
        else:
            carried = [G.nodes[n].get(NetworkNames.JOINT_DEGREE) for n in range(N)]
            if [tuple(x) if x is not None else None for x in carried] != jds: bad("C01", "jds_carried", f"vertex annotations {carried} vs {jds}")
        exp_pairs = Counter(frozenset(e) for j, vs in calls for e in ref_edges(kinds[j], vs))
        got_pairs = set(frozenset(e) for e in G.edges())
        if got_pairs != set(exp_pairs): bad("C01", "network.edges", f"edge set {sorted(map(sorted, got_pairs))} vs built {sorted(map(sorted, exp_pairs))}")
        # annotations of edges whose pair occurs once
        mid = 0; exp_attr = {}
        for j, vs in calls:
            for e in ref_edges(kinds[j], vs):
                if exp_pairs[frozenset(e)] == 1: exp_attr[frozenset(e)] = (f"t{j}", mid)
            mid += 1
        id_of_instance = {}; instance_of_id = {}      # the property fixes no particular id values: edges of one instance share an id, distinct instances never do
        for e, (nm, m) in exp_attr.items():
            u, v = (tuple(e) * 2)[:2]; d = G.edges[u, v]
            if d.get(NetworkNames.TOPOLOGY) != nm: bad("C02", "network.topology", f"edge {(u, v)} named {d.get(NetworkNames.TOPOLOGY)!r}, expected {nm!r}")
            got = d.get(NetworkNames.MOTIF_IDS)
            try: hash(got)
            except TypeError: bad("C02", "network.motif_id", f"edge {(u, v)} carries the unhashable motif id {got!r}"); continue
            if got is None or id_of_instance.setdefault(m, got) != got: bad("C02", "network.motif_id", f"edge {(u, v)} of motif instance {m} carries id {got!r}, another edge of that instance carries {id_of_instance.get(m)!r}")
            elif instance_of_id.setdefault(got, m) != m: bad("C02", "network.motif_id", f"motif instances {instance_of_id[got]} and {m} share the id {got!r}")
    else:
        el, tp, mi = list(out.edge_list), list(out.topologies), list(out.motif_id)
        if [tuple(r) for r in out.joint_degrees] != jds: bad("C01", "jds_carried", f"joint_degrees {out.joint_degrees} vs {jds}")
        if not (len(el) == len(tp) == len(mi)): bad("C02", "columns_parallel", f"{len(el)} edges, {len(tp)} names, {len(mi)} motif ids")
        for e in el:
            if not (isinstance(e, (tuple, list)) and len(e) == 2 and all(isinstance(x, int) and 0 <= x < N for x in e)): bad("C02", "entries_are_pairs", f"edge entry {e!r}"); break
        if len(el) == len(tp) == len(mi):
            # expected columns from the recorded build calls, in call order
            exp_e, exp_t, exp_m = [], [], []
            for m, (j, vs) in enumerate(calls):
                es = ref_edges(kinds[j], vs)
                nm = ref_names(kinds[j], len(vs), f"m{j}") if typ == "custom" else [f"t{j}"] * len(es)
                exp_e += es; exp_t += nm; exp_m += [m] * len(es)
            if [tuple(e) for e in el] != exp_e: bad("C02", "block_is_what_the_callback_returned", f"edge column {el} vs callbacks' {exp_e}")
            # ids: entries sharing an id = one call's edges; distinct instances never share an id
            blocks = {}
            for p, m in enumerate(mi): blocks.setdefault(m, []).append(p)
            k = 0; okb = True; pos = 0
            for m_expected, (j, vs) in enumerate(calls):
                n = len(ref_edges(kinds[j], vs))
                if n == 0: continue
                ids = set(mi[pos:pos + n])
                if len(ids) != 1 or blocks.get(next(iter(ids))) != list(range(pos, pos + n)): okb = False
                pos += n
            if not okb or len([1 for _ in blocks]) != sum(1 for j, vs in calls if ref_edges(kinds[j], vs)): bad("C02", "motif_ids_identify_instances", f"motif-id column {mi} for blocks of sizes {[len(ref_edges(kinds[j], vs)) for j, vs in calls]}")
            if tp != exp_t: bad("C02", "names", f"name column {tp} vs expected {exp_t}")
    return V, placement_key(calls), (rp.shuffles, sorted(set(rp.other)))

def reference_distribution(case):
    """independent model of the configuration-model measure: independent uniform permutation of every canonical stub list, grouped in order"""
    jds = case["jds"]; sizes = case["sizes"]; T = len(sizes)
    canon = [[v for v, r in enumerate(jds) for _ in range(r[c])] for c in range(T)]
    per_col = []
    for c in range(T):
        cnt = Counter()
        for perm in itertools.permutations(canon[c]):
            chunks = tuple(tuple(perm[i:i + sizes[c]]) for i in range(0, len(perm), sizes[c])); cnt[chunks] += 1
        tot = sum(cnt.values()); per_col.append({k: (v, tot) for k, v in cnt.items()})
    return per_col

def observed_columns(case, key):
    """project the recorded build calls of one run onto per-column chunk sequences (the order in which chunks were consumed)"""
    sizes = case["sizes"]; T = len(sizes); cols = [[] for _ in range(T)]
    groups = dict(enumerate(case["indices"])) if case["algo"] == "custom" else {k: [k] for k in range(T)}
    for j, vs in key:
        pos = 0
        for i in groups[j]: cols[i].append(tuple(vs[pos:pos + sizes[i]])); pos += sizes[i]
    return cols

def check_case(case, cap):
    """all RNG resolutions (or `cap` of them); returns violations; when the resolutions were exhausted also checks C03 frequencies"""
    seen = {}; total = 0; V = {}; info = None; exhausted = True
    ch = Chooser()
    while True:
        ch.reset()
        vs, key, info = run_once(case, ch)
        for c, d in vs: V.setdefault(c, d)
        seen[key] = seen.get(key, 0) + 1; total += 1
        if total >= cap: exhausted = ch.advance() is False; break
        if not ch.advance(): break
    out = list(V.items())
    if exhausted and not out and case.get("check_distribution", True):
        shuffles, other = info
        if other: return out        # randomness drawn through an unmodelled function: C03 frequencies not decided by this harness
        ref = reference_distribution(case); T = len(case["sizes"])
        # custom motifs pop chunks from the END of each partition: compare as multisets per column after undoing the consumption order
        obs = Counter()
        for key, n in seen.items():
            cols = observed_columns(case, key)
            if case["algo"] == "custom": cols = [list(reversed(c)) for c in cols]
            obs[tuple(tuple(c) for c in cols)] += n
        # expected joint frequency = product of per-column frequencies (independence), as exact fractions of `total`
        from fractions import Fraction
        support = set(itertools.product(*[list(r.keys()) for r in ref]))
        for pl in support | set(obs):
            exp = Fraction(1)
            for c in range(T):
                a = ref[c].get(pl[c]); exp *= Fraction(a[0], a[1]) if a else 0
            got = Fraction(obs.get(pl, 0), total)
            if got != exp:
                out.append(("C03.placement_frequency", f"placement {pl}: frequency {got} over all {total} shuffle outcomes ({shuffles} shuffle calls per run), configuration-model measure gives {exp}")); break
    return out

def gen_cases(tier, rnd, algos):
    """small joint degree sequences whose column sums are divisible by the sizes; several callback shapes; both construction paths"""
    quick = tier == "quick"
    shapes = {1: ["none"], 2: ["clique", "bare_edge", "edge"], 3: ["clique", "cycle", "path2", "star"], 4: ["diamond", "cycle", "clique"]}
    def divisible(jds, sizes): return all(sum(r[c] for r in jds) % sizes[c] == 0 for c in range(len(sizes)))
    out = []
    # single topology, all jds with N<=4, degrees<=2
    for size in (1, 2, 3, 4):
        for N in range(1, 5):
            for col in itertools.product(range(3), repeat=N):
                if sum(col) % size or sum(col) > (6 if quick else 7): continue
                for kind in shapes[size]:
                    if size == 1 and kind != "none": continue
                    out.append(dict(jds=[(d,) for d in col], sizes=[size], kinds=[kind]))
    # two topologies
    for s0, s1 in ((2, 3), (2, 2), (3, 2), (1, 2), (2, 4)):
        for N in (2, 3, 4):
            for _ in range(6 if quick else 30):
                jds = [(rnd.randint(0, 2), rnd.randint(0, 2)) for _ in range(N)]
                if not divisible(jds, [s0, s1]) or sum(r[0] for r in jds) > 6 or sum(r[1] for r in jds) > 6: continue
                out.append(dict(jds=jds, sizes=[s0, s1], kinds=[rnd.choice(shapes[s0]), rnd.choice(shapes[s1])]))
    out.append(dict(jds=[(1, 1)] * 4, sizes=[2, 2], kinds=["clique", "edge"]))        # identical columns: independence across topologies
    out.append(dict(jds=[(2, 0), (0, 2), (1, 1), (1, 1)], sizes=[2, 2], kinds=["bare_edge", "clique"]))
    cases = []
    for c in out:
        for algo in algos:
            if algo == "custom":
                kinds = c["kinds"]
                cases.append(dict(c, algo="custom", indices=[[k] for k in range(len(c["sizes"]))], kinds=kinds))
            else:
                if any(k in ("bare_edge",) for k in c["kinds"]): continue       # a bare edge is only meaningful for the custom-motif generator
                cases.append(dict(c, algo=algo))
    # multi-orbit custom motifs: motif type 0 uses orbits [0, 1]; optional second type [2]
    if "custom" in algos:
        for sizes, idx, kinds in (([1, 2], [[0, 1]], ["star"]), ([1, 1], [[0, 1]], ["bare_edge"]), ([2, 1, 2], [[0], [1, 2]], ["clique", "star"]), ([2, 2], [[0, 1]], ["cycle"]), ([1, 2, 2], [[0, 1], [2]], ["path2", "edge"]),
                                   ([2, 1], [[1, 0]], ["star"]), ([2, 1, 2], [[2, 1], [0]], ["path2", "clique"]), ([1, 1, 2], [[2], [1, 0]], ["edge", "bare_edge"])):
            T = len(sizes)
            for N in (3, 4, 5):
                for _ in range(8 if quick else 40):
                    jds = [tuple(rnd.randint(0, 1 if N > 3 else 2) for _ in range(T)) for _ in range(N)]
                    cs = [sum(r[c] for r in jds) for c in range(T)]
                    if any(cs[c] % sizes[c] for c in range(T)) or any(cs[c] > 6 for c in range(T)): continue
                    if any(len({cs[i] // sizes[i] for i in ix}) != 1 for ix in idx): continue       # all orbits of one motif type need the same number of chunks
                    if sum(cs) == 0: continue
                    cases.append(dict(jds=jds, sizes=sizes, kinds=kinds, algo="custom", indices=idx))
    final = []
    for i, c in enumerate(cases):
        c = dict(c); c["via_main"] = (i % 3 == 1); c["type_as_string"] = (i % 2 == 0); final.append(c)
    return final

def nontrivial(case):
    return sum(sum(r) for r in case["jds"]) > 0
