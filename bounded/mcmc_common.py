"""Shared bounded harness for C11 / C12: the real MarkovChainMonteCarloRewiring.rewire on clean motif networks built by the real
generators (2-cliques, triangles, 4-cycles; N <= 14 quick), full-support targets (C12: random pairings removed or zeroed), limits in
{default, 0, 1, 2, 5}, search limits in {default, 1, 20}; the same seed is re-run with convergence limit 0,1,2,... so that every prefix of
the swap history is observed on the returned graph.  Run-time postconditions of rewire are tagged C11.* / C12.*."""
import copy, itertools, random
from collections import Counter, defaultdict
import networkx as nx
from bounded.common import *
from gcmpy.gcm_algorithm.gcm_algorithm_network import GCMAlgorithmNetwork
from gcmpy.names.gcm_algorithm_names import GCMAlgorithmNames as GN
from gcmpy.names.network_names import NetworkNames as NN
from gcmpy.names.tools_names import ToolsNames as TN
from gcmpy.motif_generators import clique_motif, cycle_motif
from gcmpy.network.network import Network
from gcmpy.tools.joint_excess_joint_degree_matrices import JointExcessJointDegreeMatrices
import gcmpy.tools.markov_chain_monte_carlo_rewiring as mc
import gcmpy.tools.draw_set as ds

class Budget(BaseException): pass

SHAPES = {"2-clique": (2, clique_motif), "3-clique": (3, clique_motif), "4-cycle": (4, cycle_motif), "6-cycle": (6, cycle_motif)}

def clean_network(names, jds, seed):
    """a network from the real generator; retried until clean (each motif on distinct vertices, motifs edge-disjoint, no self-loop)"""
    for attempt in range(200):
        random.seed(seed * 1000 + attempt)
        p = {GN.MOTIF_SIZES: [SHAPES[n][0] for n in names], GN.BUILD_FUNCTIONS: [SHAPES[n][1] for n in names], GN.EDGE_NAMES: list(names)}
        el_alg = GCMAlgorithmNetwork(p)
        # work on the edge list to judge cleanliness before conversion
        from gcmpy.gcm_algorithm.gcm_algorithm_fast import GCMAlgorithmFast
        el = GCMAlgorithmFast(p).random_clustered_graph(list(jds))
        pairs = [frozenset(e) for e in el.edge_list]
        if any(len(e) == 1 for e in pairs) or len(set(pairs)) != len(pairs): continue
        from gcmpy.network.edge_list_to_network import EdgeListToNetwork
        return EdgeListToNetwork.convert(el)
    return None

def excess(jd, t): return tuple(k - (1 if i == t else 0) for i, k in enumerate(jd))

def full_support_target(G, names, drop=None, rnd=None, zero=False):
    """every pairing of excess classes that can occur gets weight 1 (unnormalised weights are fine for a ratio test); `drop` removes/zeroes
    a random subset of pairings that no current edge uses (C12)"""
    ej = {}
    for t, name in enumerate(names):
        classes = sorted({excess(G.nodes[x][NN.JOINT_DEGREE], t) for x in G.nodes if G.nodes[x][NN.JOINT_DEGREE][t] > 0})
        used = set()
        for u, v in G.edges():
            if G.edges[u, v][NN.TOPOLOGY] == name:
                a, b = excess(G.nodes[u][NN.JOINT_DEGREE], t), excess(G.nodes[v][NN.JOINT_DEGREE], t); used.add(a + b); used.add(b + a)
        m = {}
        for a in classes:
            for b in classes:
                if a + b in m: continue
                w = 1.0 + 0.25 * ((hash((a, b)) if a <= b else hash((b, a))) % 5)
                if drop is not None and (a + b) not in used and rnd.random() < drop:
                    if zero: m[a + b] = 0.0; m[b + a] = 0.0
                    continue
                m[a + b] = w; m[b + a] = w
        ej[name] = m
    if rnd is not None and rnd.random() < 0.5: ej = dict(reversed(list(ej.items())))        # dict order carries no meaning: EDGE_NAMES fixes the index of a topology
    M = JointExcessJointDegreeMatrices(); M.ejks = ej; M.topology_names = list(names)
    return M

def snapshot(G): return (sorted((n, repr(sorted(d.items(), key=repr))) for n, d in G.nodes(data=True)), sorted((tuple(sorted(e[:2])), repr(sorted(e[2].items(), key=repr))) for e in G.edges(data=True)))

def motif_shape_ok(H, names):
    """edges sharing a motif id form the original shape on distinct vertices"""
    groups = defaultdict(list)
    for u, v, d in H.edges(data=True): groups[d[NN.MOTIF_IDS]].append((u, v, d[NN.TOPOLOGY]))
    for mid, es in groups.items():
        tops = {t for _, _, t in es}
        if len(tops) != 1: return f"motif {mid} mixes topologies {sorted(tops)}"
        name = next(iter(tops)); size = SHAPES[name][0]; g = nx.Graph([(u, v) for u, v, _ in es])
        if any(u == v for u, v, _ in es): return f"motif {mid} contains a self-loop"
        want_edges = size * (size - 1) // 2 if "clique" in name else size
        if g.number_of_nodes() != size or g.number_of_edges() != want_edges or len(es) != want_edges or not nx.is_connected(g): return f"motif {mid} ({name}) is no longer a {name}: edges {sorted((u, v) for u, v, _ in es)}"
        if "cycle" in name and any(d != 2 for _, d in g.degree()): return f"motif {mid} ({name}) is not a cycle: {sorted(g.edges())}"
    return None

def run_rewire(net, target, conv, search, seed, budget=40000, zero_draws=False):
    params = {TN.NETWORK: net, TN.EJKS: target}
    if conv is not None: params[TN.CONVERGENCE_LIMIT] = conv
    if search is not None: params[TN.SEARCH_LIMIT] = search
    r = guarded("MarkovChainMonteCarloRewiring.__init__", mc.MarkovChainMonteCarloRewiring, params)
    if not isinstance(r._convergence_limit, int) or r._convergence_limit < 0: raise Violation("C11.init.convergence_limit_is_a_count", f"{r._convergence_limit!r}")
    rng = random.Random(seed); calls = [0]
    def tick():
        calls[0] += 1
        if calls[0] > budget: raise Budget()
    saved = (mc.random.random, ds.random.choice)
    def rr():
        tick(); x = rng.random()
        return 0.0 if (zero_draws and x < 0.34) else x          # 0.0 is a value random.random() can return: exercise it
    def ch(seq): tick(); return seq[rng.randrange(len(seq))]
    mc.random.random = rr; ds.random.choice = ch
    try:
        try: H = r.rewire()
        except Budget: return None, r
        except Violation: raise
        except Exception as e:
            import traceback; tb = traceback.extract_tb(e.__traceback__)[-1]
            raise Violation(f"C11.rewire.raises.unexpected({type(e).__name__})", f"{e!r} at line {tb.lineno}")
    finally: mc.random.random, ds.random.choice = saved
    return H, r

def check_case(c):
    names = c["names"]; T = len(names); V = []
    net = clean_network(names, [tuple(j) for j in c["jds"]], c["net_seed"])
    if net is None: return V
    G = net.G
    rnd = random.Random(c["seed"])
    target = full_support_target(G, names, drop=c.get("drop"), rnd=rnd, zero=c.get("zero", False))
    before = snapshot(G); deg0 = {x: Counter(d[NN.TOPOLOGY] for _, _, d in G.edges(x, data=True)) for x in G.nodes}
    in_edges = {frozenset(e) for e in G.edges()}
    def bad(clause, detail): V.append((clause, detail))
    for conv in c["convs"]:
        H, r = run_rewire(net, target, conv, c.get("search"), c["seed"], zero_draws=c.get("zero_draws", False))
        if snapshot(G) != before: bad("C11.rewire.input_untouched", f"the input network was modified (convergence limit {conv})"); return V
        if H is None: continue          # did not terminate within the draw budget: liveness is not claimed
        tag = f"(limit {conv}, search {c.get('search')}, seed {c['seed']})"
        if H is G: bad("C11.rewire.input_untouched", f"rewire returned the input graph object itself {tag}")
        if sorted(H.nodes(data=True), key=repr) != sorted(G.nodes(data=True), key=repr): bad("C11.rewire.same_vertices_and_annotations", tag)
        if H.number_of_edges() != G.number_of_edges(): bad("C11.rewire.same_number_of_edges", f"{H.number_of_edges()} vs {G.number_of_edges()} {tag}")
        loops = [e for e in H.edges() if e[0] == e[1]]
        if loops: bad("C11.rewire.no_self_loop", f"self-loops {loops} {tag}")
        deg1 = {x: Counter(d[NN.TOPOLOGY] for u, v, d in H.edges(x, data=True) for _ in ((0, 1) if u == v else (0,))) for x in H.nodes}
        diff = [x for x in G.nodes if deg0[x] != deg1.get(x)]
        if diff and not loops: bad("C11.rewire.per_vertex_per_topology_degree", f"vertices {diff[:4]}: {[(dict(deg0[x]), dict(deg1[x])) for x in diff[:2]]} {tag}")
        if any(NN.TOPOLOGY not in d or NN.MOTIF_IDS not in d for _, _, d in H.edges(data=True)): bad("C11.rewire.edges_annotated", tag)
        else:
            m = motif_shape_ok(H, names)
            if m: bad("C11.rewire.motif_shape", f"{m} {tag}")
        # C12: every created edge joins an allowed pairing
        for u, v, d in H.edges(data=True):
            if frozenset((u, v)) in in_edges: continue
            t = names.index(d[NN.TOPOLOGY]); a, b = excess(G.nodes[u][NN.JOINT_DEGREE], t), excess(G.nodes[v][NN.JOINT_DEGREE], t)
            w = target.ejks[d[NN.TOPOLOGY]].get(a + b, None)
            if w is None or not w > 0: bad("C12.rewire.created_edges_are_allowed_pairings", f"created {d[NN.TOPOLOGY]} edge {(u, v)} with pairing {a + b}: target weight {w} {tag}"); break
    return V

def gen_cases(tier, rnd, c12=False):
    quick = tier == "quick"; out = []
    mixes = [(["2-clique"], 1), (["2-clique", "3-clique"], 2), (["3-clique"], 1), (["2-clique", "4-cycle"], 2), (["2-clique", "3-clique", "4-cycle"], 3)]
    if not quick: mixes.append((["2-clique", "6-cycle"], 2))
    for i in range(60 if quick else 600):
        names, T = mixes[i % len(mixes)]; N = rnd.randint(8, 14 if quick else 24)
        jds = []
        dense = i % 4 == 3          # many motifs per vertex: motifs that share vertices (self-loop / duplicate-edge corner cases)
        for _ in range(N): jds.append(tuple(rnd.choice([0, 1, 1, 2, 3] if names[t] == "2-clique" else ([1, 2, 2, 3] if dense else [0, 0, 1, 1, 2])) for t in range(T)))
        # pad to satisfy the handshake condition
        for t in range(T):
            size = SHAPES[names[t]][0]
            while sum(j[t] for j in jds) % size: k = rnd.randrange(N); jds[k] = tuple(x + (1 if i2 == t else 0) for i2, x in enumerate(jds[k]))
        if sum(sum(j) for j in jds) == 0: continue
        convs = rnd.choice([[0, 1, 2], [None], [0, 1, 2, 5], [0], [2, 5]])
        case = dict(names=names, jds=jds, net_seed=rnd.randint(0, 10 ** 6), seed=rnd.randint(0, 10 ** 6), convs=convs, search=rnd.choice([None, 1, 20, 20]))
        if c12: case["drop"] = rnd.choice([0.3, 0.6, 0.9]); case["zero"] = rnd.random() < 0.5; case["zero_draws"] = rnd.random() < 0.5
        out.append(case)
    return out
