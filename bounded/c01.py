"""C01 bounded stand-in / replay harness (shared generator harness, clauses of C01 only) -- see bounded/gen_common.py"""
import sys
from bounded.common import *
from bounded import gen_common as G
PID = "C01"
BOUND = {"quick": "jds with N <= 4 (custom: <= 5), <= 3 columns, degrees <= 2, sizes 1..4, <= 6 stubs per column; callbacks clique/cycle/diamond/path2/star/bare edge/one-edge list/empty; fast, network and custom generators, direct and via load_gcm_algorithm; every shuffle outcome up to 720 per case",
         "thorough": "same shapes, more sampled two-topology and multi-orbit cases; every shuffle outcome up to 6000 per case"}
RULE = "enumerated/sampled divisible joint degree sequences x callback shapes x generator type x construction path; each case is run under every resolution of random.shuffle (Fisher-Yates decisions); non-trivial = at least one stub"
EXHAUSTIVE = False
BUDGET_S = {"quick": 50, "thorough": 900}
nontrivial = G.nontrivial
def cases(tier, rnd):
    cs = G.gen_cases(tier, rnd, ["fast", "network", "custom"]); rnd.shuffle(cs)
    for c in cs: c["cap"] = 720 if tier == "quick" else 6000; yield c
def check(case):
    out = []
    for clause, detail in G.check_case(case, case.get("cap", 720)):
        if clause.startswith("C0") and not clause.startswith(PID + "."): continue
        out.append((clause, detail))
    return out
if __name__ == "__main__": main(sys.modules[__name__])
