"""C05 bounded stand-in / replay harness: the real sample_jds_from_jdd / handshaking_lemma on small distributions, every resolution of
random.choices (which keys are drawn) and random.randrange (which vertices are padded).  Run-time postconditions = the clauses of
contracts/joint_degree.py (len, never_removed, minimal_padding, divisible, rows_are_tuples, aligned weighted draw) plus usability downstream."""
import itertools, sys
from bounded.common import *
import gcmpy.joint_degree.joint_degree as jdmod
from gcmpy.joint_degree.joint_degree_loaders.joint_degree_manual import JointDegreeManual
from gcmpy.joint_degree.joint_degree_loaders.joint_degree_empirical import JointDegreeEmpirical
from gcmpy.names.joint_degree_names import JointDegreeNames as N_

BOUND = {"quick": "distributions with <= 3 keys of dimension <= 2 and entries <= 2; sizes in {1,2,3}^T; N <= 3; every choices/randrange resolution (cap 400 per case); plus 2-step re-load histories",
         "thorough": "distributions with <= 3 keys of dimension <= 2 and entries <= 3; sizes in {1,2,3,4}^T; N <= 4; every choices/randrange resolution (cap 3000 per case); plus 2-step re-load histories"}
RULE = "enumerated key sets x size vectors x N; each case runs every RNG resolution; non-trivial = some column needs padding for some draw"
EXHAUSTIVE = False
BUDGET_S = {"quick": 45, "thorough": 900}

def cases(tier, rnd):
    top = 2 if tier == "quick" else 3; sizes_dom = (1, 2, 3) if tier == "quick" else (1, 2, 3, 4); Nmax = 3 if tier == "quick" else 4
    for T in (1, 2):
        allkeys = list(itertools.product(range(top + 1), repeat=T))
        keysets = [ks for r in (1, 2, 3) for ks in itertools.combinations(allkeys, r)]
        if len(keysets) > (60 if tier == "quick" else 400): keysets = rnd.sample(keysets, 60 if tier == "quick" else 400)
        for ks in keysets:
            for sizes in itertools.product(sizes_dom, repeat=T):
                for N in range(1, Nmax + 1):
                    w = [rnd.choice([0.5, 1.0, 2.0, 3.5]) for _ in ks]
                    order = list(ks); rnd.shuffle(order)          # the dictionary's insertion order is arbitrary (not sorted): keys and weights must stay aligned through it
                    yield {"kind": "manual", "keys": [tuple(k) for k in order], "weights": w, "sizes": list(sizes), "N": N}
    # histories: sample, re-load the distribution on the same object, sample again (the draw must follow the CURRENT distribution)
    for i in range(20 if tier == "quick" else 100):
        T = rnd.choice((1, 2)); mk = lambda: tuple(rnd.randint(0, 3) for _ in range(T))
        yield {"kind": "reload", "jds1": [mk() for _ in range(rnd.randint(1, 3))], "jds2": [mk() for _ in range(rnd.randint(1, 3))], "sizes": [rnd.choice((1, 2, 3)) for _ in range(T)], "N": rnd.randint(1, 3)}

def nontrivial(case):
    if case["kind"] != "manual": return True
    return any(s > 1 for s in case["sizes"]) and any(any(k) for k in case["keys"])

class Rng:
    def __init__(self, ch): self.ch = ch; self.calls = []
    def choices(self, population=None, weights=None, *, cum_weights=None, k=1):
        pop = list(population)
        if weights is None and cum_weights is not None:
            cw = list(cum_weights); weights = [cw[0]] + [cw[i] - cw[i - 1] for i in range(1, len(cw))]
        out = [pop[self.ch.pick(len(pop))] for _ in range(k)]
        self.calls.append(dict(population=pop, weights=None if weights is None else list(weights), k=k, drawn=list(out)))
        return out
    def randrange(self, a, b=None):
        if b is None: a, b = 0, a
        return a + self.ch.pick(b - a)

def post(drawn, out, sizes, N, jdd, call):
    T = len(sizes)
    if call is None: raise Violation("JointDegree.sample_jds_from_jdd.weighted_draw", "random.choices was not called exactly once")
    if call["k"] != N: raise Violation("JointDegree.sample_jds_from_jdd.draws_N", f"choices called with k={call['k']} for N={N}")
    pop, w = call["population"], call["weights"]
    if set(pop) != set(jdd) or len(pop) != len(set(pop)): raise Violation("JointDegree.sample_jds_from_jdd.every_key_offered", f"population {pop} vs keys {list(jdd)}")
    if w is None or len(w) != len(pop) or any(abs(wi - jdd[p]) > 1e-12 * max(1, abs(jdd[p])) for p, wi in zip(pop, w)):
        raise Violation("JointDegree.sample_jds_from_jdd.weights_aligned_with_keys", f"population {pop} weights {w} vs distribution {jdd}")
    if not isinstance(out, list) or len(out) != N: raise Violation("JointDegree.sample_jds_from_jdd.len", f"{len(out) if hasattr(out, '__len__') else out} entries for N={N}")
    for v, row in enumerate(out):
        if not isinstance(row, tuple): raise Violation("JointDegree.handshaking_lemma.rows_are_tuples", f"entry {v} is {row!r}")
        if len(row) != T or any((not isinstance(x, int)) or x < 0 for x in row): raise Violation("JointDegree.handshaking_lemma.rowlen", f"entry {v} is {row!r}")
    # "differs from N weighted draws only by added stubs, never a removal": the ORDER of the returned sequence is not part of the statement -- some matching of the returned
    # entries with the drawn ones must dominate them entry by entry (N <= 4 here: all matchings are tried)
    if not any(all(out[v][c] >= drawn[pi[v]][c] for v in range(N) for c in range(T)) for pi in itertools.permutations(range(N))):
        raise Violation("JointDegree.handshaking_lemma.never_removed", f"drawn {drawn} returned {out}: no assignment of returned entries to drawn ones without a removal")
    for c in range(T):
        c0 = sum(r[c] for r in drawn); c1 = sum(r[c] for r in out); d = (sizes[c] - c0 % sizes[c]) % sizes[c]
        if c1 % sizes[c] != 0: raise Violation("JointDegree.handshaking_lemma.divisible", f"topology {c}: total {c1} not divisible by {sizes[c]} (drawn {drawn} -> {out})")
        if c1 != c0 + d: raise Violation("JointDegree.handshaking_lemma.minimal_padding", f"topology {c}: drawn total {c0}, returned {c1}, minimal padding {d}")
    try: hash(tuple(out)); JointDegreeEmpirical({N_.MOTIF_SIZES: list(sizes), N_.JDS: out})
    except Exception as e: raise Violation("JointDegree.sample_jds_from_jdd.usable_as_jds", f"returned sequence rejected downstream: {e!r}")

def run_one(ch, obj, N, sizes):
    rng = Rng(ch); saved = (jdmod.random.choices, jdmod.random.randrange)
    jdmod.random.choices, jdmod.random.randrange = rng.choices, rng.randrange
    try:
        jdd = dict(obj.jdd)
        out = guarded("JointDegree.sample_jds_from_jdd", obj.sample_jds_from_jdd, N)
    finally: jdmod.random.choices, jdmod.random.randrange = saved
    call = rng.calls[0] if len(rng.calls) == 1 else None
    drawn = call["drawn"] if call is not None else None
    post(drawn, out, sizes, N, jdd, call)
    if dict(obj.jdd) != jdd: raise Violation("JointDegree.sample_jds_from_jdd.jdd_unchanged", "sampling modified the distribution")

def check(case):
    cap = 400
    if case["kind"] == "manual":
        def one(ch):
            obj = guarded("JointDegreeManual.__init__", JointDegreeManual, {N_.JDD: dict(zip(case["keys"], case["weights"])), N_.MOTIF_SIZES: list(case["sizes"])})
            run_one(ch, obj, case["N"], case["sizes"])
        for _ in all_scripts(one, cap=cap): pass
    else:
        def one(ch):
            obj = guarded("JointDegreeEmpirical.__init__", JointDegreeEmpirical, {N_.MOTIF_SIZES: list(case["sizes"]), N_.JDS: list(case["jds1"])})
            run_one(ch, obj, case["N"], case["sizes"])
            obj.empirical_jds = list(case["jds2"]); guarded("JointDegreeEmpirical.create_jdd", obj.create_jdd)
            run_one(ch, obj, case["N"], case["sizes"])
        for _ in all_scripts(one, cap=60): pass
    return []
if __name__ == "__main__": main(sys.modules[__name__])
