"""C15 bounded stand-in / replay harness: the real AutomatedEquation.automated_equation executed on an exact polynomial ring (phi and one
symbol u_v per vertex), compared AS A POLYNOMIAL with the brute-force expectation, for every connected atlas graph with <= 5 (thorough 6)
vertices and every focal vertex, larger cliques/cycles, and interleaved call histories on one shared evaluator (different u, phi, focal)."""
import itertools, sys
import networkx as nx
from networkx.generators.atlas import graph_atlas_g
from bounded.common import *
from bounded.poly import Poly, brute_expectation
from gcmpy.message_passing.equations.automated_equation import AutomatedEquation

BOUND = {"quick": "every connected atlas graph with 2..5 vertices x every focal vertex; cliques <= 6, cycles <= 8; 40 shared-evaluator histories of 3-5 calls", "thorough": "every connected atlas graph with 2..6 vertices (<= 11 edges) x every focal vertex; cliques <= 7, cycles <= 10; 400 histories"}
RULE = "atlas enumeration + seeded histories; complete in phi and u for each motif (polynomial identity); non-trivial = motif with a cycle"
EXHAUSTIVE = True
BUDGET_S = {"quick": 55, "thorough": 1500}
_brute = {}
def connected_atlas(nmax, emax=99):
    return [g for g in graph_atlas_g() if 2 <= g.number_of_nodes() <= nmax and g.number_of_edges() <= emax and nx.is_connected(g)]
def cases(tier, rnd):
    nmax = 5 if tier == "quick" else 6
    gs = connected_atlas(nmax, 10 if tier == "quick" else 11)
    hist = []
    for h in range(40 if tier == "quick" else 400):
        calls = []
        pool = rnd.sample(range(len(gs)), 2)
        for _ in range(rnd.randint(3, 5)):
            gi = rnd.choice(pool); g = gs[gi]
            calls.append(dict(name=f"m{gi}", edges=[list(e) for e in g.edges()], root=rnd.choice(list(g.nodes())), usym=rnd.choice("abc"), psym=rnd.choice(["p", "q"]), uconst=rnd.random() < 0.2))
        hist.append(dict(kind="history", calls=calls))
    k = 0
    for gi, g in enumerate(gs):
        for root in g.nodes():
            yield dict(kind="single", name=f"g{gi}", edges=[list(e) for e in g.edges()], root=root)
        while k < len(hist) and k * len(gs) <= gi * len(hist): yield hist[k]; k += 1
    for h in hist[k:]: yield h
    for n in range(3, (7 if tier == "quick" else 8)): yield dict(kind="single", name=f"K{n}", edges=[list(e) for e in nx.complete_graph(n).edges()], root=0)
    for n in range(3, (9 if tier == "quick" else 11)): yield dict(kind="single", name=f"C{n}", edges=[list(e) for e in nx.cycle_graph(n).edges()], root=n // 2)
def nontrivial(c):
    es = c["edges"] if c["kind"] == "single" else c["calls"][0]["edges"]
    return len(es) >= len({x for e in es for x in e})

def one_call(AE, name, edges, root, usym, psym, uconst=False):
    G = nx.Graph(name=name); G.add_edges_from([tuple(e) for e in edges])
    p = Poly.var(psym); u = {n: (Poly.const(1) * 1 if uconst else Poly.var(f"{usym}{n}")) for n in G.nodes()}
    nx.set_node_attributes(G, u, "u")
    got = guarded("AutomatedEquation.automated_equation", AE.automated_equation, G, p, root)
    key = (tuple(sorted(map(tuple, map(sorted, edges)))), root, usym, psym, uconst)
    if key not in _brute: _brute[key] = brute_expectation(G, root, p, u)
    return Poly.const(got), _brute[key]

def check(c):
    if c["kind"] == "single":
        got, exp = one_call(AutomatedEquation(), c["name"], c["edges"], c["root"], "u", "p")
        if not (got == exp): raise Violation("AutomatedEquation.automated_equation.equals_exact_expectation", f"motif {c['edges']} focal {c['root']}: polynomial differs from the brute-force expectation; difference {repr(got - exp)[:200]}")
    else:
        AE = AutomatedEquation()
        for i, cl in enumerate(c["calls"]):
            got, exp = one_call(AE, cl["name"], cl["edges"], cl["root"], cl["usym"], cl["psym"], cl.get("uconst", False))
            if not (got == exp):
                fresh_got, _ = one_call(AutomatedEquation(), cl["name"], cl["edges"], cl["root"], cl["usym"], cl["psym"], cl.get("uconst", False))
                clause = "AutomatedEquation.automated_equation.independent_of_earlier_calls" if fresh_got == exp else "AutomatedEquation.automated_equation.equals_exact_expectation"
                raise Violation(clause, f"call #{i + 1} of the history (motif {cl['name']}, focal {cl['root']}, u symbols {cl['usym']}, phi symbol {cl['psym']}) differs from the exact expectation; a fresh evaluator {'agrees' if fresh_got == exp else 'also differs'}")
    return []
if __name__ == "__main__": main(sys.modules[__name__])
