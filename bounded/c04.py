"""C04 bounded stand-in / replay harness: the real EdgeListToNetwork.convert and NetworkToEdgeList.convert on every edge list with
<= 3 entries over <= 3 vertices (self-loops, repeated pairs, both orientations, zero-degree vertices, edge-less lists), names and motif ids
sampled so that edges of one motif may carry different names.  Run-time postconditions = the clauses of contracts/convert.py."""
import itertools, sys
from collections import Counter
from bounded.common import *
from gcmpy.network.edge_list import LightWeightEdgeList
from gcmpy.network.edge_list_to_network import EdgeListToNetwork
from gcmpy.network.network_to_edge_list import NetworkToEdgeList
from gcmpy.names.network_names import NetworkNames as NN

BOUND = {"quick": "all edge lists with <= 3 entries over 3 vertices (thorough: <= 4 entries over 4 vertices, sampled), 0..2 extra zero-degree vertices, 2 name/id assignments each",
         "thorough": "all edge lists with <= 3 entries over 3 vertices plus 20000 sampled lists with <= 5 entries over <= 5 vertices"}
RULE = "enumerated pair sequences x sampled names/motif ids x number of vertices; non-trivial = at least one edge entry or at least one zero-degree vertex"
EXHAUSTIVE = False
def cases(tier, rnd):
    pairs = [(u, v) for u in range(3) for v in range(3)]
    for n in range(0, 4):
        for es in itertools.product(pairs, repeat=n):
            top = max([max(e) for e in es], default=-1) + 1
            for extra in ((0, 1) if n else (0, 1, 2)):
                for rep in range(2):
                    N = top + extra
                    yield dict(N=N, edges=[list(e) for e in es], names=[rnd.choice("ab") for _ in es], ids=[rnd.randint(0, 1) for _ in es], jds=[(rnd.randint(0, 3), rnd.randint(0, 2)) for _ in range(N)])
    if tier == "thorough":
        for _ in range(20000):
            N = rnd.randint(1, 5); n = rnd.randint(0, 5)
            yield dict(N=N, edges=[[rnd.randrange(N), rnd.randrange(N)] for _ in range(n)], names=[rnd.choice("abc") for _ in range(n)], ids=[rnd.randint(0, 2) for _ in range(n)], jds=[(rnd.randint(0, 3),) for _ in range(N)])
def nontrivial(c): return bool(c["edges"]) or c["N"] > 0

def check(c):
    N = c["N"]; edges = [tuple(e) for e in c["edges"]]; jds = [tuple(j) for j in c["jds"]]
    el = LightWeightEdgeList(); el.joint_degrees = list(jds); el.edge_list = list(edges); el.topologies = list(c["names"]); el.motif_id = list(c["ids"])
    net = guarded("EdgeListToNetwork.convert", EdgeListToNetwork.convert, el)
    G = net.G
    if (el.joint_degrees, el.edge_list, el.topologies, el.motif_id) != (jds, edges, c["names"], c["ids"]): raise Violation("EdgeListToNetwork.convert.input_unchanged", "the edge list was modified")
    if sorted(G.nodes) != list(range(N)): raise Violation("EdgeListToNetwork.convert.nodes", f"nodes {sorted(G.nodes)} for {N} joint degrees")
    for n in range(N):
        if G.nodes[n].get(NN.JOINT_DEGREE) != jds[n]: raise Violation("EdgeListToNetwork.convert.joint_degree", f"vertex {n} annotated {G.nodes[n].get(NN.JOINT_DEGREE)!r}, expected {jds[n]}")
    want = {frozenset(e) for e in edges}; got = {frozenset(e) for e in G.edges()}
    if want != got: raise Violation("EdgeListToNetwork.convert.edges", f"edge set {sorted(map(sorted, got))} vs pairs {sorted(map(sorted, want))}")
    mult = Counter(frozenset(e) for e in edges)
    for i, e in enumerate(edges):
        d = G.edges[e]
        if NN.TOPOLOGY not in d or NN.MOTIF_IDS not in d: raise Violation("EdgeListToNetwork.convert.all_edges_annotated", f"edge {e} lacks an annotation: {d}")
        if mult[frozenset(e)] == 1 and (d[NN.TOPOLOGY], d[NN.MOTIF_IDS]) != (c["names"][i], c["ids"][i]):
            raise Violation("EdgeListToNetwork.convert.attrs_once", f"edge {e} occurs once with ({c['names'][i]!r}, {c['ids'][i]}) but carries ({d[NN.TOPOLOGY]!r}, {d[NN.MOTIF_IDS]})")
    before = (sorted(G.nodes(data=True), key=repr), sorted(G.edges(data=True), key=repr))
    back = guarded("NetworkToEdgeList.convert", NetworkToEdgeList.convert, net)
    if (sorted(G.nodes(data=True), key=repr), sorted(G.edges(data=True), key=repr)) != before: raise Violation("NetworkToEdgeList.convert.input_unchanged", "the network was modified")
    if [tuple(j) for j in back.joint_degrees] != jds: raise Violation("RoundTrip.roundtrip.same_joint_degrees", f"joint degrees after the round trip {back.joint_degrees} vs {jds}")
    if not (len(back.edge_list) == len(back.topologies) == len(back.motif_id)): raise Violation("NetworkToEdgeList.convert.columns_parallel", f"{len(back.edge_list)}/{len(back.topologies)}/{len(back.motif_id)}")
    bk = [frozenset(e) for e in back.edge_list]
    if len(bk) != len(set(bk)): raise Violation("RoundTrip.roundtrip.each_edge_once", f"{back.edge_list}")
    if set(bk) != want: raise Violation("RoundTrip.roundtrip.no_edge_lost" if want - set(bk) else "RoundTrip.roundtrip.no_edge_invented", f"edges after the round trip {back.edge_list} vs {edges}")
    for q, e in enumerate(back.edge_list):
        if (back.topologies[q], back.motif_id[q]) != (G.edges[e][NN.TOPOLOGY], G.edges[e][NN.MOTIF_IDS]): raise Violation("NetworkToEdgeList.convert.topologies", f"entry {q} {e}: ({back.topologies[q]!r}, {back.motif_id[q]}) vs network ({G.edges[e][NN.TOPOLOGY]!r}, {G.edges[e][NN.MOTIF_IDS]})")
        i = next(i for i, x in enumerate(edges) if frozenset(x) == frozenset(e))
        if mult[frozenset(e)] == 1 and (back.topologies[q], back.motif_id[q]) != (c["names"][i], c["ids"][i]): raise Violation("RoundTrip.roundtrip.annotations_of_single_entries_survive", f"edge {e}")
    return []
if __name__ == "__main__": main(sys.modules[__name__])
