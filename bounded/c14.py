"""C14 bounded stand-in / replay harness: the real degree-distribution algebra (mean joint degree, excess distributions, inversion, row sums of
mixing matrices, key halves, network histogram) with exact-Fraction oracles; supports of <= 5 keys over 1-4 topologies with degrees <= 3 (zero
components, unequal supports), arbitrary topology names and dict orders; clean annotated networks for the cross-module identity."""
import itertools, sys
from fractions import Fraction as F
from collections import Counter, defaultdict
import networkx as nx
from bounded.common import *
from gcmpy.tools.average_joint_degree_from_jdd import AverageJointDegreeFromJDD
from gcmpy.tools.joint_excess_from_jdd import JointExcessfromJDD
from gcmpy.tools.joint_degree_from_excess import JointDegreeFromExcess
from gcmpy.tools.joint_excess_from_ejk import JointExcessFromEjk
from gcmpy.tools.joint_excess_joint_degree_matrices import JointExcessJointDegreeMatrices
from gcmpy.tools.joint_degree_distribution_from_network import JointDegreeDistributionFromNetwork
from gcmpy.tools.joint_excess_joint_degree import JointExcessJointDegree
from gcmpy.names.tools_names import ToolsNames as TN
from gcmpy.names.network_names import NetworkNames as NN

BOUND = {"quick": "600 distributions with <= 5 keys over 1-4 topologies, degrees <= 3; 200 annotated networks with <= 7 vertices", "thorough": "8000 distributions, 3000 networks with <= 10 vertices"}
RULE = "seeded supports and weights (Fractions), random topology names and dict orders; non-trivial = >= 2 keys"
EXHAUSTIVE = False
def cases(tier, rnd):
    nd, nn = (600, 200) if tier == "quick" else (8000, 3000)
    for _ in range(nd):
        T = rnd.randint(1, 4); keys = list({tuple(rnd.randint(0, 3) for _ in range(T)) for _ in range(rnd.randint(1, 5))})
        if rnd.random() < .7: keys.append(tuple(rnd.randint(1, 3) for _ in range(T)))          # some joint degree positive in every topology
        keys = list(dict.fromkeys(keys)); w = [rnd.randint(1, 9) for _ in keys]
        yield dict(kind="dist", T=T, keys=keys, w=w, names=rnd.sample(["2-clique", "3-clique", "red", "blue-2", "z", "a"], T), perm=rnd.sample(range(T), T))
    for _ in range(nd // 3):
        T = rnd.randint(1, 3); halves = list({tuple(rnd.randint(0, 2) for _ in range(T)) for _ in range(rnd.randint(1, 4))}); names = rnd.sample(["2-clique", "tri", "x", "red"], rnd.randint(1, 2))
        yield dict(kind="matrix", T=T, names=names, mats=[[[list(a), list(b), rnd.randint(1, 9)] for a in halves for b in halves if rnd.random() < 0.7] for _ in names])
    for _ in range(nn):
        n = rnd.randint(2, 7 if tier == "quick" else 10); T = rnd.randint(1, 3); pairs = [(u, v) for u in range(n) for v in range(u + 1, n)]; rnd.shuffle(pairs)
        yield dict(kind="net", n=n, T=T, edges=[[u, v, rnd.randrange(T)] for u, v in pairs[:rnd.randint(1, len(pairs))]], names=rnd.sample(["2-clique", "tri", "x", "red"], T))
def nontrivial(c): return c["kind"] in ("net", "matrix") or len(c["keys"]) >= 2
def close(a, b): return abs(float(a) - float(b)) <= 1e-12 * max(1.0, abs(float(b)))
def cmp(got, exp, clause, tag):
    if set(got) != set(exp): raise Violation(clause + ".support", f"keys {sorted(got)[:6]} vs {sorted(exp)[:6]} {tag}")
    for k in exp:
        if not close(got[k], exp[k]): raise Violation(clause, f"{k}: {got[k]} vs {exp[k]} {tag}")

def check(c):
    if c["kind"] == "dist":
        T = c["T"]; tot = sum(c["w"]); P = {tuple(k): F(w, tot) for k, w in zip(c["keys"], c["w"])}; Pf = {k: float(v) for k, v in P.items()}; tag = f"P = {dict((k, str(v)) for k, v in P.items())}"
        avg = guarded("AverageJointDegreeFromJDD.get_average_joint_degrees", AverageJointDegreeFromJDD.get_average_joint_degrees, dict(Pf))
        exp_avg = [sum(k[i] * p for k, p in P.items()) for i in range(T)]
        if len(avg) != T or any(not close(a, b) for a, b in zip(avg, exp_avg)): raise Violation("AverageJointDegreeFromJDD.get_average_joint_degrees.weighted_mean", f"{avg} vs {[str(x) for x in exp_avg]} {tag}")
        if any(a == 0 for a in exp_avg): return []
        qs = guarded("JointExcessfromJDD.get_joint_excess_distributions", JointExcessfromJDD.get_joint_excess_distributions, dict(Pf))
        exp_q = []
        for i in range(T):
            q = {}
            for k, p in P.items():
                if k[i] > 0: q[tuple(x - (1 if j == i else 0) for j, x in enumerate(k))] = k[i] * p / exp_avg[i]
            exp_q.append(q)
        if len(qs) != T: raise Violation("JointExcessfromJDD.get_joint_excess_distributions.one_per_topology", f"{len(qs)} {tag}")
        for i in range(T):
            cmp(qs[i], exp_q[i], "JointExcessfromJDD.get_joint_excess_distributions.q_i_formula", f"topology {i} {tag}")
            if not close(sum(qs[i].values()), 1): raise Violation("JointExcessfromJDD.get_joint_excess_distributions.sums_to_one", f"topology {i}: {sum(qs[i].values())} {tag}")
        # inversion with arbitrary names; the dict may be laid out in another order than the list of names
        names = c["names"]
        if any(all(x > 0 for x in k) for k in P):
            qd = {names[i]: {k: float(v) for k, v in exp_q[i].items()} for i in c["perm"]}
            back = guarded("JointDegreeFromExcess.get_joint_degree_distribution", JointDegreeFromExcess.get_joint_degree_distribution, qd, list(names))
            nz = {k: p for k, p in P.items() if any(k)}; Z = sum(nz.values())
            cmp(back, {k: p / Z for k, p in nz.items()}, "JointDegreeFromExcess.get_joint_degree_distribution.inverts_the_excess_distributions", f"names {names}, dict order {[names[i] for i in c['perm']]} {tag}")
        # conversions between list and dict forms
        d = guarded("JointExcessfromJDD.convert_list_qks_to_dict", JointExcessfromJDD.convert_list_qks_to_dict, qs, list(names))
        if list(d) != list(names) or any(d[names[i]] is not qs[i] for i in range(T)): raise Violation("JointExcessfromJDD.convert_list_qks_to_dict.aligned", tag)
        l = guarded("JointExcessfromJDD.convert_dict_qks_to_list", JointExcessfromJDD.convert_dict_qks_to_list, d, list(reversed(names)))
        if any(l[i] is not qs[T - 1 - i] for i in range(T)): raise Violation("JointExcessfromJDD.convert_dict_qks_to_list.aligned", tag)
    elif c["kind"] == "matrix":
        T = c["T"]; ej = {}
        for name, rows in zip(c["names"], c["mats"]):
            ej[name] = {tuple(a) + tuple(b): float(w) for a, b, w in rows}
        if any(not m for m in ej.values()): return []
        M = guarded("JointExcessJointDegreeMatrices.__init__", JointExcessJointDegreeMatrices, {TN.EJKS: ej, TN.EDGE_NAMES: list(c["names"])})
        qs = guarded("JointExcessFromEjk.get_excess_joint_distributions", JointExcessFromEjk.get_excess_joint_distributions, M)
        for name in c["names"]:
            rows = defaultdict(float)
            for key, v in ej[name].items(): rows[key[:T]] += v
            cmp(qs[name], dict(rows), "JointExcessFromEjk.get_excess_joint_distributions.row_sums", f"(arbitrary, not necessarily symmetric matrix) {name}: {ej[name]}")
    else:
        n, T, names = c["n"], c["T"], c["names"]; G = nx.Graph(); G.add_nodes_from(range(n)); deg = defaultdict(lambda: [0] * T)
        for u, v, t in c["edges"]: G.add_edge(u, v); G.edges[u, v][NN.TOPOLOGY] = names[t]; G.edges[u, v][NN.MOTIF_IDS] = 0; deg[u][t] += 1; deg[v][t] += 1
        for x in range(n): G.nodes[x][NN.JOINT_DEGREE] = tuple(deg[x])
        PK = guarded("JointDegreeDistributionFromNetwork.get_joint_degree_distribution", JointDegreeDistributionFromNetwork.get_joint_degree_distribution, G)
        cnt = Counter(tuple(deg[x]) for x in range(n)); P = {k: F(v, n) for k, v in cnt.items()}
        cmp(PK, P, "JointDegreeDistributionFromNetwork.get_joint_degree_distribution.vertex_histogram", f"net {c['edges']}")
        M = JointExcessJointDegree({TN.NETWORK: G, TN.EDGE_NAMES: list(names)}).get_ejks()
        M2 = guarded("JointExcessJointDegreeMatrices.__init__", JointExcessJointDegreeMatrices, {TN.EJKS: M.ejks, TN.EDGE_NAMES: list(names)})
        for name in names:
            halves = set()
            for key in M.ejks[name]: halves.add(key[:T]); halves.add(key[T:])
            if set(map(tuple, M2.excess_degree_keys[name])) != halves or len(M2.excess_degree_keys[name]) != len(halves): raise Violation("JointExcessJointDegreeMatrices.get_excess_degree_keys.the_two_halves_of_every_key", f"{name}: {M2.excess_degree_keys[name]} vs {sorted(halves)}")
        qs = guarded("JointExcessFromEjk.get_excess_joint_distributions", JointExcessFromEjk.get_excess_joint_distributions, M2)
        for t, name in enumerate(names):
            rows = defaultdict(F)
            for key, v in M.ejks[name].items(): rows[key[:T]] += F(v).limit_denominator(10 ** 9)
            cmp(qs[name], {a: v for a, v in rows.items()}, "JointExcessFromEjk.get_excess_joint_distributions.row_sums", f"{name}")
            mean = sum(k[t] * p for k, p in P.items())
            if mean and M.ejks[name]:
                q = {tuple(x - (1 if j == t else 0) for j, x in enumerate(k)): k[t] * p / mean for k, p in P.items() if k[t] > 0}
                cmp(qs[name], q, "JointExcessFromEjk.get_excess_joint_distributions.equals_excess_distribution_of_the_network", f"{name} net {c['edges']}")
    return []
if __name__ == "__main__": main(sys.modules[__name__])
