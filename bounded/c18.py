"""C18 bounded stand-in / replay harness: the real bond_percolate on every atlas graph with <= 5 edges (plus isolated vertices, edge and
node attributes), phi on the grid {0, 1/4, 1/2, 3/4, 1}; random.random is scripted over EVERY sequence of draws from {0, 1/4, 1/2, 3/4}
(i.i.d. uniform on that grid, so P(draw < phi) = phi exactly) and the exact distribution of the returned value is compared with the
definition: each edge kept independently with probability phi, largest component / N.  Order-of-draw agnostic."""
import itertools, sys, copy
from fractions import Fraction as F
from collections import Counter
import networkx as nx
from networkx.generators.atlas import graph_atlas_g
from bounded.common import *
import gcmpy.tools.bond_percolate as bp

GRID = [0.0, 0.25, 0.5, 0.75]
BOUND = {"quick": "atlas graphs with 1..5 vertices and <= 5 edges, 0-2 extra isolated vertices, phi in {0,1/4,1/2,3/4,1}, all 4^M draw sequences", "thorough": "atlas graphs with <= 6 vertices and <= 6 edges, same grids"}
RULE = "every graph in the bound x phi grid; each case enumerates all draw sequences; non-trivial = at least 2 edges"
EXHAUSTIVE = True
BUDGET_S = {"quick": 50, "thorough": 1200}
def cases(tier, rnd):
    nmax, mmax = (5, 5) if tier == "quick" else (6, 6)
    for g in graph_atlas_g():
        if not (1 <= g.number_of_nodes() <= nmax and g.number_of_edges() <= mmax): continue
        for extra in (0, 2):
            if extra and g.number_of_edges() == 0 and g.number_of_nodes() > 2: continue
            for phi in (0.0, 0.25, 0.5, 0.75, 1.0):
                yield dict(n=g.number_of_nodes() + extra, edges=[list(e) for e in g.edges()], phi=phi)
def nontrivial(c): return len(c["edges"]) >= 2

def lcc(n, edges):
    H = nx.Graph(); H.add_nodes_from(range(n)); H.add_edges_from(edges); return max(len(c) for c in nx.connected_components(H))
def snap(G): return (list(G.nodes(data=True)), [(u, v, dict(d)) for u, v, d in G.edges(data=True)], {k: list(v) for k, v in G.adj.items()})

def check(c):
    n, edges, phi = c["n"], [tuple(e) for e in c["edges"]], c["phi"]; M = len(edges)
    G = nx.Graph(); G.add_nodes_from(range(n))
    for x in range(n): G.nodes[x]["joint_degree"] = (x, 1)
    for i, (u, v) in enumerate(edges): G.add_edge(u, v, topology="2-clique" if i % 2 else "3-clique", motif=i)
    before = copy.deepcopy(snap(G))
    exp = Counter(); p = F(phi)
    for keep in itertools.product((0, 1), repeat=M):
        exp[F(lcc(n, [e for e, k in zip(edges, keep) if k]), n)] += p ** sum(keep) * (1 - p) ** (M - sum(keep))
    got = Counter(); total = 0
    ch = Chooser(); saved = bp.random.random
    # The law over all outcomes can be computed only while every random decision goes through the scripted random.random(); the statement does not prescribe that mechanism
    # (a count followed by random.sample has the same law), so a run that uses another primitive is not evaluated by this clause instead of being judged by it.
    class Unscripted(BaseException): pass
    def unscripted(*a, **k): raise Unscripted()
    others = {nm: getattr(bp.random, nm) for nm in ("sample", "choices", "choice", "shuffle", "randrange", "randint", "uniform", "getrandbits")}
    for nm in others: setattr(bp.random, nm, unscripted)
    try:
        while True:
            ch.reset(); bp.random.random = lambda: GRID[ch.pick(4)]
            try: r = guarded("bond_percolate", bp.bond_percolate, G, phi)
            except Unscripted: return []
            if snap(G) != before: raise Violation("bond_percolate.input_untouched", f"the input graph changed (phi={phi}): {snap(G)[1][:3]} vs {before[1][:3]}")
            fr = F(r).limit_denominator(1000)
            if (fr * n).denominator != 1 or not (F(1, n) <= fr <= 1): raise Violation("bond_percolate.range", f"returned {r} for N={n}")
            if phi == 0.0 and fr != F(1, n): raise Violation("bond_percolate.phi_zero", f"phi=0 returned {r}, expected 1/{n} (draws {[GRID[i] for i in ch.script[:ch.pos]]})")
            if phi == 1.0 and fr != F(lcc(n, edges), n): raise Violation("bond_percolate.phi_one", f"phi=1 returned {r}, exact fraction {F(lcc(n, edges), n)}")
            w = F(1, 4) ** ch.pos if ch.pos else F(1)
            got[fr] += w; total += 1
            if not ch.advance(): break
            if total > 5000: return []
    finally:
        bp.random.random = saved
        for nm, f in others.items(): setattr(bp.random, nm, f)
    for k in set(exp) | set(got):
        if exp.get(k, 0) != got.get(k, 0):
            raise Violation("bond_percolate.fraction_of_largest_component_of_kept_edges", f"phi={phi}, N={n}, edges {edges}: P(result={k}) = {got.get(k, 0)} over all draw sequences, definition gives {exp.get(k, 0)}")
    return []
if __name__ == "__main__": main(sys.modules[__name__])
