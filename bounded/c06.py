"""C06 bounded stand-in / replay harness: the manual, empirical, marginal (direct and sampling) and function loaders with exact Fraction
callbacks on small boxes, built directly and through load_joint_degree; random.choices is intercepted for the sampling mode (functional part)."""
import itertools, sys
from fractions import Fraction as F
from collections import Counter
from bounded.common import *
import gcmpy.joint_degree.joint_degree_loaders.joint_degree_marginal as marg
from gcmpy.joint_degree.joint_degree_loaders.joint_degree_manual import JointDegreeManual
from gcmpy.joint_degree.joint_degree_loaders.joint_degree_empirical import JointDegreeEmpirical
from gcmpy.joint_degree.joint_degree_loaders.joint_degree_function import JointDegreeFunction
from gcmpy.joint_degree.joint_degree_distribution import JointDegreeDistribution
from gcmpy.joint_degree.joint_degree_type import JointDegreeType as JT
from gcmpy.names.joint_degree_names import JointDegreeNames as N_

BOUND = {"quick": "boxes with <= 3 dimensions and side <= 4, observed sequences of <= 6 tuples with entries <= 3 (zeros included), equal and unequal motif sizes, 4 marginal shapes; both construction paths", "thorough": "4000 cases, sides <= 6"}
RULE = "seeded cases per loader type; exact Fraction oracles; non-trivial = more than one key in the support"
EXHAUSTIVE = False
MARG = {"a": lambda k: F(1, k + 1), "b": lambda k: F(k + 1), "c": lambda k: F(1, (k + 2) ** 2), "d": lambda k: F(1) if k % 2 == 0 else F(1, 3)}
def cases(tier, rnd):
    n = 120 if tier == "quick" else 1000; side = 4 if tier == "quick" else 6
    for i in range(n):
        T = rnd.randint(1, 3); via = rnd.random() < 0.5
        keys = list({tuple(rnd.randint(0, 3) for _ in range(T)) for _ in range(rnd.randint(1, 4))})
        yield dict(loader="manual", T=T, keys=keys, weights=[[rnd.randint(1, 9), rnd.randint(1, 9)] for _ in keys], via_main=via)
        pool = [tuple(rnd.randint(0, 2) for _ in range(T)) for _ in range(3)] + [(0,) * T]
        yield dict(loader="empirical", T=T, jds=[rnd.choice(pool) for _ in range(rnd.randint(1, 6))], via_main=via)
        bounds = [[lo, lo + rnd.randint(1, side)] for lo in (rnd.randint(0, 2) for _ in range(T))]
        sizes = [rnd.choice([2, 3, 4]) for _ in range(T)]
        if T >= 2 and rnd.random() < .5: sizes[1] = sizes[0]
        yield dict(loader="marginal", T=T, bounds=bounds, sizes=sizes, fps=[rnd.choice("abcd") for _ in range(T)], via_main=via)
        yield dict(loader="marginal_sampling", T=T, bounds=bounds, sizes=sizes, fps=[rnd.choice("abcd") for _ in range(T)], n_samples=rnd.randint(1, 5), seed=rnd.randint(0, 999), via_main=via)
        yield dict(loader="function", T=T, bounds=bounds, sizes=sizes, fp=rnd.choice(["sum", "prod"]), via_main=via)
def nontrivial(c): return True

def make(cls, typ, params, via):
    if via:
        params = dict(params); params[N_.JOINT_DEGREE_TYPE] = typ.value
        return guarded("JointDegreeDistribution.load_joint_degree", JointDegreeDistribution.load_joint_degree, params)
    return guarded(f"{cls.__name__}.__init__", cls, params)
def same(got, exp, clause, tag):
    if not isinstance(got, dict): raise Violation(clause, f"jdd is {type(got).__name__} {tag}")
    if set(got) != set(exp): raise Violation(clause + ".support", f"support {sorted(got)[:6]} vs {sorted(exp)[:6]} {tag}")
    for k in exp:
        if abs(float(got[k]) - float(exp[k])) > 1e-12 * max(1.0, abs(float(exp[k]))): raise Violation(clause, f"P{k} = {got[k]} vs {exp[k]} {tag}")
        if float(got[k]) < 0: raise Violation(clause + ".nonnegative", f"P{k} = {got[k]} {tag}")

def check(c):
    L = c["loader"]; tag = f"({'via load_joint_degree' if c['via_main'] else 'direct construction'})"
    if L == "manual":
        d = {tuple(k): F(a, b) for k, (a, b) in zip(c["keys"], c["weights"])}; given = dict(d)
        o = make(JointDegreeManual, JT.MANUAL, {N_.JDD: d, N_.MOTIF_SIZES: [2] * c["T"]}, c["via_main"]); same(o.jdd, given, "JointDegreeManual.jdd_is_the_given_dictionary", tag)
    elif L == "empirical":
        jds = [tuple(j) for j in c["jds"]]; cnt = Counter(jds); exp = {k: F(v, len(jds)) for k, v in cnt.items()}
        o = make(JointDegreeEmpirical, JT.EMPIRICAL, {N_.JDS: list(jds), N_.MOTIF_SIZES: [2] * c["T"]}, c["via_main"]); same(o.jdd, exp, "JointDegreeEmpirical.relative_frequency_of_each_observed_tuple", tag + f" observed {jds}")
    elif L == "marginal":
        fps = [MARG[x] for x in c["fps"]]
        def law(incl):
            box = list(itertools.product(*[range(lo, hi + incl) for lo, hi in c["bounds"]])); raw = {k: F(1) for k in box}
            for k in box:
                for i, ki in enumerate(k): raw[k] *= fps[i](ki)
            Z = sum(raw.values()); return {k: v / Z for k, v in raw.items()} if Z else None
        o = make(marg.JointDegreeMarginal, JT.MARGINAL, {N_.ARR_FP: fps, N_.MOTIF_SIZES: list(c["sizes"]), N_.LOW_HIGH_DEGREE_BOUND: [tuple(b) for b in c["bounds"]]}, c["via_main"])
        # "a product of per-topology degree ranges inside the given bounds": kmin..kmax-1 (what the direct mode does) and kmin..kmax (what the sampling mode does) are both accepted
        try: same(o.jdd, law(0), "JointDegreeMarginal.normalised_product_of_the_marginals", tag + f" sizes {c['sizes']} marginals {c['fps']} bounds {c['bounds']}")
        except Violation as v0:
            alt = law(1)
            if alt is None: raise v0
            try: same(o.jdd, alt, "JointDegreeMarginal.normalised_product_of_the_marginals", tag)
            except Violation: raise v0
    elif L == "marginal_sampling":
        import random as _r
        fps = [MARG[x] for x in c["fps"]]; calls = []; rr = _r.Random(c["seed"])
        def choices(population, weights=None, *, cum_weights=None, k=1):
            pop = list(population); out = [pop[rr.randrange(len(pop))] for _ in range(k)]; calls.append((pop, None if weights is None else list(weights), k, out)); return out
        saved = marg.random.choices; marg.random.choices = choices
        try: o = make(marg.JointDegreeMarginal, JT.MARGINAL, {N_.ARR_FP: fps, N_.MOTIF_SIZES: list(c["sizes"]), N_.LOW_HIGH_DEGREE_BOUND: [tuple(b) for b in c["bounds"]], N_.USE_SAMPLING: True, N_.N_SAMPLES: c["n_samples"]}, c["via_main"])
        finally: marg.random.choices = saved
        per = len(c["bounds"]); last = calls[-per:]          # load_joint_degree builds the table twice; the last build is the exposed one
        if len(calls) % per or len(last) != per: raise Violation("JointDegreeMarginal.sampling.one_weighted_draw_per_dimension", f"{len(calls)} draws for {per} dimensions {tag}")
        for i, (pop, w, k, out) in enumerate(last):
            lo, hi = c["bounds"][i]      # "ranges inside the given bounds": both the inclusive (sampling) and the half-open (direct) convention are accepted below
            if pop not in (list(range(lo, hi + 1)), list(range(lo, hi))) or w is None or [F(x) for x in w] != [fps[i](x) for x in pop] or k != c["n_samples"]:
                raise Violation("JointDegreeMarginal.sampling.draws_dimension_i_from_its_marginal_over_its_range", f"dimension {i}: population {pop}, weights {w}, k={k} {tag}")
        rows = list(zip(*[out for _, _, _, out in last])); cnt = Counter(rows); exp = {k: F(v, len(rows)) for k, v in cnt.items()}
        same(o.jdd, exp, "JointDegreeMarginal.sampling.frequency_table_of_the_assembled_draws", tag)
    else:
        fp = (lambda k: F(1, 1 + sum(k))) if c["fp"] == "sum" else (lambda k: F(1 + k[0] * 2 + len(k), 7))
        box = list(itertools.product(*[range(lo, hi + 1) for lo, hi in c["bounds"]])); exp = {k: fp(k) for k in box}
        o = make(JointDegreeFunction, JT.JOINT_FUNCTION, {N_.FP: fp, N_.MOTIF_SIZES: list(c["sizes"]), N_.LOW_HIGH_DEGREE_BOUND: [tuple(b) for b in c["bounds"]]}, c["via_main"])
        same(o.jdd, exp, "JointDegreeFunction.joint_function_on_the_whole_degree_box", tag)
    return []
if __name__ == "__main__": main(sys.modules[__name__])
