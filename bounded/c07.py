"""C07 bounded stand-in / replay harness: the real split-degree and delta loaders with exact Fraction callbacks; overall degree functions,
probability vectors over 1..4 clique topologies, degree ranges, targets inside/outside/at the ends of the range; several loaders are built in one
process with different parameters (no state may leak between loaders); exact oracle for every mass."""
import itertools, sys
from fractions import Fraction as F
from bounded.common import *
from gcmpy.joint_degree.joint_degree_loaders.joint_degree_split_degree import JointDegreeSplitDegree
from gcmpy.joint_degree.joint_degree_loaders.joint_degree_delta import JointDegreeDelta
from gcmpy.joint_degree.joint_degree_distribution import JointDegreeDistribution
from gcmpy.joint_degree.joint_degree_type import JointDegreeType
from gcmpy.names.joint_degree_names import JointDegreeNames as N_

BOUND = {"quick": "k ranges within [0,12], T in 1..4, probabilities from {1/5,..,4/5} and 1, 3 degree functions, targets in lo-1..hi+1; sequences of 2-3 loaders per case", "thorough": "k ranges within [0,40], 4000 cases"}
RULE = "seeded parameter choices; every mass compared with the exact Fraction oracle to 1e-12 (the loaders compute in floats); non-trivial = T >= 2 and the range holds >= 2 degrees"
EXHAUSTIVE = False
FPS = {"flat": lambda k: F(1), "lin": lambda k: F(k + 1), "pow": lambda k: F(1, (k + 1) ** 2)}
def cases(tier, rnd):
    kmax = 12 if tier == "quick" else 40
    # the ASSUMED contract of the recursive generator, against an independent enumeration
    for T in (1, 2, 3, 4):
        for k in range(0, 16 if tier == "quick" else 41): yield dict(generator=True, k=k, T=T)
    for _ in range(400 if tier == "quick" else 4000):
        seq = []
        for _ in range(rnd.randint(1, 3)):
            T = rnd.randint(1, 4); lo = rnd.randint(0, 4); hi = rnd.randint(lo + 1, min(kmax, lo + (7 if T > 2 else 10)))
            seq.append(dict(kind=rnd.choice(["split", "delta"]), T=T, probs=[[rnd.randint(1, 5), 5] for _ in range(T)], fp=rnd.choice(list(FPS)), lo=lo, hi=hi, target=rnd.randint(lo - 1, hi + 1), via_main=rnd.random() < .3))
        yield dict(seq=seq)
def nontrivial(c): return c.get("generator") or any(s["T"] >= 2 and s["hi"] - s["lo"] >= 2 for s in c["seq"])

def splits(k, T):
    if T == 1: return [(k,)]
    return [r + (i,) for i in range(0, k // T + 1) for r in splits(k - i * T, T - 1)]
def oracle(s, incl=0):
    probs = [F(a, b) for a, b in s["probs"]]; fp = FPS[s["fp"]]; T = s["T"]; raw = {}
    for k in range(s["lo"], s["hi"] + incl):
        if s["kind"] == "delta" and k != s["target"]:
            key = (k,) + (0,) * (T - 1); raw[key] = raw.get(key, 0) * 0 + fp(k); continue
        ds = [d for d in splits(k, T) if all(x >= 0 for x in d)]
        w = {d: F(1) for d in ds}
        for d in ds:
            for t in range(T): w[d] *= probs[t] ** ((t + 1) * d[t])
        tot = sum(w.values())
        for d in ds: raw[d] = fp(k) * w[d] / tot
    Z = sum(raw.values())
    return {d: v / Z for d, v in raw.items()}

def independent_splits(k, T):
    out = []
    def rec(t, left, acc):
        if t == 0:
            if left == 0: out.append(tuple(reversed(acc)))
            return
        for x in range(0, left // t + 1): rec(t - 1, left - x * t, acc + [x])
    rec(T, k, []); return out
def check(c):
    if c.get("generator"):
        o = JointDegreeSplitDegree.__new__(JointDegreeSplitDegree); k, T = c["k"], c["T"]
        got = [tuple(x) for x in guarded("JointDegreeSplitDegree.get_valid_joint_degrees", lambda: list(o.get_valid_joint_degrees(k, T)))]
        if any(len(d) != T or any(x < 0 for x in d) or sum((t + 1) * x for t, x in enumerate(d)) != k for d in got): raise Violation("JointDegreeSplitDegree.get_valid_joint_degrees.admissible", f"k={k}, T={T}: {got[:5]}")
        if len(set(got)) != len(got): raise Violation("JointDegreeSplitDegree.get_valid_joint_degrees.each_once", f"k={k}, T={T}")
        if set(got) != set(independent_splits(k, T)): raise Violation("JointDegreeSplitDegree.get_valid_joint_degrees.complete", f"k={k}, T={T}: {len(got)} vectors, independent enumeration gives {len(independent_splits(k, T))}")
        return []
    for n, s in enumerate(c["seq"]):
        probs = [F(a, b) for a, b in s["probs"]]
        params = {N_.FP: FPS[s["fp"]], N_.PROBS: list(probs), N_.MOTIF_SIZES: [t + 2 for t in range(s["T"])], N_.LOW_HIGH_DEGREE_BOUND: (s["lo"], s["hi"])}
        cls, typ = (JointDegreeSplitDegree, JointDegreeType.SPLIT_DEGREE) if s["kind"] == "split" else (JointDegreeDelta, JointDegreeType.DELTA)
        if s["kind"] == "delta": params[N_.TARGET_K] = s["target"]
        if s["via_main"]:
            params[N_.JOINT_DEGREE_TYPE] = typ.value; obj = guarded("JointDegreeDistribution.load_joint_degree", JointDegreeDistribution.load_joint_degree, params)
        else: obj = guarded(f"{cls.__name__}.__init__", cls, params)
        got = obj.jdd; tag = f"(loader #{n + 1} of the sequence: {s})"
        def compare(exp):
            # a joint degree whose share is exactly 0 may be stored with mass 0 or not at all; nothing else may be missing or extra
            extra = [d for d in got if d not in exp and float(got[d]) != 0]; missing = [d for d in exp if d not in got and exp[d] != 0]
            if missing or extra:
                ks = sorted({sum((t + 1) * x for t, x in enumerate(d)) for d in missing + extra})
                raise Violation(f"{cls.__name__}.create_jdd.support_is_the_admissible_splits_of_the_range", f"overall degrees {ks}: missing {missing[:3]}, unexpected {extra[:3]} {tag}")
            for d in exp:
                gd = got.get(d, 0)
                if abs(float(gd) - float(exp[d])) > 1e-12 * max(1.0, float(exp[d])):
                    k = sum((t + 1) * x for t, x in enumerate(d))
                    tot_got = sum(v for dd, v in got.items() if sum((t + 1) * x for t, x in enumerate(dd)) == k); tot_exp = sum(v for dd, v in exp.items() if sum((t + 1) * x for t, x in enumerate(dd)) == k)
                    clause = "mass_of_degree_k_proportional_to_fp" if abs(float(tot_got) - float(tot_exp)) > 1e-12 else "within_k_split_in_proportion_to_the_probability_product"
                    raise Violation(f"{cls.__name__}.create_jdd.{clause}", f"joint degree {d} (overall degree {k}): mass {gd} vs {exp[d]} {tag}")
        # "for every k in the degree range": whether the upper bound itself belongs to the range is left open by the statement -- the law over lo..hi-1 (what the code does) and
        # the law over lo..hi are both accepted
        try: compare(oracle(s))
        except Violation as v0:
            try: alt = oracle(s, 1)
            except ZeroDivisionError: raise v0
            try: compare(alt)
            except Violation: raise v0
        if abs(float(sum(got.values())) - 1) > 1e-9: raise Violation(f"{cls.__name__}.create_jdd.sums_to_one", f"{sum(got.values())} {tag}")
    return []
if __name__ == "__main__": main(sys.modules[__name__])
