"""C16 bounded stand-in / replay harness: the real clique_equation / chordless_cycle_equation executed on exact polynomials (distinct symbol
per neighbour) against the brute-force expectation; Q against QQ and against the defining component identity; number_of_connected_graphs
against an independent enumeration; call sequences with repeated neighbour values (module-level state must not leak)."""
import itertools, sys
from math import comb
import networkx as nx
from networkx.generators.atlas import graph_atlas_g
from bounded.common import *
from bounded.poly import Poly, brute_expectation
from gcmpy.message_passing.equations.clique_equation import clique_equation
from gcmpy.message_passing.equations.chordless_cycle_equation import chordless_cycle_equation
import gcmpy.message_passing.number_connected_graphs as ncg

BOUND = {"quick": "cliques tau <= 5 with distinct and repeated neighbour symbols (call sequences), cycles n <= 9, Q=QQ for n <= 6 all k, Q identity n <= 12 all k, counter on atlas graphs <= 5 vertices (all vertex subsets, all k) and glued graphs",
         "thorough": "cliques tau <= 6, cycles n <= 11, Q=QQ n <= 7 (k >= 12), Q identity n <= 14, counter on atlas graphs <= 6 vertices"}
RULE = "enumeration inside the bound; polynomial identities are complete in phi and the neighbour values; non-trivial = every case"
EXHAUSTIVE = True
BUDGET_S = {"quick": 55, "thorough": 1500}
def cases(tier, rnd):
    q = tier == "quick"
    for tau in range(2, 6 if q else 7): yield dict(kind="clique", tau=tau, syms=[f"h{i}" for i in range(tau - 1)])
    # sequences with repeated values: same distinct values, different multiplicities; permutations
    for tau in (3, 4, 5):
        for pat in itertools.product("ab", repeat=tau - 1):
            yield dict(kind="clique_seq", tau=tau, seq=[list(pat), list(reversed(pat)), ["a"] * (tau - 1), list(pat)])
    for n in range(3, 10 if q else 12): yield dict(kind="cycle", n=n)
    for n in range(1, 7): 
        for k in range(0, n * (n - 1) // 2 + 1): yield dict(kind="QQ", n=n, k=k)
    if not q:
        for k in range(12, 22): yield dict(kind="QQ", n=7, k=k)
    for n in range(1, 13 if q else 15): yield dict(kind="Qid", n=n)
    for g in graph_atlas_g():
        if 2 <= g.number_of_nodes() <= (5 if q else 6) and g.number_of_edges() >= 1 and g.number_of_edges() <= 9: yield dict(kind="counter", edges=[list(e) for e in g.edges()], n=g.number_of_nodes())
    two_k4 = list(nx.complete_graph(4).edges()) + [(a + 4, b + 4) for a, b in nx.complete_graph(4).edges()] + [(3, 4)]
    yield dict(kind="counter_sub", edges=[list(e) for e in two_k4], n=8, subsets=[[0, 1, 2, 3, 4, 5, 6, 7]], ks=[0, 1, 2])
    yield dict(kind="counter_sub", edges=[[0, 1], [1, 2], [0, 2], [3, 4], [4, 5], [3, 5]], n=6, subsets=[[0, 1, 2, 3, 4, 5]], ks=[0, 1])

def count_connected(G, S, k):
    H = G.subgraph(S); es = list(H.edges()); c = 0
    for rem in itertools.combinations(es, k):
        J = nx.Graph(); J.add_nodes_from(S); J.add_edges_from(e for e in es if e not in rem)
        if nx.is_connected(J): c += 1
    return c

def check(c):
    p = Poly.var("p"); kind = c["kind"]
    if kind in ("clique", "clique_seq"):
        seqs = [c["syms"]] if kind == "clique" else c["seq"]; tau = c["tau"]
        for i, names in enumerate(seqs):
            Hs = [Poly.var(s) for s in names]
            got = Poly.const(guarded("clique_equation", clique_equation, tau, p, list(Hs)))
            K = nx.complete_graph(tau); u = {j + 1: Hs[j] for j in range(tau - 1)}; u[0] = Poly.const(1)
            exp = brute_expectation(K, 0, p, u)
            if not (got == exp): raise Violation("clique_equation.equals_exact_expectation", f"tau={tau}, neighbour values {names}" + (f" (call #{i + 1} of the sequence {seqs})" if kind == "clique_seq" else "") + f": difference {repr(got - exp)[:160]}")
    elif kind == "cycle":
        n = c["n"]; u = Poly.var("u"); got = Poly.const(guarded("chordless_cycle_equation", chordless_cycle_equation, n, u, p))
        exp = brute_expectation(nx.cycle_graph(n), 0, p, {i: u for i in range(n)})
        if not (got == exp): raise Violation("chordless_cycle_equation.equals_exact_expectation", f"n={n}: difference {repr(got - exp)[:160]}")
    elif kind == "QQ":
        n, k = c["n"], c["k"]; a = guarded("Q", ncg.Q, n, k); b = guarded("QQ", ncg.QQ, n, k); ref = count_connected(nx.complete_graph(n), list(range(n)), n * (n - 1) // 2 - k)
        if a != ref: raise Violation("Q.counts_connected_labelled_graphs", f"Q({n},{k}) = {a}, enumeration gives {ref}")
        if b != ref: raise Violation("QQ.counts_connected_labelled_graphs", f"QQ({n},{k}) = {b}, enumeration gives {ref}")
    elif kind == "Qid":
        n = c["n"]; s = lambda m: m * (m - 1) // 2
        for k in range(0, s(n) + 1):
            rhs = sum(comb(n - 1, m - 1) * sum(guarded("Q", ncg.Q, m, j) * comb(s(n - m), k - j) for j in range(0, k + 1) if k - j <= s(n - m)) for m in range(1, n + 1))
            if rhs != comb(s(n), k): raise Violation("Q.component_identity", f"n={n}, k={k}: sum over the component of vertex 1 gives {rhs}, C({s(n)},{k}) = {comb(s(n), k)}")
    else:
        G = nx.Graph(); G.add_nodes_from(range(c["n"])); G.add_edges_from([tuple(e) for e in c["edges"]])
        subsets = c.get("subsets") or [list(S) for r in range(2, c["n"] + 1) for S in itertools.combinations(range(c["n"]), r)]
        for S in subsets:
            m = G.subgraph(S).number_of_edges()
            for k in (c.get("ks") or range(0, m + 1)):
                for i in (S[0], S[-1]):
                    got = guarded("number_of_connected_graphs", ncg.number_of_connected_graphs, G, [x for x in S if x != i], i, k)
                    ref = count_connected(G, S, k)
                    if got != ref: raise Violation("number_of_connected_graphs.exact", f"substrate {c['edges']}, vertices {S}, focal {i}, k={k}: returned {got}, enumeration {ref}")
    return []
if __name__ == "__main__": main(sys.modules[__name__])
