"""Exact sparse multivariate polynomials over Fraction: the real equation code is executed on these, so results are compared AS POLYNOMIALS."""
from fractions import Fraction
import itertools
class Poly:
    """sparse multivariate polynomial with Fraction coefficients; vars are strings"""
    __slots__=("t",)
    def __init__(self, t=None): self.t = {k:v for k,v in (t or {}).items() if v!=0}
    @staticmethod
    def var(name): return Poly({((name,1),):Fraction(1)})
    @staticmethod
    def const(c):
        if isinstance(c, Poly): return c
        if isinstance(c, float): return Poly({():Fraction(c)})        # 0.0, 1.0, 0.5 ... are exact binary fractions
        return Poly({():Fraction(c)})
    def __add__(s,o):
        o=Poly.const(o); t=dict(s.t)
        for k,v in o.t.items(): t[k]=t.get(k,0)+v
        return Poly(t)
    __radd__=__add__
    def __neg__(s): return Poly({k:-v for k,v in s.t.items()})
    def __sub__(s,o): return s+(-Poly.const(o))
    def __rsub__(s,o): return Poly.const(o)+(-s)
    def __mul__(s,o):
        o=Poly.const(o); t={}
        for k1,v1 in s.t.items():
            for k2,v2 in o.t.items():
                d=dict(k1)
                for n,e in k2: d[n]=d.get(n,0)+e
                k=tuple(sorted(d.items())); t[k]=t.get(k,0)+v1*v2
        return Poly(t)
    __rmul__=__mul__
    def __pow__(s,n,mod=None):
        assert n==int(n) and n>=0, n
        n=int(n); r=Poly.const(1)
        for _ in range(n): r=r*s
        return r
    def __eq__(s,o): return s.t==Poly.const(o).t
    def __hash__(s): return hash(frozenset(s.t.items()))
    def __repr__(s): return " + ".join(f"{v}*{k}" for k,v in sorted(s.t.items())) or "0"

def brute_expectation(G, root, p, u):
    """E over independent occupation (prob p) of each edge of G of the product of u over the other vertices of root's component (exact polynomial)"""
    import networkx as nx
    nodes = list(G.nodes()); total = Poly.const(0)
    # sum over connected vertex sets S containing root
    others = [n for n in nodes if n != root]
    for r in range(len(others) + 1):
        for extra in itertools.combinations(others, r):
            S = {root, *extra}; H = G.subgraph(S)
            if not nx.is_connected(H): continue
            inner = list(H.edges()); boundary = sum(1 for a, b in G.edges() if (a in S) != (b in S))
            conn = Poly.const(0)
            for k in range(len(inner) + 1):
                cnt = 0
                for keep in itertools.combinations(inner, k):
                    J = nx.Graph(); J.add_nodes_from(S); J.add_edges_from(keep)
                    if nx.is_connected(J): cnt += 1
                if cnt: conn = conn + cnt * (p ** k) * ((1 - p) ** (len(inner) - k))
            w = conn * ((1 - p) ** boundary)
            for n in extra: w = w * u[n]
            total = total + w
    return total
