"""C08 bounded stand-in / replay harness: the real JointDegreeCover on every cover of <= 3 cliques over <= 5 vertices (sizes 1..5, 0- and
1-based ids, overlapping cliques, non-adjacent size mixtures) plus sampled covers with large cliques (sizes up to 10); exact oracle."""
import itertools, sys
from fractions import Fraction as F
from collections import Counter
from bounded.common import *
from gcmpy.joint_degree.joint_degree_loaders.joint_degree_cover import JointDegreeCover
from gcmpy.joint_degree.joint_degree_distribution import JointDegreeDistribution
from gcmpy.joint_degree.joint_degree_type import JointDegreeType
from gcmpy.names.joint_degree_names import JointDegreeNames as N_

BOUND = {"quick": "all covers of <= 3 cliques over vertex sets {0..n-1} / {1..n}, n <= 5, every vertex covered; 300 sampled covers with cliques of size <= 10 over <= 14 vertices", "thorough": "all covers of <= 4 cliques over n <= 5; 5000 sampled covers"}
RULE = "enumerated clique multisets covering a contiguous vertex range, both id bases; non-trivial = at least two clique sizes occur"
EXHAUSTIVE = False
def cases(tier, rnd):
    kmax = 3 if tier == "quick" else 4
    for n in range(1, 6):
        subsets = [list(s) for r in range(1, n + 1) for s in itertools.combinations(range(n), r)]
        for k in range(1, kmax + 1):
            combos = list(itertools.combinations_with_replacement(range(len(subsets)), k))
            if len(combos) > (400 if tier == "quick" else 4000): combos = rnd.sample(combos, 400 if tier == "quick" else 4000)
            for cm in combos:
                cover = [subsets[i] for i in cm]
                if len({v for c in cover for v in c}) != n: continue
                base = rnd.choice((0, 1)); yield dict(cover=[[v + base for v in c] for c in cover], via_main=rnd.random() < .3)
    for _ in range(300 if tier == "quick" else 5000):
        n = rnd.randint(8, 14); sizes = rnd.sample([2, 3, 4, 5, 8, 9, 10], rnd.randint(1, 3)); cover = []
        for s in sizes:
            for _ in range(rnd.randint(1, 3)): cover.append(rnd.sample(range(n), min(s, n)))
        missing = set(range(n)) - {v for c in cover for v in c}
        for v in missing: cover.append([v, (v + 1) % n])
        base = rnd.choice((0, 1)); yield dict(cover=[[v + base for v in c] for c in cover], via_main=rnd.random() < .3)
def nontrivial(c): return len({len(x) for x in c["cover"]}) >= 2

def check(c):
    cover = [list(x) for x in c["cover"]]; params = {N_.COVER: [list(x) for x in cover]}
    if c.get("via_main"):
        params[N_.JOINT_DEGREE_TYPE] = JointDegreeType.COVER.value; obj = guarded("JointDegreeDistribution.load_joint_degree", JointDegreeDistribution.load_joint_degree, params)
    else: obj = guarded("JointDegreeCover.__init__", JointDegreeCover, params)
    sizes = sorted({len(x) for x in cover}); vs = sorted({v for x in cover for v in x})
    if list(obj.motif_sizes) != sizes: raise Violation("JointDegreeCover.motif_sizes_are_the_occurring_sizes_ascending", f"motif_sizes {obj.motif_sizes} vs {sizes} for cover {cover}")
    rows = Counter(tuple(sum(1 for x in cover if v in x and len(x) == s) for s in sizes) for v in vs)
    exp = {k: F(n, len(vs)) for k, n in rows.items()}; got = obj.jdd
    if not isinstance(got, dict): raise Violation("JointDegreeCover.create_jdd.jdd_is_a_distribution", repr(got)[:100])
    if any(len(k) != len(sizes) for k in got): raise Violation("JointDegreeCover.create_jdd.one_column_per_occurring_size", f"keys {list(got)[:4]} for sizes {sizes}")
    if set(got) != set(exp) or any(abs(got[k] - float(exp[k])) > 1e-12 for k in exp): raise Violation("JointDegreeCover.create_jdd.counts_cliques_per_vertex", f"cover {cover}: jdd {got} vs expected {dict((k, float(v)) for k, v in exp.items())}")
    if cover != [list(x) for x in c["cover"]]: raise Violation("JointDegreeCover.input_unchanged", "cover modified")
    return []
if __name__ == "__main__": main(sys.modules[__name__])
