#!/bin/bash
# Builds the interpreter every check uses: a Python 3.12 venv under /verif/.venv (git-ignored), offline,
# from /opt/veriftools/wheels, plus a .pth that makes the repository's own dependencies (/venv) importable.
set -e
cd "$(dirname "$0")"
V=.venv
if [ -x $V/bin/python ] && $V/bin/python -c "import z3, jsonschema, networkx, numpy, mpmath" 2>/dev/null; then exit 0; fi
rm -rf $V
/venv/bin/python -m venv $V
PIP_NO_INDEX=1 $V/bin/pip install -q --no-index --find-links /opt/veriftools/wheels z3-solver cvc5 mpmath jsonschema >/dev/null
SP=$($V/bin/python -c "import site; print(site.getsitepackages()[0])")
echo "import site; site.addsitedir('/venv/lib/python3.12/site-packages')" > $SP/zz_repo_deps.pth
$V/bin/python -c "import z3, jsonschema, networkx, numpy, mpmath; print('vf venv ready: z3', z3.get_version_string())"
