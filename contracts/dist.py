"""C19: contracts of the four built-in degree distributions (real power, exp and factorial uninterpreted: A-REAL)."""
import ast, z3
from vf.spec import *
from vf.sym import to_real
RPOW = z3.Function("rpow", z3.RealSort(), z3.RealSort(), z3.RealSort())
EXP = z3.Function("exp", z3.RealSort(), z3.RealSort())
FACT = z3.Function("fact", z3.IntSort(), z3.IntSort())
def build(reg):
    x, y = z3.Reals("x_ y_"); n = z3.Int("n_")
    reg.axioms += [("rpow.positive", z3.ForAll([x, y], z3.Implies(x > 0, RPOW(x, y) > 0), patterns=[RPOW(x, y)]), "a positive real raised to a real power is positive"),
                   ("exp.positive", z3.ForAll([x], EXP(x) > 0, patterns=[EXP(x)]), "exp is positive"),
                   ("fact.positive", z3.ForAll([n], z3.Implies(n >= 0, FACT(n) >= 1), patterns=[FACT(n)]), "k! >= 1 for k >= 0")]
    NS = reg.native_specfuns
    NS["rpow"] = dict(smt=lambda ex, a, b: Val(REAL, RPOW(to_real(a), to_real(b))), rt=lambda a, b: float(a) ** float(b))
    NS["exp"] = dict(smt=lambda ex, a: Val(REAL, EXP(to_real(a))), rt=None)
    NS["fact"] = dict(smt=lambda ex, a: Val(INT, FACT(a.z)), rt=None)
    reg.binop_hooks["pow"] = lambda ex, a, b, pc, nn: (ex.assumptions.add("x ** y and pow(x, y) on reals are the uninterpreted real power rpow (A-REAL)") or Val(REAL, RPOW(to_real(a), to_real(b))))
    def hook(ex, nd, st, pc):
        if isinstance(nd, ast.Call):
            src = ast.unparse(nd.func)
            if src == "pow" and len(nd.args) == 2:
                a, b = ex.expr(nd.args[0], st, pc), ex.expr(nd.args[1], st, pc); ex.assumptions.add("pow(x, y) is the uninterpreted real power rpow (A-REAL)"); return Val(REAL, RPOW(to_real(a), to_real(b)))
            if src in ("np.exp", "math.exp") and len(nd.args) == 1:
                ex.assumptions.add("np.exp is the (uninterpreted, positive) real exponential"); return Val(REAL, EXP(to_real(ex.expr(nd.args[0], st, pc))))
            if src == "math.factorial" and len(nd.args) == 1:
                a = ex.expr(nd.args[0], st, pc); ex.branch_exc(pc, a.z < 0, "ValueError", nd)
                ex.assumptions.add("math.factorial(k) is k! (uninterpreted, >= 1) for k >= 0, ValueError otherwise"); return Val(INT, FACT(a.z))
        return None
    reg.call_hooks.append(hook)
    TOL = "0.000001"
    reg.specfun("psum", [("s", REAL), ("n", INT)], REAL, base="0.0", rec="psum(s, n - 1) + 1.0 / rpow(n, s)")
    reg.specfun("zpow", [("z", REAL), ("n", INT)], REAL, base="1.0", rec="zpow(z, n - 1) * z")
    reg.specfun("plsum", [("s", REAL), ("z", REAL), ("n", INT)], REAL, base="0.0", rec="plsum(s, z, n - 1) + zpow(z, n) / rpow(n, s)")
    m = reg.module("gcmpy/distributions/power_law.py")
    m.fn("power_law.zeta", params={"s": REAL}, ret=REAL,
         # "to within the series-truncation tolerance": the series is cut at a term below 1e-6 -- a tighter cut also satisfies the statement, so neither the exact tolerance nor
         # "at the FIRST small term" is pinned
         ensures={"partial_sum": "k >= 1 and result == psum(s, k)", "cut_at_a_term_below_the_tolerance": f"abs(1.0 / rpow(k, s)) < {TOL}"},
         loops={0: dict(inv={"k": "k >= 1", "sum": "l == psum(s, k - 1)", "tol": f"0 < tol and tol <= {TOL}"})})
    m.fn("power_law.p", params={"k": INT, "alpha": REAL, "C": REAL}, ghost=["alpha", "C"], ret=REAL, requires={"C": "C != 0", "support": "k >= 1"}, ensures={"formula": "result == rpow(k, -alpha) / C"})      # the statement speaks of k >= 1 only
    ms = reg.module("gcmpy/distributions/scale_free_cut_off.py")
    ms.fn("scale_free_cut_off.polylog", params={"s": REAL, "z": REAL}, ret=REAL,
          ensures={"partial_sum": "k >= 1 and result == plsum(s, z, k)",
                   "cut_at_a_term_below_the_tolerance": f"abs(zpow(z, k) / rpow(k, s)) < {TOL}"},
          loops={0: dict(inv={"k": "k >= 1", "sum": "l == plsum(s, z, k - 1)", "zk": "zk == zpow(z, k)", "tol": f"0 < tol and tol <= {TOL}"})})
    ms.fn("scale_free_cut_off.p", params={"k": INT, "alpha": REAL, "kappa": REAL, "C": REAL}, ghost=["alpha", "kappa", "C"], ret=REAL,
          requires={"C": "C != 0", "kappa": "kappa != 0", "support": "k >= 1"}, ensures={"formula": "result == rpow(k + 0.0, -alpha) * exp(-(k + 0.0) / kappa) / C"})
    mx = reg.module("gcmpy/distributions/exponential.py")
    mx.fn("exponential.p", params={"k": INT, "a": REAL}, ghost=["a"], ret=REAL, requires={"support": "k >= 0"}, ensures={"formula": "result == (1 - exp(-a)) * exp(-a * k)"})
    mp = reg.module("gcmpy/distributions/poisson.py")
    mp.fn("poisson.p", params={"k": INT, "kmean": REAL}, ghost=["kmean"], ret=REAL, requires={"support": "k >= 0"},
          ensures={"formula": "result == exp(-kmean) * rpow(kmean, k) / fact(k)"})
    # ---- structural obligations: how each factory binds the captured normaliser and what it returns
    def factory_shape(relpath, outer, binds, returns="p"):
        def chk(reg_):
            d = reg_.find_def(relpath, outer); body = [s for s in d.body if not (isinstance(s, ast.Expr) and isinstance(s.value, ast.Constant))]
            got = {}
            for s in body:
                if isinstance(s, ast.FunctionDef): continue
                if isinstance(s, ast.Assign) and len(s.targets) == 1 and isinstance(s.targets[0], ast.Name): got.setdefault(s.targets[0].id, []).append(ast.unparse(s.value).replace(" ", "")); continue
                if isinstance(s, ast.Return): got["return"] = [ast.unparse(s.value)]; continue
                return False, f"unexpected statement in {outer}: {ast.unparse(s)[:60]}"
            want = {k: [v.replace(" ", "")] for k, v in binds.items()}; want["return"] = [returns]
            # captured names must not be re-bound inside the returned closure
            inner = next(s for s in d.body if isinstance(s, ast.FunctionDef) and s.name == returns)
            rebound = [n.id for n in ast.walk(inner) if isinstance(n, ast.Name) and isinstance(n.ctx, ast.Store) and n.id in binds]
            return (got == want and not rebound), f"{outer}: bindings {got}, expected {want}"
        return chk
    reg.static_checks += [("power_law:static.normaliser_is_zeta_of_alpha_and_p_is_returned", factory_shape("gcmpy/distributions/power_law.py", "power_law", {"C": "zeta(alpha)"})),
                          ("scale_free_cut_off:static.normaliser_is_polylog_and_p_is_returned", factory_shape("gcmpy/distributions/scale_free_cut_off.py", "scale_free_cut_off", {"C": "polylog(alpha, np.exp(-1.0 / kappa))"})),
                          ("exponential:static.p_is_returned", factory_shape("gcmpy/distributions/exponential.py", "exponential", {})),
                          ("poisson:static.p_is_returned", factory_shape("gcmpy/distributions/poisson.py", "poisson", {}))]
    def links(reg_):
        import importlib
        missing = []
        for relpath in ("gcmpy/distributions/poisson.py", "gcmpy/distributions/exponential.py", "gcmpy/distributions/scale_free_cut_off.py"):
            tree = reg_.tree(relpath)
            for nd in ast.walk(tree):
                if isinstance(nd, ast.Attribute) and isinstance(nd.value, (ast.Name, ast.Attribute)):
                    dotted = ast.unparse(nd); root = dotted.split(".")[0]
                    if root in ("np", "math"):
                        obj = importlib.import_module("numpy" if root == "np" else "math")
                        try:
                            for part in dotted.split(".")[1:]: obj = getattr(obj, part)
                        except AttributeError: missing.append(dotted)
        return (not missing), f"unresolvable library names: {missing}"
    reg.static_checks.append(("distributions:link.library_names_resolve", links))
    return ["power_law.zeta", "power_law.p", "scale_free_cut_off.polylog", "scale_free_cut_off.p", "exponential.p", "poisson.p"]
