import ast, z3
from vf.spec import *
from vf.sym import to_real
RPOW = z3.Function("rpow", z3.RealSort(), z3.RealSort(), z3.RealSort())
def build(reg):
    x, y = z3.Reals("x_ y_")
    reg.axioms.append(("rpow.positive", z3.ForAll([x, y], z3.Implies(x > 0, RPOW(x, y) > 0), patterns=[RPOW(x, y)]), "a positive real raised to a real power is positive"))
    reg.native_specfuns["rpow"] = dict(smt=lambda ex, a, b: Val(REAL, RPOW(to_real(a), to_real(b))), rt=lambda a, b: float(a) ** float(b))
    reg.binop_hooks["pow"] = lambda ex, a, b, pc, n: (ex.assumptions.add("x ** y and pow(x, y) on reals are the uninterpreted real power rpow (A-REAL)") or Val(REAL, RPOW(to_real(a), to_real(b))))
    def hook(ex, n, st, pc):
        if isinstance(n, ast.Call) and isinstance(n.func, ast.Name):
            if n.func.id == "abs" and len(n.args) == 1:
                a = ex.expr(n.args[0], st, pc); return Val(a.t, z3.If(a.z < 0, -a.z, a.z))
            if n.func.id == "pow" and len(n.args) == 2:
                a, b = ex.expr(n.args[0], st, pc), ex.expr(n.args[1], st, pc); return Val(REAL, RPOW(to_real(a), to_real(b)))
        return None
    reg.call_hooks.append(hook)
    reg.specfun("psum", [("s", REAL), ("n", INT)], REAL, base="0.0", rec="psum(s, n - 1) + 1.0 / rpow(n, s)")
    m = reg.module("gcmpy/distributions/power_law.py")
    m.fn("power_law.zeta", params={"s": REAL}, ret=REAL,
         ensures={"partial_sum": "k >= 1 and result == psum(s, k)", "stops_at_first_small_term": "1.0 / rpow(k, s) < 0.000001 and forall(j, 1, k, 1.0 / rpow(j, s) >= 0.000001)"},
         loops={0: dict(inv={"k": "k >= 1", "sum": "l == psum(s, k - 1)", "tol": "tol == 0.000001",
                             "not_yet": "forall(j, 1, k, 1.0 / rpow(j, s) >= 0.000001)"})})
    m.fn("power_law.p", params={"k": INT, "alpha": REAL, "C": REAL}, ghost=["alpha", "C"], ret=REAL,
         requires={"C": "C != 0"}, ensures={"formula": "result == rpow(k, -alpha) / C"})
    return ["power_law.zeta", "power_law.p"]
