"""C13: contracts of the real mixing-matrix extractor (gcmpy/tools/joint_excess_joint_degree.py) and of the overall-degree variant."""
import ast, z3
from vf.spec import *
from vf.sym import Unsupported
Name = Elem("Name"); Gt = Elem("Graph")
JD = ListT(INT, tagged=True); Key = PairT(JD, JD); Edge = PairT(INT, INT); LEdge = ListT(Edge); LName = ListT(Name)
IKey = PairT(INT, INT)
ES = z3.Function("edge_seq", Gt.sort(), LEdge.sort())
ETOP = z3.Function("etop", Gt.sort(), Edge.sort(), Name.sort())
NJD = z3.Function("njd", Gt.sort(), z3.IntSort(), JD.sort())
DEG = z3.Function("deg", Gt.sort(), z3.IntSort(), z3.IntSort())
def dec_z(jd, i): return JD.make(JD.len(jd), z3.Store(JD.arr(jd), i, z3.Select(JD.arr(jd), i) - 1), kind=z3.BoolVal(True))

def build(reg):
    reg.type("Name", Name); reg.type("Key", Key); reg.type("IKey", IKey); reg.type("JD", JD)
    NS = reg.native_specfuns
    NS["es"] = dict(smt=lambda ex, g: Val(LEdge, ES(g.z)), rt=lambda g: list(g.edges()))
    NS["etop"] = dict(smt=lambda ex, g, e: Val(Name, ETOP(g.z, e.z)), rt=None)
    NS["njd"] = dict(smt=lambda ex, g, n: Val(JD, NJD(g.z, n.z)), rt=None)
    NS["deg"] = dict(smt=lambda ex, g, n: Val(INT, DEG(g.z, n.z)), rt=None)
    NS["dec"] = dict(smt=lambda ex, jd, i: Val(JD, dec_z(jd.z, i.z)), rt=None)
    NS["cat"] = dict(smt=lambda ex, a, b: Val(Key, Key.mk(a.z, b.z)), rt=lambda a, b: a + b)
    g = z3.Const("g_", Gt.sort()); n, j = z3.Ints("n_ j_")
    reg.axioms += [
        ("edge_seq.len", z3.ForAll([g], LEdge.len(ES(g)) >= 0, patterns=[ES(g)]), "G.edges() is a finite sequence"),
        ("njd.wellformed", z3.ForAll([g, n], z3.And(JD.len(NJD(g, n)) >= 0, JD.kind(NJD(g, n))), patterns=[NJD(g, n)]), "vertex annotations are tuples"),
        ("njd.normal_form", z3.ForAll([g, n, j], z3.Implies(z3.Or(j < 0, j >= JD.len(NJD(g, n))), z3.Select(JD.arr(NJD(g, n)), j) == 0), patterns=[z3.Select(JD.arr(NJD(g, n)), j)]),
         "A-WF: a tuple value is represented with zeros outside its index range, so that solver equality is Python equality")]
    reg.binop_hooks["concat"] = lambda ex, a, b: (ex.assumptions.add("L-CAT: a + b on equal-length joint-degree tuples is represented as the pair (a, b) (concatenation of equal-length tuples is injective)") or Val(Key, Key.mk(a.z, b.z))) if (isinstance(a.t, ListT) and a.t.tagged and isinstance(b.t, ListT) and b.t.tagged) else None
    def is_graph(ex, node, st, pc):
        try: v = ex.expr(node, st, list(pc))
        except Exception: return None
        return v if isinstance(v, Val) and v.t == Gt else None
    def hook(ex, node, st, pc):
        if isinstance(node, ast.Call) and isinstance(node.func, ast.Name) and node.func.id == "len" and len(node.args) == 1 and isinstance(node.args[0], ast.Call) \
                and isinstance(node.args[0].func, ast.Attribute) and node.args[0].func.attr == "edges" and not node.args[0].args:
            gv = is_graph(ex, node.args[0].func.value, st, pc)
            if gv is not None: ex.assumptions.add("len(G.edges()) is the length of the enumeration G.edges()"); return Val(INT, LEdge.len(ES(gv.z)))
        if isinstance(node, ast.Call) and isinstance(node.func, ast.Attribute) and node.func.attr == "edges" and not node.args and not node.keywords:
            gv = is_graph(ex, node.func.value, st, pc)
            if gv is not None:
                ex.assumptions.add("G.edges() enumerates each undirected edge of the (unmodified) graph once, in a fixed order"); return Val(LEdge, ES(gv.z))
        if isinstance(node, ast.Call) and isinstance(node.func, ast.Attribute) and node.func.attr == "degree" and len(node.args) == 1:
            gv = is_graph(ex, node.func.value, st, pc)
            if gv is not None:
                ex.assumptions.add("G.degree(n) is the degree of n"); return Val(INT, DEG(gv.z, ex.expr(node.args[0], st, pc).z))
        if isinstance(node, ast.Subscript) and isinstance(node.value, ast.Subscript) and isinstance(node.value.value, ast.Attribute) and node.value.value.attr in ("edges", "nodes"):
            gv = is_graph(ex, node.value.value.value, st, pc)
            if gv is None: return None
            key = ast.unparse(node.slice); arg = ex.expr(node.value.slice, st, pc)
            if node.value.value.attr == "edges" and key == "NetworkNames.TOPOLOGY":
                ex.assumptions.add("G.edges[e]['topology'] reads the edge annotation (annotated network: edge and annotation exist)"); return Val(Name, ETOP(gv.z, arg.z))
            if node.value.value.attr == "nodes" and key == "NetworkNames.JOINT_DEGREE":
                ex.assumptions.add("G.nodes[n]['joint_degree'] reads the vertex annotation (annotated network)"); return Val(JD, NJD(gv.z, arg.z))
            raise Unsupported(f"graph attribute read {ast.unparse(node)}")
        return None
    reg.call_hooks.append(hook)
    reg.consts["NetworkNames.TOPOLOGY"] = Val(NONE, z3.BoolVal(True)); reg.consts["NetworkNames.JOINT_DEGREE"] = Val(NONE, z3.BoolVal(True))
    # ---- spec functions: number of t-edges among the first n, accumulated weight of an ordered pair after n edges
    E = "es(g)[n - 1]"
    K1 = f"cat(dec(njd(g, {E}[0]), i), dec(njd(g, {E}[1]), i))"; K2 = f"cat(dec(njd(g, {E}[1]), i), dec(njd(g, {E}[0]), i))"
    reg.specfun("cnt", [("g", Gt), ("t", Name), ("n", INT)], INT, base="0", rec=f"cnt(g, t, n - 1) + (1 if etop(g, {E}) == t else 0)")
    reg.specfun("wr", [("g", Gt), ("i", INT), ("t", Name), ("h", REAL), ("key", Key), ("n", INT)], REAL, base="0.0",
                rec=f"wr(g, i, t, h, key, n - 1) + ((((h if key == {K1} else 0.0) + (h if key == {K2} else 0.0))) if etop(g, {E}) == t else 0.0)")
    reg.specfun("wd", [("g", Gt), ("h", REAL), ("key", IKey), ("n", INT)], REAL, base="0.0",
                rec=f"wd(g, h, key, n - 1) + (h if key == (deg(g, {E}[0]) - 1, deg(g, {E}[1]) - 1) else 0.0) + (h if key == (deg(g, {E}[1]) - 1, deg(g, {E}[0]) - 1) else 0.0)")
    reg.lemma("cnt_nonneg", vars={"g": Gt, "t": Name, "n": INT}, induct="n", stmt="cnt(g, t, n) >= 0", trigger="cnt(g, t, n)")
    reg.lemma("cnt_positive", vars={"g": Gt, "t": Name, "n": INT, "j": INT}, induct="n", stmt="implies(0 <= j and j < n and etop(g, es(g)[j]) == t, cnt(g, t, n) >= 1)")
    reg.lemma("wr_symmetric", vars={"g": Gt, "i": INT, "t": Name, "h": REAL, "a": JD, "b": JD, "n": INT}, induct="n",
              stmt="wr(g, i, t, h, cat(a, b), n) == wr(g, i, t, h, cat(b, a), n)", trigger="wr(g, i, t, h, cat(a, b), n)")
    reg.lemma("wr_zero_without_edges", vars={"g": Gt, "i": INT, "t": Name, "h": REAL, "key": Key, "n": INT}, induct="n",
              stmt="implies(cnt(g, t, n) == 0, wr(g, i, t, h, key, n) == 0.0)", trigger="wr(g, i, t, h, key, n)")
    reg.lemma("wd_symmetric", vars={"g": Gt, "h": REAL, "a": INT, "b": INT, "n": INT}, induct="n", stmt="wd(g, h, (a, b), n) == wd(g, h, (b, a), n)", trigger="wd(g, h, (a, b), n)")
    # ---- M-SUM for matrices: total mass and the mass of one row (first half of the key), assumed finite-map sum axioms
    MT = DictT(Key, REAL); MASS = z3.Function("matrix_mass", MT.sort(), z3.RealSort()); ROW = z3.Function("row_mass", MT.sort(), JD.sort(), z3.RealSort())
    d_ = z3.Const("d_", MT.sort()); k_ = z3.Const("k_", Key.sort()); v_ = z3.Real("v_"); a_ = z3.Const("a_", JD.sort())
    upd = MT.mk(z3.Store(MT.dom(d_), k_, True), z3.Store(MT.val(d_), k_, v_)); oldv = z3.If(z3.Select(MT.dom(d_), k_), z3.Select(MT.val(d_), k_), 0)
    reg.axioms += [("M-SUM.matrix.update", z3.ForAll([d_, k_, v_], MASS(upd) == MASS(d_) - oldv + v_, patterns=[MASS(upd)]), "sum over a finite map after one update"),
                   ("M-SUM.matrix.empty", z3.ForAll([d_], z3.Implies(MT.dom(d_) == z3.K(Key.sort(), z3.BoolVal(False)), MASS(d_) == 0), patterns=[MASS(d_)]), "the empty map sums to 0"),
                   ("M-SUM.row.update", z3.ForAll([d_, k_, v_, a_], ROW(upd, a_) == ROW(d_, a_) + z3.If(Key.fst(k_) == a_, v_ - oldv, 0), patterns=[ROW(upd, a_)]), "row sum (keys whose first half is a) after one update"),
                   ("M-SUM.row.empty", z3.ForAll([d_, a_], z3.Implies(MT.dom(d_) == z3.K(Key.sort(), z3.BoolVal(False)), ROW(d_, a_) == 0), patterns=[ROW(d_, a_)]), "the empty map has empty rows")]
    NS["matrix_mass"] = dict(smt=lambda ex, d: Val(REAL, MASS(d.z)), rt=lambda d: sum(d.values()))
    NS["row_mass"] = dict(smt=lambda ex, d, a: Val(REAL, ROW(d.z, a.z)), rt=None)
    EXU = f"dec(njd(g, {E}[0]), i)"; EXV = f"dec(njd(g, {E}[1]), i)"
    reg.specfun("ends", [("g", Gt), ("i", INT), ("t", Name), ("a", JD), ("n", INT)], INT, base="0",
                rec=f"ends(g, i, t, a, n - 1) + (((1 if {EXU} == a else 0) + (1 if {EXV} == a else 0)) if etop(g, {E}) == t else 0)")
    # linear recurrences for the running mass / row mass (the products h * count are introduced once, by induction lemmas, not in the loop obligations)
    reg.specfun("massr", [("g", Gt), ("t", Name), ("h", REAL), ("n", INT)], REAL, base="0.0", rec=f"massr(g, t, h, n - 1) + ((h + h) if etop(g, {E}) == t else 0.0)")
    reg.specfun("rowr", [("g", Gt), ("i", INT), ("t", Name), ("h", REAL), ("a", JD), ("n", INT)], REAL, base="0.0",
                rec=f"rowr(g, i, t, h, a, n - 1) + (((h if {EXU} == a else 0.0) + (h if {EXV} == a else 0.0)) if etop(g, {E}) == t else 0.0)")
    reg.lemma("massr_is_2h_times_count", vars={"g": Gt, "t": Name, "h": REAL, "n": INT}, induct="n", stmt="massr(g, t, h, n) == (2 * h) * cnt(g, t, n)", trigger="massr(g, t, h, n)")
    # ---- classes
    mm = reg.module("gcmpy/tools/joint_excess_joint_degree_matrices.py")
    KEYS = DictT(Name, ListT(JD))
    MAT = mm.cls("JointExcessJointDegreeMatrices", fields={"_ejks": DictT(Name, DictT(Key, REAL)), "_excess_degree_keys": KEYS, "_topology_names": LName},
                 properties={"ejks": "_ejks", "topology_names": "_topology_names", "excess_degree_keys": "_excess_degree_keys"})
    mm.fn("JointExcessJointDegreeMatrices.__init__", params={"params": NONE},
          ensures={"no_matrices_yet": "forall_elem(t, Name, not (t in self._ejks))", "no_names": "len(self._topology_names) == 0"})
    m = reg.module("gcmpy/tools/joint_excess_joint_degree.py")
    C = m.cls("JointExcessJointDegree", fields={"_G": Gt, "_num_edges": DictT(Name, INT), "_topology_names": LName, "_ejks": MAT.ty, "_excess_degree_keys": KEYS})
    COUNTS = "forall_elem(t, Name, self._num_edges.get(t, 0) == cnt(self._G, t, len(es(self._G))))"
    CDOM = "forall_elem(t, Name, (t in self._num_edges) == (cnt(self._G, t, len(es(self._G))) > 0))"
    FRAME_G = "self._G == old(self._G) and self._topology_names == old(self._topology_names) and self._excess_degree_keys == old(self._excess_degree_keys)"
    m.fn("JointExcessJointDegree.count_edge_types",
         ensures={"counts_are_a_function_of_the_graph": COUNTS, "counted_topologies": CDOM, "graph_unchanged": FRAME_G + " and self._ejks == old(self._ejks)"},
         loops={0: dict(snap={"ne0": "self._num_edges"},
                        inv={"acc": "forall_elem(t, Name, self._num_edges.get(t, 0) == cnt(self._G, t, IT) + ne0.get(t, 0))",
                             "dom": "forall_elem(t, Name, (t in self._num_edges) == ((t in ne0) or cnt(self._G, t, IT) > 0))",
                             "frame": FRAME_G + " and self._ejks == old(self._ejks)"})})
    H = "0.5 / self._num_edges[name]"
    ANNOT = "forall(j, 0, len(es(self._G)), len(njd(self._G, es(self._G)[j][0])) == T and len(njd(self._G, es(self._G)[j][1])) == T)"
    m.fn("JointExcessJointDegree.get_ejk", params={"i": INT, "name": Name, "T": INT}, ghost=["T"], ret=DictT(Key, REAL), locals={"ejk": DictT(Key, REAL)},
         requires={"index": "0 <= i and i < T", "annotated": ANNOT, "counts": COUNTS, "counts_dom": CDOM},
         ensures={"exact": f"forall_elem(key, Key, result.get(key, 0.0) == wr(self._G, i, name, {H}, key, len(es(self._G))))",
                  "symmetric": "forall_elem(a, JD, forall_elem(b, JD, result.get(cat(a, b), 0.0) == result.get(cat(b, a), 0.0)))",
                  "total_mass": f"matrix_mass(result) == (2 * ({H})) * cnt(self._G, name, len(es(self._G)))",
                  "sums_to_one": "implies(cnt(self._G, name, len(es(self._G))) > 0, matrix_mass(result) == 1)",
                  "row_sums_are_the_fraction_of_edge_ends_in_the_class": f"forall_elem(a, JD, row_mass(result, a) == rowr(self._G, i, name, {H}, a, len(es(self._G))))",
                  "object_unchanged": "self == old(self)"},
         loops={0: dict(inv={"acc": f"forall_elem(key, Key, ejk.get(key, 0.0) == wr(self._G, i, name, {H}, key, IT))",
                             "mass": f"matrix_mass(ejk) == massr(self._G, name, {H}, IT)",
                             "rows": f"forall_elem(a, JD, row_mass(ejk, a) == rowr(self._G, i, name, {H}, a, IT))",
                             "frame": "self == old(self)"},
                        uses={"acc": ["frame"], "mass": ["frame"], "rows": ["frame"]})})
    m.fn("JointExcessJointDegree.get_ejks", params={"T": INT}, ghost=["T"], ret=MAT.ty,
         call_ghosts={"JointExcessJointDegree.get_ejk": {"T": "T"}},
         requires={"names_match_annotations": "len(self._topology_names) == T", "annotated": ANNOT,
                   "names_distinct": "forall(a, 0, len(self._topology_names), forall(b, a + 1, len(self._topology_names), self._topology_names[a] != self._topology_names[b]))"},
         ensures={"one_matrix_per_topology": "forall(k, 0, len(self._topology_names), self._topology_names[k] in result._ejks)",
                  "each_matrix_exact": "forall(k, 0, len(self._topology_names), forall_elem(key, Key, result._ejks[self._topology_names[k]].get(key, 0.0) == "
                                       "wr(self._G, k, self._topology_names[k], 0.5 / self._num_edges[self._topology_names[k]], key, len(es(self._G)))))",
                  "fresh_counts": COUNTS, "fresh_counts_dom": CDOM,
                  "independent_of_earlier_calls": "self._G == old(self._G) and self._topology_names == old(self._topology_names)",
                  "names_and_keys_attached": "result._topology_names == self._topology_names and result._excess_degree_keys == self._excess_degree_keys"},
         loops={0: dict(inv={"done": "forall(k, 0, IT, (self._topology_names[k] in self._ejks._ejks) and forall_elem(key, Key, self._ejks._ejks[self._topology_names[k]].get(key, 0.0) == "
                                     "wr(self._G, k, self._topology_names[k], 0.5 / self._num_edges[self._topology_names[k]], key, len(es(self._G)))))",
                             "counts": COUNTS, "counts_dom": CDOM, "frame": FRAME_G,
                             "attached": "self._ejks._topology_names == self._topology_names and self._ejks._excess_degree_keys == self._excess_degree_keys"})})
    md = reg.module("gcmpy/tools/joint_excess_degree.py")
    md.cls("JointExcessDegree", fields={})
    md.fn("JointExcessDegree.get_ejk", params={"G": Gt}, ret=DictT(IKey, REAL), locals={"ejk": DictT(IKey, REAL)},
          ensures={"exact": "forall_elem(key, IKey, result.get(key, 0.0) == wd(G, 0.5 / len(es(G)), key, len(es(G))))",
                   "symmetric": "forall_elem(a, Int, forall_elem(b, Int, result.get((a, b), 0.0) == result.get((b, a), 0.0)))"},
          loops={0: dict(inv={"acc": "forall_elem(key, IKey, ejk.get(key, 0.0) == wd(G, 0.5 / len(es(G)), key, IT))", "n": "num_edges == len(es(G))"})})
    reg.type("Int", INT)
    return ["JointExcessJointDegreeMatrices.__init__", "JointExcessJointDegree.count_edge_types", "JointExcessJointDegree.get_ejk", "JointExcessJointDegree.get_ejks", "JointExcessDegree.get_ejk"]
