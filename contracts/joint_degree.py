from vf.spec import *
JD = ListT(INT, tagged=True); JDS = ListT(JD); SIZES = ListT(INT)
def build(reg):
    reg.specfun("colsum", [("jds", JDS), ("c", INT), ("n", INT)], INT, base="0", rec="colsum(jds, c, n - 1) + jds[n - 1][c]")
    reg.lemma("colsum_update", vars={"jds": JDS, "v": INT, "r": JD, "c": INT, "n": INT}, induct="n",
              stmt="colsum(upd(jds, v, r), c, n) == colsum(jds, c, n) + ((r[c] - jds[v][c]) if (0 <= v and v < n) else 0)",
              trigger="colsum(upd(jds, v, r), c, n)")
    m = reg.module("gcmpy/joint_degree/joint_degree.py")
    m.cls("JointDegree", fields={"_motif_sizes": SIZES})
    CS = "colsum({j}, c, len({j}))"
    D = f"(0 if {CS.format(j='old(jds)')} % self._motif_sizes[c] == 0 else self._motif_sizes[c] - {CS.format(j='old(jds)')} % self._motif_sizes[c])"
    COMMON = {"len": "len(jds) == len(old(jds))", "rowlen": "forall(v, 0, len(jds), len(jds[v]) == T)",
              "ge": "forall(v, 0, len(jds), forall(c, 0, T, jds[v][c] >= old(jds)[v][c]))",
              "tuples": "forall(v, 0, len(jds), is_tuple(jds[v]))"}
    m.fn("JointDegree.handshaking_lemma", params={"jds": JDS, "T": INT}, ghost=["T"], ret=JDS,
      requires={"N": "len(jds) >= 1", "T": "T >= 0 and len(self._motif_sizes) == T",
                "rows": "forall(v, 0, len(jds), len(jds[v]) == T and forall(c, 0, T, jds[v][c] >= 0))",
                "sizes": "forall(c, 0, T, self._motif_sizes[c] >= 1)", "tuples": "forall(v, 0, len(jds), is_tuple(jds[v]))"},
      ensures={"len": "len(result) == len(old(jds))",
               "never_removed": "forall(v, 0, len(result), forall(c, 0, T, result[v][c] >= old(jds)[v][c]))",
               "minimal_padding": f"forall(c, 0, T, {CS.format(j='result')} == {CS.format(j='old(jds)')} + {D})",
               "divisible": f"forall(c, 0, T, {CS.format(j='result')} % self._motif_sizes[c] == 0)",
               "rows_are_tuples": "forall(v, 0, len(result), is_tuple(result[v]))", "self_unchanged": "self == old(self)"},
      loops={0: dict(inv={**COMMON, "done": f"forall(c, 0, IT, {CS.format(j='jds')} == {CS.format(j='old(jds)')} + {D})",
                          "todo": f"forall(c, IT, T, {CS.format(j='jds')} == {CS.format(j='old(jds)')})"}),
             1: dict(inv={**COMMON, "col": f"colsum(jds, i, len(jds)) == colsum(old(jds), i, len(old(jds))) + IT",
                          "others": f"forall(c, 0, T, implies(c != i, ({CS.format(j='jds')} == {CS.format(j='old(jds)')}) if c > i else ({CS.format(j='jds')} == {CS.format(j='old(jds)')} + {D})))"})})
    JDD = DictT(JD, REAL)
    reg.cls("JointDegree").fields["_jdd"] = JDD; reg.cls("JointDegree").ty = RecT("JointDegree", reg.cls("JointDegree").fields)
    reg.type("JD", JD)
    m.fn("JointDegree.sample_jds_from_jdd", params={"N": INT}, ret=JDS,
      call_ghosts={"JointDegree.handshaking_lemma": {"T": "len(self._motif_sizes)"}},
      requires={"N": "N >= 1", "sizes": "forall(c, 0, len(self._motif_sizes), self._motif_sizes[c] >= 1)",
                "keys": "forall_elem(k, JD, implies(k in self._jdd, is_tuple(k) and len(k) == len(self._motif_sizes) and forall(c, 0, len(self._motif_sizes), k[c] >= 0)))",
                "nonempty": "exists_elem(k, JD, k in self._jdd)"},
      ensures={"len": "len(result) == N",
               "drawn_from_keys": "forall(i, 0, len(CHOICES_POP), CHOICES_POP[i] in self._jdd)",
               "weights_aligned_with_keys": "len(CHOICES_W) == len(CHOICES_POP) and forall(i, 0, len(CHOICES_POP), CHOICES_W[i] == self._jdd[CHOICES_POP[i]])",
               "every_key_offered": "forall_elem(k, JD, implies(k in self._jdd, exists(i, 0, len(CHOICES_POP), CHOICES_POP[i] == k)))",
               "divisible": "forall(c, 0, len(self._motif_sizes), colsum(result, c, len(result)) % self._motif_sizes[c] == 0)",
               "rows_are_tuples": "forall(v, 0, len(result), is_tuple(result[v]))", "jdd_unchanged": "self._jdd == old(self._jdd)"},
      raises={"IndexError": dict(when="False")})
    return ["JointDegree.handshaking_lemma", "JointDegree.sample_jds_from_jdd"]
