from vf.spec import *
JD = ListT(INT, tagged=True); JDD = DictT(JD, REAL); LJD = ListT(JD); LR = ListT(REAL)
def build(reg):
    reg.type("JD", JD)
    reg.specfun("wsum", [("keys", LJD), ("jdd", JDD), ("i", INT), ("n", INT)], REAL, base="0.0", rec="wsum(keys, jdd, i, n - 1) + keys[n - 1][i] * jdd[keys[n - 1]]")
    m = reg.module("gcmpy/tools/average_joint_degree_from_jdd.py")
    m.cls("AverageJointDegreeFromJDD", fields={})
    m.fn("AverageJointDegreeFromJDD.get_average_joint_degrees", params={"jdd": JDD, "T": INT}, ghost=["T"], ret=LR,
         requires={"nonempty": "exists_elem(k, JD, k in jdd)", "keys": "forall_elem(k, JD, implies(k in jdd, len(k) == T))", "T": "T >= 0"},
         ensures={"len": "len(result) == T",
                  "weighted_mean": "forall(c, 0, T, result[c] == wsum(joint_degrees, jdd, c, len(joint_degrees)))",
                  "enumeration": "forall(j, 0, len(joint_degrees), joint_degrees[j] in jdd) and forall_elem(k, JD, implies(k in jdd, exists(j, 0, len(joint_degrees), joint_degrees[j] == k)))",
                  "input_unchanged": "jdd == old(jdd)"},
         loops={0: dict(inv={"len": "len(average_degrees) == T and num_topologies == T",
                             "acc": "forall(c, 0, T, average_degrees[c] == wsum(joint_degrees, jdd, c, IT))"},
                        head_snap={"J": "IT"}),
                1: dict(inv={"len": "len(average_degrees) == T and num_topologies == T and 0 <= J and J < len(joint_degrees) and joint_degree == joint_degrees[J]",
                             "done": "forall(c, 0, IT, average_degrees[c] == wsum(joint_degrees, jdd, c, J + 1))",
                             "todo": "forall(c, IT, T, average_degrees[c] == wsum(joint_degrees, jdd, c, J))"})})
    return ["AverageJointDegreeFromJDD.get_average_joint_degrees"]
