"""C01 / C03 for the real GCMAlgorithmCustomMotifs.random_clustered_graph: WHICH stubs reach WHICH build callback (the slot / placement clause of the custom-motif
generator).  A second contract on the same real function as contracts/gen_custom.py (that one carries the column structure of the emitted edge list, C02); this one
carries:  every stub list is replaced by a permutation of the canonical list (so vertex v keeps jds[v][c] slots in column c);  partitions[c] = the consecutive
size-c chunks of the permuted list (through the PROVED contract of the real `partition`);  motif type j builds exactly cnt[j] instances;  instance k of type j
receives, orbit by orbit IN THE ORDER OF motif_indices[j], chunk cnt[j]-1-k of each of its orbit columns;  afterwards every chunk list is empty (each chunk was
consumed exactly once) and no pop ever fails."""
import ast, z3
from vf.spec import *
from vf.sym import Unsupported
from contracts.joint_degree import JD, JDS
import contracts.gen_custom as GC
LInt, LL, LLL, ARR = GC.LInt, GC.LL, GC.LLL, GC.ARR
PERM = z3.Function("perm", LInt.sort(), LInt.sort(), z3.BoolSort())
COUNT = z3.Function("count", LInt.sort(), z3.IntSort(), z3.IntSort(), z3.IntSort())
PIDX = z3.Function("perm_idx", LInt.sort(), LInt.sort(), z3.IntSort(), z3.IntSort())

def build(reg):
    GC.build(reg)
    if "colsum" not in reg.specfuns: reg.specfun("colsum", [("jds", JDS), ("c", INT), ("n", INT)], INT, base="0", rec="colsum(jds, c, n - 1) + jds[n - 1][c]")
    reg.specfun("count", [("xs", LInt), ("v", INT), ("n", INT)], INT, base="0", rec="count(xs, v, n - 1) + (1 if xs[n - 1] == v else 0)")
    p, t = z3.Int("p_"), z3.Int("t_"); x, y = z3.Consts("x_ y_", LInt.sort())
    reg.axioms += [("perm.len", z3.ForAll([x, y], z3.Implies(PERM(x, y), LInt.len(x) == LInt.len(y)), patterns=[PERM(x, y)]), "a permutation has the same length"),
                   ("perm.reflexive", z3.ForAll([x], PERM(x, x), patterns=[PERM(x, x)]), "the identity is a permutation"),
                   ("perm.multiplicities", z3.ForAll([x, y, t], z3.Implies(PERM(x, y), COUNT(x, t, LInt.len(x)) == COUNT(y, t, LInt.len(y))), patterns=[z3.MultiPattern(PERM(x, y), COUNT(x, t, LInt.len(x)))]),
                    "M-COUNT: a permutation preserves the number of occurrences of every value (assumed consequence of bijectivity)")]
    reg.native_specfuns["perm"] = dict(smt=lambda ex, a, b: Val(BOOL, PERM(a.z, b.z)), rt=lambda a, b: sorted(a) == sorted(b))
    reg.native_specfuns["flatten"] = dict(smt=lambda ex, a: Val(LInt, GC.FLAT(a.z)), rt=lambda a: [x_ for s_ in a for x_ in s_])
    def hook(ex, n, st, pc):
        if isinstance(n, ast.ListComp) and ast.unparse(n).replace(" ", "") == "[list(chain.from_iterable(starmap(repeat,r)))forrinmap(enumerate,zip(*jds))]":
            jds = ex.expr(ast.Name(id="jds", ctx=ast.Load()), st, pc); T = st.env["T"].z
            out = fresh(LL, "stubs"); k = fresh_int("k")
            cs = ex.apply_specfun(reg.specfuns["colsum"], [jds, Val(INT, k), Val(INT, JDS.len(jds.z))]).z
            pc.append(LL.len(out.z) == T); pc.extend(wf(out))
            pc.append(z3.ForAll([k], z3.Implies(z3.And(0 <= k, k < T), LInt.len(LL.at(out.z, k)) == cs)))
            v = fresh_int("v"); N = JDS.len(jds.z); col = lambda kk: LL.at(out.z, kk)
            cnt = ex.apply_specfun(reg.specfuns["count"], [Val(LInt, col(k)), Val(INT, v), Val(INT, LInt.len(col(k)))]).z
            pc.append(z3.ForAll([k, v], z3.Implies(z3.And(0 <= k, k < T, 0 <= v, v < N), cnt == JD.at(JDS.at(jds.z, v), k))))
            ex.assumptions.add("flatten-repeat idiom: stubs[k] = [v]*jds[v][k] for v in 0..N-1: len(stubs[k]) = colsum(k), vertex v occurs exactly jds[v][k] times")
            return out
        if not isinstance(n, ast.Call): return None
        src = ast.unparse(n).replace(" ", "")
        if src.startswith("random.shuffle("):
            root, steps = ex.path_of(n.args[0], st, pc); old = ex.read_path(st, root, steps)
            new = fresh(old.t, "shuf"); pc.append(PERM(new.z, old.z)); pc.extend(wf(new)); ex.write_path(st, root, steps, new)
            ex.rng_log.append(("shuffle", new.z)); ex.assumptions.add("random.shuffle(xs) replaces xs by an arbitrary permutation of itself (multiplicities preserved: M-COUNT)")
            return Val(NONE, z3.BoolVal(True))
        if src.startswith("self.partition("):      # the repository's own helper: through its PROVED contract (contracts/gen_custom.py), not through an assumed one
            return ex.call_contract("GCMAlgorithmCustomMotifs.partition", ("self", [], st.env["self"]), n, st, pc, owner="GCMAlgorithmCustomMotifs")
        return None
    reg.call_hooks.insert(0, hook)
    m = reg.module("gcmpy/gcm_algorithm/gcm_algorithm_custom_motifs.py")
    mi, sz = "self._motif_indices", "self._motif_sizes"
    def CHUNK(c, p): return f"stubs[{c}][({p}) * {sz}[{c}] : ({p}) * {sz}[{c}] + {sz}[{c}]]"
    def PARTS(c, n): return f"(len(partitions[{c}]) == {n} and forall(p, 0, {n}, partitions[{c}][p] == {CHUNK(c, 'p')}, trigger=partitions[{c}][p]))"
    FRAME = "self == old(self) and jds == old(jds)"
    STUBS = {"stubs_len": "len(stubs) == T", "stub_lens": "forall(c, 0, T, len(stubs[c]) == colsum(jds, c, len(jds)))",
             "slots": "forall(c, 0, T, forall(v, 0, len(jds), count(stubs[c], v, len(stubs[c])) == jds[v][c]))"}
    ARGS = (f"forall(m, 0, gen, len(rec_L[m]) == len({mi}[rec_j[m]]) and rec_vs[m] == flatten(rec_L[m]) and "
            f"forall(o, 0, len({mi}[rec_j[m]]), rec_L[m][o] == {CHUNK(f'{mi}[rec_j[m]][o]', 'cnt[rec_j[m]] - 1 - rec_k[m]')}, trigger=rec_L[m][o]), trigger=rec_L[m])")
    INST = f"forall(m, 0, gen, 0 <= rec_j[m] and rec_j[m] < len({mi}) and first[rec_j[m]] <= m and m < first[rec_j[m]] + cnt[rec_j[m]] and rec_k[m] == m - first[rec_j[m]])"
    def OTHERS(j, ge=">"): return (f"forall(c, 0, T, implies(own[c] < {j}, len(partitions[c]) == 0), trigger=partitions[c]) and "
                           f"forall(c, 0, T, implies(own[c] {ge} {j}, {PARTS('c', 'cnt[own[c]]')}), trigger=partitions[c])")
    ghost = {"T": INT, "own": ARR, "orb": ARR, "cnt": ARR, "first": ARR, "rec_j": ARR, "rec_k": ARR, "rec_vs": ArrT(INT, LInt), "rec_L": ArrT(INT, LL)}
    CTX = f"0 <= j and j < len({mi}) and motif_indexes == {mi}[j] and kk == {mi}[j][0] and num_motifs == cnt[j]"
    m.fn("GCMAlgorithmCustomMotifs.random_clustered_graph", params={"jds": JDS, **ghost}, ghost=list(ghost), ret=reg.cls("LightWeightEdgeList").ty,
         locals={"partitions": LLL, "vertices": LL}, opaque_arith="all",
         requires={"N": "len(jds) >= 1", "T": f"T >= 0 and len({sz}) == T", "rows": "forall(v, 0, len(jds), len(jds[v]) == T and forall(c, 0, T, jds[v][c] >= 0))",
                   "sizes": f"forall(c, 0, T, {sz}[c] >= 1)",
                   "one_callback_pair_per_motif_type": f"len(self._build_functions) >= len({mi}) and len(self._edge_names) >= len({mi})",
                   "every_column_is_exactly_one_orbit_of_one_motif_type": (f"forall(j, 0, len({mi}), len({mi}[j]) >= 1 and forall(o, 0, len({mi}[j]), 0 <= {mi}[j][o] and {mi}[j][o] < T and own[{mi}[j][o]] == j and orb[{mi}[j][o]] == o)) and "
                                                                           f"forall(c, 0, T, 0 <= own[c] and own[c] < len({mi}) and 0 <= orb[c] and orb[c] < len({mi}[own[c]]) and {mi}[own[c]][orb[c]] == c)"),
                   "handshake_for_motif_types": (f"forall(j, 0, len({mi}), cnt[j] >= 0 and (0.0 + colsum(jds, {mi}[j][0], len(jds))) / {sz}[{mi}[j][0]] == cnt[j] and "
                                                 f"forall(o, 0, len({mi}[j]), len(range(0, colsum(jds, {mi}[j][o], len(jds)), {sz}[{mi}[j][o]])) == cnt[j]))"),
                   "first_instance_ids": f"first[0] == 0 and forall(j, 0, len({mi}), first[j + 1] == first[j] + cnt[j])",
                   "naming_callback_matches_build_callback_position_by_position": GC.SHAPE_SRC},
         ensures={"slots_per_vertex": STUBS["slots"], "stub_lists_are_the_column_sums": STUBS["stubs_len"] + " and " + STUBS["stub_lens"],
                  "callback_arguments_are_the_chunks_in_orbit_order": ARGS, "instances_per_motif_type": INST + f" and gen == first[len({mi})]",
                  "every_chunk_consumed": "len(partitions) == T and forall(c, 0, T, len(partitions[c]) == 0)", "jds_unmodified": "jds == old(jds)"},
         loops={0: dict(snap={"stubs0": "stubs"}, inv={"len": "len(stubs) == T", "lens0": "forall(c, 0, T, len(stubs0[c]) == colsum(jds, c, len(jds)))",
                             "done": "forall(c, 0, IT, perm(stubs[c], stubs0[c]))", "todo": "forall(c, IT, T, stubs[c] == stubs0[c])",
                             "canon_counts": "forall(c, 0, T, forall(v, 0, len(jds), count(stubs0[c], v, len(stubs0[c])) == jds[v][c]))", "frame": FRAME}),
                1: dict(inv={**STUBS, "frame": FRAME, "n": "len(partitions) == IT", "parts": f"forall(c, 0, IT, {PARTS('c', f'len(range(0, len(stubs[c]), {sz}[c]))')}, trigger=partitions[c])"}),
                2: dict(inv={**STUBS, "frame": FRAME, "n": "len(partitions) == T", "others": OTHERS("IT", ">="), "gen": "gen == first[IT]", "args": ARGS, "inst": INST, "recj": "forall(m, 0, gen, rec_j[m] < IT)"}),
                3: dict(inv={**STUBS, "frame": FRAME, "n": "len(partitions) == T", "others": OTHERS("j"), "mine": f"forall(c, 0, T, implies(own[c] == j, {PARTS('c', 'cnt[j] - IT')}), trigger=partitions[c])",
                             "gen": "gen == first[j] + IT", "args": ARGS, "inst": INST, "recj": "forall(m, 0, gen, rec_j[m] <= j)", "ctx": CTX},
                        head_snap={"K": "IT"}, ghost_end=["rec_j[id] = j", "rec_k[id] = k", "rec_vs[id] = vertices", "rec_L[id] = VL"]),
                4: dict(inv={**STUBS, "frame": FRAME, "n": "len(partitions) == T", "others": OTHERS("j"),
                             "mine_taken": f"forall(c, 0, T, implies(own[c] == j and orb[c] < IT, {PARTS('c', 'cnt[j] - K - 1')}), trigger=partitions[c])",
                             "mine_left": f"forall(c, 0, T, implies(own[c] == j and orb[c] >= IT, {PARTS('c', 'cnt[j] - K')}), trigger=partitions[c])",
                             "vertices": f"len(vertices) == IT and forall(o, 0, IT, vertices[o] == {CHUNK(f'{mi}[j][o]', 'cnt[j] - 1 - K')}, trigger=vertices[o])",
                             "gen": "gen == first[j] + K", "args": ARGS, "inst": INST, "recj": "forall(m, 0, gen, rec_j[m] <= j)", "ctx": CTX + " and 0 <= K and K < cnt[j] and k == K"},
                        exit_snap={"VL": "vertices"})})
    def only_shuffles(reg_):
        d = reg_.find_def("gcmpy/gcm_algorithm/gcm_algorithm_custom_motifs.py", "GCMAlgorithmCustomMotifs.random_clustered_graph")
        calls = [n for n in ast.walk(d) if isinstance(n, ast.Call) and ast.unparse(n.func).startswith("random.")]
        ok = len(calls) == 1 and ast.unparse(calls[0].func) == "random.shuffle"
        loops = [n for n in d.body if isinstance(n, ast.For)]; first = loops[0] if loops else None
        ok = ok and first is not None and ast.unparse(first.iter) == "stubs" and any(c is calls[0] for c in ast.walk(first)) and ast.unparse(calls[0].args[0]) == ast.unparse(first.target)
        return ok, "exactly one random.* call site: random.shuffle(<loop variable>) inside `for ... in stubs`, before the chunks are cut" if ok else f"random call sites: {[ast.unparse(c)[:40] for c in calls]}"
    reg.static_checks.append(("GCMAlgorithmCustomMotifs.random_clustered_graph:static.only_randomness_is_one_shuffle_per_stub_list", only_shuffles))
    return ["GCMAlgorithmCustomMotifs.random_clustered_graph"]
