import ast, z3
from vf.spec import *
from vf.idioms import is_call
from vf.sym import Unsupported
Clique = Elem("Clique"); P = PairT(INT, INT); LP = ListT(P); LC = ListT(Clique)
CSIZE = z3.Function("csize", Clique.sort(), z3.IntSort())
CMEM = z3.Function("cmem", Clique.sort(), z3.IntSort(), z3.BoolSort())
PAIRS = z3.Function("pairs", Clique.sort(), LP.sort())                      # itertools.combinations(c, 2)
LABEL = RecT("Label", {"size": INT, "members": Clique, "id": INT})            # f"{len(c)}-{c}-{ID}" as an injective triple
GRAPH = RecT("Graph", {"adj": SetT(P), "lab_has": SetT(P), "lab": ArrT(P, LABEL)})
mk = P.mk
def inpair(c, u, v): return z3.And(u != v, CMEM(c, u), CMEM(c, v))

def build(reg):
    reg.type("Clique", Clique); reg.type("Int", INT); reg.type("Pair", P)
    c = z3.Const("c_", Clique.sort()); u, v, i, j = z3.Ints("u_ v_ i_ j_")
    pl = PAIRS(c)
    reg.axioms += [
      ("combinations2.sound", z3.ForAll([c, i], z3.Implies(z3.And(0 <= i, i < LP.len(pl)), inpair(c, P.fst(LP.at(pl, i)), P.snd(LP.at(pl, i)))), patterns=[LP.at(pl, i)]),
         "itertools.combinations(c, 2) yields pairs of distinct members of c"),
      ("combinations2.complete", z3.ForAll([c, u, v], z3.Implies(inpair(c, u, v), z3.Exists([i], z3.And(0 <= i, i < LP.len(pl), z3.Or(LP.at(pl, i) == mk(u, v), LP.at(pl, i) == mk(v, u))))),
         patterns=[z3.MultiPattern(CMEM(c, u), CMEM(c, v))]), "... and every unordered pair of distinct members appears"),
      ("combinations2.len", z3.ForAll([c], LP.len(pl) >= 0, patterns=[PAIRS(c)]), "length is non-negative"),
    ]
    NS = reg.native_specfuns
    NS["csize"] = dict(smt=lambda ex, x: Val(INT, CSIZE(x.z)), rt=len)
    NS["cmem"] = dict(smt=lambda ex, x, n: Val(BOOL, CMEM(x.z, n.z)), rt=lambda x, n: n in x)
    NS["inpair"] = dict(smt=lambda ex, x, a, b: Val(BOOL, inpair(x.z, a.z, b.z)), rt=lambda x, a, b: a != b and a in x and b in x)
    NS["pairs"] = dict(smt=lambda ex, x: Val(LP, PAIRS(x.z)), rt=None)
    NS["label"] = dict(smt=lambda ex, sz, mem, idv: Val(LABEL, LABEL.mk(sz.z, mem.z, idv.z)), rt=None)
    def hook(ex, n, st, pc):
        G = GRAPH
        if isinstance(n, ast.Call):
            src = ast.unparse(n).replace(" ", "")
            if src == "G.copy()": return ex.expr(ast.Name(id="G", ctx=ast.Load()), st, pc)          # value semantics: an independent copy
            if src == "list(nx.enumerate_all_cliques(g))":
                g = ex.expr(ast.Name(id="g", ctx=ast.Load()), st, pc); L = fresh(LC, "cliques"); a, b, q = fresh_int("a"), fresh_int("b"), fresh_int("q")
                at = lambda k: LC.at(L.z, k)
                pc.append(LC.len(L.z) >= 0)
                pc.append(z3.ForAll([q, a, b], z3.Implies(z3.And(0 <= q, q < LC.len(L.z), inpair(at(q), a, b)), z3.Select(G.getf(g.z, "adj"), mk(a, b)))))
                pc.append(z3.ForAll([a, b], z3.Implies(z3.Select(G.getf(g.z, "adj"), mk(a, b)), z3.Exists([q], z3.And(0 <= q, q < LC.len(L.z), CMEM(at(q), a), CMEM(at(q), b), CSIZE(at(q)) == 2,
                          z3.ForAll([i], z3.Implies(CMEM(at(q), i), z3.Or(i == a, i == b))))))))
                pc.append(z3.ForAll([q], z3.Implies(z3.And(0 <= q, q < LC.len(L.z)), CSIZE(at(q)) >= 1)))
                ex.assumptions.add("nx.enumerate_all_cliques(g): every listed vertex set is a clique of g; every edge of g is listed as a 2-clique")
                return L
            if is_call(n, "shuffle", 1) or (is_call(n, "sorted", 1) and any(k.arg == "key" for k in n.keywords)):
                root, steps = ex.path_of(n.args[0], st, pc); old = ex.read_path(st, root, steps); new = fresh(old.t, "perm"); q = fresh_int("q")
                f = z3.Function(f"pi!{uid()}", z3.IntSort(), z3.IntSort()); finv = z3.Function(f"pinv!{uid()}", z3.IntSort(), z3.IntSort()); Ln = LC.len(old.z)
                pc.append(LC.len(new.z) == Ln)
                pc.append(z3.ForAll([q], z3.Implies(z3.And(0 <= q, q < Ln), z3.And(0 <= f(q), f(q) < Ln, LC.at(new.z, q) == LC.at(old.z, f(q)), finv(f(q)) == q))))
                pc.append(z3.ForAll([q], z3.Implies(z3.And(0 <= q, q < Ln), z3.And(0 <= finv(q), finv(q) < Ln, f(finv(q)) == q, LC.at(new.z, finv(q)) == LC.at(old.z, q))),
                                    patterns=[LC.at(old.z, q)]))
                if is_call(n, "sorted", 1):
                    kw = {k.arg: ast.unparse(k.value) for k in n.keywords}
                    if kw.get("key") != "len" or kw.get("reverse", "False") not in ("True", "False"): raise Unsupported("sorted() with other key/reverse")
                    a, b = fresh_int("a"), fresh_int("b"); desc = kw.get("reverse", "False") == "True"
                    sa, sb = CSIZE(LC.at(new.z, a)), CSIZE(LC.at(new.z, b))
                    pc.append(z3.ForAll([a, b], z3.Implies(z3.And(0 <= a, a <= b, b < Ln), (sa >= sb) if desc else (sa <= sb))))
                    ex.assumptions.add("sorted(xs, key=len, reverse=True) is a permutation of xs ordered by size, largest first"); return new
                ex.write_path(st, root, steps, new); ex.assumptions.add("random.shuffle(xs) replaces xs by an arbitrary permutation"); return Val(NONE, z3.BoolVal(True))
            if is_call(n, "len", 1) and isinstance(ex.expr(n.args[0], st, list(pc)).t, Elem):
                return Val(INT, CSIZE(ex.expr(n.args[0], st, pc).z))
            if src.startswith("itertools.combinations(") and src.endswith(",2)"):
                return Val(LP, PAIRS(ex.expr(n.args[0], st, pc).z))
            if is_call(n, "list", 1) and ast.unparse(n.args[0]).startswith("itertools.combinations("): return ex.expr(n.args[0], st, pc)
            if src.startswith("itertools.count(") and len(n.args) <= 1 and not n.keywords:
                # a running counter from whatever start the code chooses (ghost ID0): the property asks for ids unique per clique, not for a particular first id
                start = ex.expr(n.args[0], st, pc) if n.args else Val(INT, z3.IntVal(0))
                if isinstance(start.t, IntT): st.env["ID0"] = start; return Val(INT, start.z)
            if src == "next(clique_ID)":
                cur = st.env["clique_ID"]; st.env["clique_ID"] = Val(INT, cur.z + 1); return cur
            if isinstance(n.func, ast.Attribute) and n.func.attr == "has_edge":
                g = ex.expr(n.func.value, st, pc); a, b = [ex.expr(x, st, pc) for x in n.args]
                return Val(BOOL, z3.Select(G.getf(g.z, "adj"), mk(a.z, b.z)))
            if isinstance(n.func, ast.Attribute) and n.func.attr == "remove_edges_from":
                root, steps = ex.path_of(n.func.value, st, pc); g = ex.read_path(st, root, steps); es = ex.expr(n.args[0], st, pc); new = fresh(G, "g"); a, b, q = fresh_int("a"), fresh_int("b"), fresh_int("q")
                pc.append(z3.ForAll([a, b], z3.Select(G.getf(new.z, "adj"), mk(a, b)) == z3.And(z3.Select(G.getf(g.z, "adj"), mk(a, b)),
                          z3.Not(z3.Exists([q], z3.And(0 <= q, q < LP.len(es.z), z3.Or(LP.at(es.z, q) == mk(a, b), LP.at(es.z, q) == mk(b, a))))))))
                pc.append(G.getf(new.z, "lab_has") == G.getf(g.z, "lab_has")); pc.append(G.getf(new.z, "lab") == G.getf(g.z, "lab"))
                ex.write_path(st, root, steps, new); ex.assumptions.add("Graph.remove_edges_from(es) removes exactly the listed (undirected) edges"); return Val(NONE, z3.BoolVal(True))
        if isinstance(n, ast.JoinedStr):
            cc = ex.expr(ast.Name(id="c", ctx=ast.Load()), st, pc); idv = ex.expr(ast.Name(id="ID", ctx=ast.Load()), st, pc)
            ex.assumptions.add('the label f"{len(c)}-{c}-{ID}" is an injective encoding of (size, members, id)')
            return Val(LABEL, LABEL.mk(CSIZE(cc.z), cc.z, idv.z))
        return None
    reg.call_hooks.append(hook)
    # statement hook: G.edges[a, b]["clique"] = label
    def assign_label(ex, s, st, pc):
        if isinstance(s, ast.Assign) and ast.unparse(s.targets[0]).replace(" ", "").startswith("G.edges[") and ast.unparse(s.targets[0]).endswith("['clique']"):
            G = GRAPH; tgt = s.targets[0]; a, b = [ex.expr(x, st, pc) for x in tgt.value.slice.elts]; lab = ex.expr(s.value, st, pc); g = st.env["G"]
            ex.branch_exc(pc, z3.Not(z3.Select(G.getf(g.z, "adj"), mk(a.z, b.z))), "KeyError", s)
            lh = z3.Store(z3.Store(G.getf(g.z, "lab_has"), mk(a.z, b.z), True), mk(b.z, a.z), True)
            lb = z3.Store(z3.Store(G.getf(g.z, "lab"), mk(a.z, b.z), lab.z), mk(b.z, a.z), lab.z)
            st.env["G"] = Val(G, G.mk(G.getf(g.z, "adj"), lh, lb))
            ex.assumptions.add("G.edges[u, v][name] = x sets the attribute of the existing undirected edge (KeyError if absent)")
            return True
        return None
    reg.stmt_hooks.append(assign_label)
    m = reg.module("gcmpy/covers/mpcc.py")
    SYM = "forall_elem(a, Int, forall_elem(b, Int, ((a, b) in {g}.adj) == ((b, a) in {g}.adj)))"
    CLAIMED = "exists(m, 0, len(cover), inpair(cover[m], a, b))"
    INV0 = {"sym_g": SYM.format(g="g"),
            "g_is_rest": f"forall_elem(a, Int, forall_elem(b, Int, ((a, b) in g.adj) == (((a, b) in G.adj) and not {CLAIMED})))",
            "cover_are_cliques": "forall(m, 0, len(cover), forall_elem(a, Int, forall_elem(b, Int, implies(inpair(cover[m], a, b), (a, b) in G.adj))))",
            "cover_disjoint": "forall(m, 0, len(cover), forall(m2, m + 1, len(cover), forall_elem(a, Int, forall_elem(b, Int, not (inpair(cover[m], a, b) and inpair(cover[m2], a, b))))))",
            "cover_within_limit": "forall(m, 0, len(cover), implies(max_size > 0, csize(cover[m]) <= max_size))",
            "cover_sizes_ge": "forall(m, 0, len(cover), forall(q, IT, len(cliques), csize(cover[m]) >= csize(cliques[q])))",
            "greedy_maximal": "forall(q, 0, IT, implies(not (csize(cliques[q]) > max_size and max_size > 0), forall_elem(a, Int, forall_elem(b, Int, implies(inpair(cliques[q], a, b), "
                              "exists(m, 0, len(cover), exists_pair_claim(cover[m], cliques[q]))))) or True))",
            "G_unchanged": "G == old(G)"}
    INV0.pop("greedy_maximal")
    INV0["processed"] = ("forall(q, 0, IT, implies(not (csize(cliques[q]) > max_size and max_size > 0), "
                         "exists(m, 0, len(cover), cover[m] == cliques[q]) or "
                         f"exists_elem(a, Int, exists_elem(b, Int, inpair(cliques[q], a, b) and {CLAIMED}))))")
    INV0["greedy_maximal"] = ("forall(q, 0, IT, implies(not (csize(cliques[q]) > max_size and max_size > 0), "
                         "exists(m, 0, len(cover), cover[m] == cliques[q]) or "
                         "exists_elem(a, Int, exists_elem(b, Int, inpair(cliques[q], a, b) and exists(m, 0, len(cover), inpair(cover[m], a, b) and csize(cover[m]) >= csize(cliques[q]))))))")
    m.fn("MPCC", params={"G": GRAPH, "max_size": INT}, ret=GRAPH, locals={"cover": LC},
         requires={"sym": SYM.format(g="G"), "loop_free": "forall_elem(a, Int, not ((a, a) in G.adj))", "limit": "max_size == 0 or max_size >= 2"},
         ensures={"edges_unchanged": "result.adj == old(G).adj",
                  "all_edges_claimed": f"forall_elem(a, Int, forall_elem(b, Int, implies((a, b) in old(G).adj, {CLAIMED})))",
                  "label_is_size_members_id": "forall(m, 0, len(cover), forall_elem(a, Int, forall_elem(b, Int, implies(inpair(cover[m], a, b), result.lab[(a, b)] == label(csize(cover[m]), cover[m], ID0 + m)))))",
                  "greedy_maximal": INV0["greedy_maximal"].replace("IT", "len(cliques)"),
                  "cover_disjoint": INV0["cover_disjoint"], "cover_within_limit": INV0["cover_within_limit"],
                  "every_edge_labelled": "forall_elem(a, Int, forall_elem(b, Int, implies((a, b) in result.adj, (a, b) in result.lab_has)))"},
         loops={0: dict(inv=INV0, end_hints={
                    "new_last": "implies(len(cover) == len(cover_at_head) + 1, cover[len(cover) - 1] == c and forall(m, 0, len(cover_at_head), cover[m] == cover_at_head[m]))",
                    "same": "implies(len(cover) == len(cover_at_head), cover == cover_at_head and g == g_at_head)",
                    "witness_new": "implies(len(cover) == len(cover_at_head) + 1, forall_elem(a, Int, forall_elem(b, Int, inpair(c, a, b) == inpair(cover[len(cover) - 1], a, b))))",
                    "witness_old": "forall(m, 0, len(cover_at_head), forall_elem(a, Int, forall_elem(b, Int, inpair(cover_at_head[m], a, b) == inpair(cover[m], a, b))))"},
                    head_snap={"cover_at_head": "cover", "g_at_head": "g"}),
                1: dict(inv={"skip_iff": "skip == exists(q, 0, IT, not ((pairs(c)[q][0], pairs(c)[q][1]) in g.adj))", "frame": "g == g_in and cover == cover_in and G == old(G)"},
                        snap={"g_in": "g", "cover_in": "cover"}),
                2: dict(iterates="cover", inv={"adj": "G.adj == old(G).adj", "ids": "clique_ID == ID0 + IT",
                             "claimed_all": f"forall_elem(a, Int, forall_elem(b, Int, implies((a, b) in old(G).adj, {CLAIMED})))",
                             "labelled": "forall(m, 0, IT, forall_elem(a, Int, forall_elem(b, Int, implies(inpair(cover[m], a, b), (a, b) in G.lab_has))))",
                             "label_of": "forall(m, 0, IT, forall_elem(a, Int, forall_elem(b, Int, implies(inpair(cover[m], a, b), G.lab[(a, b)] == label(csize(cover[m]), cover[m], ID0 + m)))))",
                             "cover": "cover == cover_fin"}, snap={"cover_fin": "cover"}),
                3: dict(inv={"adj": "G.adj == old(G).adj", "cover": "cover == cover_fin and clique_ID == clique_ID_in",
                             "earlier": "forall(m, 0, IT_outer, forall_elem(a, Int, forall_elem(b, Int, implies(inpair(cover[m], a, b), (a, b) in G.lab_has))))",
                             "this": "forall(q, 0, IT, (pairs(c)[q] in G.lab_has) and ((pairs(c)[q][1], pairs(c)[q][0]) in G.lab_has))",
                             "this_label": "forall(q, 0, IT, G.lab[pairs(c)[q]] == label(csize(c), c, ID) and G.lab[(pairs(c)[q][1], pairs(c)[q][0])] == label(csize(c), c, ID))",
                             "earlier_label": "forall(m, 0, IT_outer, forall_elem(a, Int, forall_elem(b, Int, implies(inpair(cover[m], a, b), G.lab[(a, b)] == label(csize(cover[m]), cover[m], ID0 + m)))))", "cur": "c == cover[IT_outer] and ID == ID0 + IT_outer"},
                        snap={"clique_ID_in": "clique_ID", "IT_outer": "IT"})})
    return ["MPCC"]
