"""C15 (history clause): structural obligations over the real AutomatedEquation source -- the two caches are keyed by the motif's name and
hold values computed from the graph structure, the focal vertex and the component only (no occupation probability, no 'u' attribute)."""
import ast
from vf.spec import *
REL = "gcmpy/message_passing/equations/automated_equation.py"
def build(reg):
    def fn(reg_, name): return reg_.find_def(REL, f"AutomatedEquation.{name}")
    def reads_u_or_p(node):
        bad = []
        for n in ast.walk(node):
            if isinstance(n, ast.Subscript) and isinstance(n.slice, ast.Constant) and n.slice.value == "u": bad.append("['u']")
            if isinstance(n, ast.Name) and n.id in ("p", "phi"): bad.append(n.id)
            if isinstance(n, ast.Call) and isinstance(n.func, ast.Attribute) and n.func.attr == "get_us": bad.append("get_us")
        return bad
    def structural(reg_):
        probs = []
        for f in ("get_connected_subgraphs", "_get_connected_subgraphs", "get_edge_combinations"):
            b = reads_u_or_p(fn(reg_, f))
            if b: probs.append(f"{f} reads {sorted(set(b))}")
        return (not probs), "; ".join(probs) or "cache-filling functions read neither p nor u"
    def keys(reg_):
        probs = []
        for f, cache in (("get_connected_subgraphs", "_connected_subgraphs"), ("get_edge_combinations", "_edge_combinations")):
            d = fn(reg_, f); keyexpr = [s.value for s in d.body if isinstance(s, (ast.Assign, ast.AnnAssign)) and ast.unparse(s.targets[0] if isinstance(s, ast.Assign) else s.target) == "key"]
            if len(keyexpr) != 1 or "G.name" not in ast.unparse(keyexpr[0]): probs.append(f"{f}: cache key is not built from G.name"); continue
            params = {a.arg for a in d.args.args} - {"self", "G"}
            if not all(any(isinstance(n, ast.Name) and n.id == q for n in ast.walk(keyexpr[0])) for q in params): probs.append(f"{f}: cache key does not mention every parameter {sorted(params)}")
        return (not probs), "; ".join(probs) or "keys mention the motif name and every parameter"
    def only_two_caches(reg_):
        cls = next(n for n in reg_.tree(REL).body if isinstance(n, ast.ClassDef) and n.name == "AutomatedEquation")
        stores = set()
        for n in ast.walk(cls):
            tg = n.targets if isinstance(n, ast.Assign) else ([n.target] if isinstance(n, (ast.AugAssign, ast.AnnAssign)) else [])
            for t in tg:
                while isinstance(t, ast.Subscript): t = t.value
                if isinstance(t, ast.Attribute) and isinstance(t.value, ast.Name) and t.value.id == "self": stores.add(t.attr)
        extra = stores - {"_edge_combinations", "_connected_subgraphs"}
        return (not extra), f"evaluator state beyond the two structural caches: {sorted(extra)}" if extra else "the evaluator's only state are the two structural caches"
    reg.static_checks += [("AutomatedEquation:static.caches_hold_structure_only", structural), ("AutomatedEquation:static.cache_keys_name_the_motif_and_all_parameters", keys),
                          ("AutomatedEquation:static.no_other_state", only_two_caches)]
    return []
