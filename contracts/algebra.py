"""C14: contracts of the degree-distribution algebra (excess distributions from P, single inversion, network histogram) on top of contracts/average.py."""
import ast, z3
from vf.spec import *
from vf.sym import Unsupported
import contracts.average as average
JD = average.JD; JDD = average.JDD; LJD = average.LJD; LR = average.LR
Gt = Elem("Graph"); LInt = ListT(INT)
def dec_z(jd, i): return JD.make(JD.len(jd), z3.Store(JD.arr(jd), i, z3.Select(JD.arr(jd), i) - 1), kind=z3.BoolVal(True))
def inc_z(jd, i): return JD.make(JD.len(jd), z3.Store(JD.arr(jd), i, z3.Select(JD.arr(jd), i) + 1), kind=z3.BoolVal(True))
NS_ = z3.Function("node_seq", Gt.sort(), LInt.sort()); NJD = z3.Function("njd", Gt.sort(), z3.IntSort(), JD.sort()); ORDER = z3.Function("order", Gt.sort(), z3.IntSort())
def build(reg):
    quals = average.build(reg)
    NS = reg.native_specfuns
    NS["dec"] = dict(smt=lambda ex, jd, i: Val(JD, dec_z(jd.z, i.z)), rt=None); NS["inc"] = dict(smt=lambda ex, jd, i: Val(JD, inc_z(jd.z, i.z)), rt=None)
    NS["nodes"] = dict(smt=lambda ex, g: Val(LInt, NS_(g.z)), rt=lambda g: list(g.nodes())); NS["njd"] = dict(smt=lambda ex, g, n: Val(JD, NJD(g.z, n.z)), rt=None)
    g = z3.Const("g_", Gt.sort()); n, j = z3.Ints("n_ j_")
    reg.axioms += [("G.nodes().len", z3.ForAll([g], z3.And(LInt.len(NS_(g)) >= 0, ORDER(g) == LInt.len(NS_(g))), patterns=[NS_(g)]), "G.order() is the length of the enumeration G.nodes()"),
                   ("njd.wellformed", z3.ForAll([g, n], z3.And(JD.len(NJD(g, n)) >= 0), patterns=[NJD(g, n)]), "vertex annotations are sequences")]
    def hook(ex, node, st, pc):
        def graph(v):
            try: x = ex.expr(v, st, list(pc))
            except Exception: return None
            return x if isinstance(x, Val) and x.t == Gt else None
        if isinstance(node, ast.Call) and isinstance(node.func, ast.Attribute) and not node.args:
            gv = graph(node.func.value)
            if gv is not None and node.func.attr == "order": ex.assumptions.add("G.order() = number of vertices"); return Val(INT, ORDER(gv.z))
            if gv is not None and node.func.attr == "nodes": ex.assumptions.add("G.nodes() enumerates every vertex once"); return Val(LInt, NS_(gv.z))
        if isinstance(node, ast.Subscript) and isinstance(node.value, ast.Subscript) and isinstance(node.value.value, ast.Attribute) and node.value.value.attr == "nodes" and ast.unparse(node.slice) == "NetworkNames.JOINT_DEGREE":
            gv = graph(node.value.value.value)
            if gv is not None: ex.assumptions.add("G.nodes[n]['joint_degree'] reads the vertex annotation (annotated network)"); return Val(JD, NJD(gv.z, ex.expr(node.value.slice, st, pc).z))
        return None
    reg.call_hooks.append(hook); reg.consts["NetworkNames.JOINT_DEGREE"] = Val(NONE, z3.BoolVal(True))
    reg.specfun("cntn", [("G", Gt), ("key", JD), ("n", INT)], INT, base="0", rec="cntn(G, key, n - 1) + (1 if tuple_of(njd(G, nodes(G)[n - 1])) == key else 0)")
    NS["tuple_of"] = dict(smt=lambda ex, a: Val(JD, JD.make(JD.len(a.z), JD.arr(a.z), kind=z3.BoolVal(True))), rt=tuple)
    LQ = ListT(DictT(JD, REAL))
    QI = ("forall(j, 0, len(joint_degrees), implies(joint_degrees[j][{i}] > 0, (dec(joint_degrees[j], {i}) in {q}) and {q}[dec(joint_degrees[j], {i})] == (joint_degrees[j][{i}] * jdd[joint_degrees[j]] + 0.0) / averages[{i}]), trigger=joint_degrees[j])")
    QO = "forall_elem(e, JD, implies(e in {q}, 0 <= {w}[e] and {w}[e] < {n} and joint_degrees[{w}[e]][{i}] > 0 and e == dec(joint_degrees[{w}[e]], {i})))"
    m = reg.module("gcmpy/tools/joint_excess_from_jdd.py")
    m.cls("JointExcessfromJDD", fields={})
    ENUM = "forall(j, 0, len(joint_degrees), joint_degrees[j] in jdd) and forall(a, 0, len(joint_degrees), forall(b, a + 1, len(joint_degrees), joint_degrees[a] != joint_degrees[b]))"
    m.fn("JointExcessfromJDD.get_joint_excess_distributions", params={"jdd": JDD, "T": INT, "src": ArrT(JD, INT), "wit": ArrT(INT, ArrT(JD, INT))}, ghost=["T", "src", "wit"], ret=LQ, locals={"qks": LQ, "q": DictT(JD, REAL)}, opaque_arith=True,
         call_ghosts={"AverageJointDegreeFromJDD.get_average_joint_degrees": {"T": "T"}},
         requires={"nonempty": "exists_elem(k, JD, k in jdd)", "keys": "forall_elem(k, JD, implies(k in jdd, len(k) == T and is_tuple(k)))", "T": "T >= 1"},
         exit_hints={"witnesses": "forall(i, 0, T, " + QO.format(i="i", q="result[i]", n="len(joint_degrees)", w="wit[i]") + ", trigger=result[i])"},
         ensures={"one_per_topology": "len(result) == T",
                  "excess_formula": "forall(i, 0, T, " + QI.format(i="i", q="result[i]") + ", trigger=result[i])",
                  "nothing_else": "forall(i, 0, T, forall_elem(e, JD, implies(e in result[i], exists(j, 0, len(joint_degrees), joint_degrees[j][i] > 0 and e == dec(joint_degrees[j], i)))))",
                  "keys_enumerated_once": ENUM, "input_unchanged": "jdd == old(jdd)"},
         raises={"ZeroDivisionError": dict(when="True", only=False)},
         loops={0: dict(inv={"len": "len(qks) == IT and num_topologies == T and len(averages) == T", "enum": ENUM, "frame": "jdd == old(jdd)",
                             "done": "forall(i, 0, IT, " + QI.format(i="i", q="qks[i]") + ", trigger=qks[i])", "only": "forall(i, 0, IT, " + QO.format(i="i", q="qks[i]", n="len(joint_degrees)", w="wit[i]") + ", trigger=qks[i])"},
                        ghost_end=["wit[I] = src"],
                        head_snap={"I": "IT", "qks_at_head": "qks"}, uses={"done": ["len", "enum", "frame"], "only": ["len", "enum", "frame"]},
                        end_hints={"new_last": "len(qks) == I + 1 and qks[I] == q", "prefix": "forall(i, 0, I, qks[i] == qks_at_head[i], trigger=qks[i])",
                                   "done_new": QI.format(i="I", q="q"), "done_new_in_list": QI.format(i="I", q="qks[I]"),
                                   "done_old": "forall(i, 0, I, " + QI.format(i="i", q="qks[i]") + ", trigger=qks[i])"}),
                1: dict(inv={"ctx": "0 <= index and index < T and num_topologies == T and len(averages) == T and len(qks) == index", "enum": ENUM, "frame": "jdd == old(jdd) and qks == qks_in",
                             "done": "forall(j, 0, IT, implies(joint_degrees[j][index] > 0, (dec(joint_degrees[j], index) in q) and q[dec(joint_degrees[j], index)] == (joint_degrees[j][index] * jdd[joint_degrees[j]] + 0.0) / averages[index]), trigger=joint_degrees[j])",
                             "only": QO.format(i="index", q="q", n="IT", w="src")},
                        ghost_end=["src[dec(joint_degrees[IT], index)] = (IT if joint_degrees[IT][index] > 0 else src[dec(joint_degrees[IT], index)])"],
                        snap={"qks_in": "qks"}, uses={"done": ["ctx", "enum", "frame"]},
                        hints={"removing_one_edge_is_injective": "forall(a, 0, len(joint_degrees), forall(b, 0, len(joint_degrees), implies(dec(joint_degrees[a], index) == dec(joint_degrees[b], index), joint_degrees[a] == joint_degrees[b])))"})})
    NameC = Elem("Name"); LNameC = ListT(NameC); QDc = DictT(JD, REAL); LQc = ListT(QDc); OBSc = DictT(NameC, QDc)
    DISTINCT = "forall(a, 0, len(keys), forall(b, a + 1, len(keys), keys[a] != keys[b]))"
    m.fn("JointExcessfromJDD.convert_list_qks_to_dict", params={"qks_list": LQc, "keys": LNameC}, ret=OBSc, locals={"qks_dict": OBSc},
         requires={"names_distinct": DISTINCT},
         ensures={"a_th_name_maps_to_a_th_distribution": "forall(a, 0, (len(keys) if len(keys) < len(qks_list) else len(qks_list)), (keys[a] in result) and result[keys[a]] == qks_list[a], trigger=keys[a])",
                  "no_other_names": "forall_elem(t, Name, implies(t in result, exists(a, 0, (len(keys) if len(keys) < len(qks_list) else len(qks_list)), t == keys[a])))",
                  "input_unchanged": "qks_list == old(qks_list) and keys == old(keys)"},
         loops={0: dict(inv={"done": "forall(a, 0, IT, (keys[a] in qks_dict) and qks_dict[keys[a]] == qks_list[a], trigger=keys[a])",
                             "only": "forall_elem(t, Name, implies(t in qks_dict, exists(a, 0, IT, t == keys[a])))", "frame": "qks_list == old(qks_list) and keys == old(keys)"},
                        uses={"done": ["frame"], "only": ["frame"]})})
    m.fn("JointExcessfromJDD.convert_dict_qks_to_list", params={"qks_dict": OBSc, "keys": LNameC}, ret=LQc, locals={"qks_list": LQc},
         requires={"every_name_present": "forall(a, 0, len(keys), keys[a] in qks_dict, trigger=keys[a])"},
         ensures={"one_distribution_per_name_in_the_order_of_the_names": "len(result) == len(keys) and forall(a, 0, len(keys), result[a] == qks_dict[keys[a]], trigger=keys[a])",
                  "input_unchanged": "qks_dict == old(qks_dict) and keys == old(keys)"},
         loops={0: dict(inv={"done": "len(qks_list) == IT and forall(a, 0, IT, qks_list[a] == qks_dict[keys[a]], trigger=keys[a])", "frame": "qks_dict == old(qks_dict) and keys == old(keys)"},
                        uses={"done": ["frame"]})})
    # ---- list -> dict -> list is the identity (a lemma over the two contracts: only the callees' contracts are used)
    reg.virtual["<lemma>/qks_roundtrip.py"] = (
        "class QksRoundTrip:\n"
        "    def roundtrip(qks_list, keys):\n"
        "        d = JointExcessfromJDD.convert_list_qks_to_dict(qks_list, keys)\n"
        "        back = JointExcessfromJDD.convert_dict_qks_to_list(d, keys)\n"
        "        return back\n")
    mlq = reg.module("<lemma>/qks_roundtrip.py"); mlq.cls("QksRoundTrip", fields={})
    mlq.fn("QksRoundTrip.roundtrip", params={"qks_list": LQc, "keys": LNameC}, ret=LQc, locals={"d": OBSc, "back": LQc},
           requires={"names_distinct": DISTINCT, "one_name_per_distribution": "len(keys) == len(qks_list)"},
           ensures={"identity": "len(result) == len(qks_list) and forall(a, 0, len(qks_list), result[a] == qks_list[a])"})
    mi = reg.module("gcmpy/tools/joint_degree_from_excess.py")
    mi.cls("JointDegreeFromExcess", fields={})
    mi.fn("JointDegreeFromExcess.invert_single", params={"qk": DictT(JD, REAL), "i": INT, "T": INT}, ghost=["T"], ret=DictT(JD, REAL), locals={"P": DictT(JD, REAL)}, opaque_arith=True,
          requires={"keys": "forall_elem(k, JD, implies(k in qk, len(k) == T and is_tuple(k) and k[i] + 1 != 0))", "index": "0 <= i and i < T"},
          ensures={"each_key_gets_one_more_i_edge": "forall_elem(e, JD, implies(e in qk, (inc(e, i) in result) and result[inc(e, i)] == (qk[e] / (e[i] + 1)) / bottom))",
                   "nothing_else": "forall_elem(k, JD, implies(k in result, exists(j, 0, len(KEYS), k == inc(KEYS[j], i))))",
                   "nothing_else_by_membership": "forall_elem(k, JD, implies(k in result, exists_elem(e2, JD, (e2 in qk) and k == inc(e2, i))))", "input_unchanged": "qk == old(qk)"},
          exports={"bottom": REAL},
          raises={"ZeroDivisionError": dict(when="True", only=False)},
          loops={0: dict(inv={"done": "forall(j, 0, IT, (inc(KEYS[j], i) in P) and P[inc(KEYS[j], i)] == (qk[KEYS[j]] / (KEYS[j][i] + 1)) / bottom)",
                              "only": "forall_elem(k, JD, implies(k in P, exists(j, 0, IT, k == inc(KEYS[j], i))))", "frame": "qk == old(qk)"})})
    NameI = Elem("Name"); OBS = DictT(NameI, DictT(JD, REAL)); LNameI = ListT(NameI)
    OBS_DONE = ("forall(a, 0, {n}, ((keys[a] in {r}) and forall_elem(e, JD, implies(e in qks[keys[a]], (inc(e, a) in {r}[keys[a]]) and {r}[keys[a]][inc(e, a)] == (qks[keys[a]][e] / (e[a] + 1)) / bot[a])) "
                "and forall_elem(k, JD, implies(k in {r}[keys[a]], exists_elem(e2, JD, (e2 in qks[keys[a]]) and k == inc(e2, a))))), trigger=keys[a])")
    mi.fn("JointDegreeFromExcess.observations_from_dict", params={"qks": OBS, "keys": LNameI, "T": INT, "bot": ArrT(INT, REAL)}, ghost=["T", "bot"], ret=OBS, locals={"P_observations": OBS}, opaque_arith=True,
          call_ghosts={"JointDegreeFromExcess.invert_single": {"T": "T"}},
          requires={"one_name_per_topology": "len(keys) == T", "names_distinct": "forall(a, 0, len(keys), forall(b, a + 1, len(keys), keys[a] != keys[b]))",
                    "every_name_has_an_excess_distribution": "forall(a, 0, len(keys), keys[a] in qks, trigger=keys[a])",
                    "keys": "forall(a, 0, len(keys), forall_elem(k, JD, implies(k in qks[keys[a]], len(k) == T and is_tuple(k) and k[a] + 1 != 0)), trigger=keys[a])"},
          ensures={"the_a_th_name_is_inverted_along_the_a_th_coordinate": OBS_DONE.format(n="len(keys)", r="result"),
                   "no_other_names": "forall_elem(t, Name, implies(t in result, exists(a, 0, len(keys), t == keys[a])))", "input_unchanged": "qks == old(qks) and keys == old(keys)"},
          raises={"ZeroDivisionError": dict(when="True", only=False)},
          loops={0: dict(inv={"done": OBS_DONE.format(n="IT", r="P_observations"), "only": "forall_elem(t, Name, implies(t in P_observations, exists(a, 0, IT, t == keys[a])))", "frame": "qks == old(qks) and keys == old(keys)"},
                         ghost_end=["bot[IT] = bottom_of_invert_single"], uses={"done": ["frame"], "only": ["frame"]})})
    mh = reg.module("gcmpy/tools/joint_degree_distribution_from_network.py")
    mh.cls("JointDegreeDistributionFromNetwork", fields={})
    mh.fn("JointDegreeDistributionFromNetwork.get_joint_degree_distribution", params={"G": Gt}, ret=DictT(JD, REAL), locals={"PK": DictT(JD, REAL)},
          requires={"nonempty": "order(G) >= 1"},
          ensures={"vertex_histogram": "forall_elem(key, JD, result.get(key, 0.0) == cntn(G, key, len(nodes(G))) * (1.0 / order(G)))"},
          loops={0: dict(inv={"acc": "forall_elem(key, JD, PK.get(key, 0.0) == cntn(G, key, IT) * (1.0 / num_vertices))", "n": "num_vertices == order(G) and num_vertices >= 1"})})
    NS["order"] = dict(smt=lambda ex, g: Val(INT, ORDER(g.z)), rt=lambda g: g.order())
    # ---- row sums of mixing matrices
    Name = Elem("Name"); Key = PairT(JD, JD); MAT1 = DictT(Key, REAL); KEYL = ListT(JD); QD = DictT(JD, REAL)
    reg.type("Name", Name)
    reg.binop_hooks["concat"] = lambda ex, a, b: (ex.assumptions.add("L-CAT: a + b on equal-length joint-degree tuples is represented as the pair (a, b)") or Val(Key, Key.mk(a.z, b.z))) if (isinstance(a.t, ListT) and a.t.tagged and isinstance(b.t, ListT) and b.t.tagged) else None
    NS["cat"] = dict(smt=lambda ex, a, b: Val(Key, Key.mk(a.z, b.z)), rt=lambda a, b: a + b)
    reg.specfun("rsum", [("ejk", MAT1), ("keys", KEYL), ("left", JD), ("n", INT)], REAL, base="0.0", rec="rsum(ejk, keys, left, n - 1) + (ejk[cat(left, keys[n - 1])] if cat(left, keys[n - 1]) in ejk else 0.0)")
    reg.specfun("hits", [("ejk", MAT1), ("keys", KEYL), ("left", JD), ("n", INT)], INT, base="0", rec="hits(ejk, keys, left, n - 1) + (1 if cat(left, keys[n - 1]) in ejk else 0)")
    reg.lemma("hits_nonneg", vars={"ejk": MAT1, "keys": KEYL, "left": JD, "n": INT}, induct="n", stmt="hits(ejk, keys, left, n) >= 0", trigger="hits(ejk, keys, left, n)")
    mx = reg.module("gcmpy/tools/joint_excess_joint_degree_matrices.py")
    MATS = mx.cls("JointExcessJointDegreeMatrices", fields={"_ejks": DictT(Name, MAT1), "_excess_degree_keys": DictT(Name, KEYL), "_topology_names": ListT(Name)}, properties={"excess_degree_keys": "_excess_degree_keys", "ejks": "_ejks"})
    mr = reg.module("gcmpy/tools/joint_excess_from_ejk.py")
    mr.cls("JointExcessFromEjk", fields={})
    ROWK = "forall(a, 0, IT2, ((keys[a] in q) == (hits(ejk, keys, keys[a], len(keys)) > 0)) and q.get(keys[a], 0.0) == rsum(ejk, keys, keys[a], len(keys)), trigger=keys[a])"
    DUPFREE = "forall(a, 0, len(keys), forall(b, a + 1, len(keys), keys[a] != keys[b]))"
    TOPQ = ("(t in qks) and forall(a, 0, len(ejks._excess_degree_keys[t]), qks[t].get(ejks._excess_degree_keys[t][a], 0.0) == rsum(ejks._ejks[t], ejks._excess_degree_keys[t], ejks._excess_degree_keys[t][a], len(ejks._excess_degree_keys[t])), "
            "trigger=ejks._excess_degree_keys[t][a])")
    mr.fn("JointExcessFromEjk.get_excess_joint_distributions", params={"ejks": MATS.ty}, ret=DictT(Name, QD), locals={"qks": DictT(Name, QD), "q": QD}, pure=False,
          requires={"one_key_list_per_matrix": "forall_elem(t, Name, implies(t in ejks._ejks, t in ejks._excess_degree_keys))",
                    "key_lists_duplicate_free": "forall_elem(t, Name, implies(t in ejks._ejks, forall(a, 0, len(ejks._excess_degree_keys[t]), forall(b, a + 1, len(ejks._excess_degree_keys[t]), ejks._excess_degree_keys[t][a] != ejks._excess_degree_keys[t][b]))))"},
          ensures={"row_sums_over_the_second_index": "forall_elem(t, Name, implies(t in ejks._ejks, " + TOPQ.replace("qks", "result") + "))", "input_unchanged": "ejks == old(ejks)"},
          raises={"TypeError": dict(when="True", only=False)},
          loops={0: dict(inv={"done": "forall(j, 0, IT, " + TOPQ.replace("[t]", "[KEYS[j]]").replace("(t in qks)", "(KEYS[j] in qks)") + ", trigger=KEYS[j])", "frame": "ejks == old(ejks)"},
                         head_snap={"J": "IT", "qks_h": "qks"}, end_hints={"stored": "qks[key] == q and (key in qks)", "others": "forall(j, 0, J, qks[KEYS[j]] == qks_h[KEYS[j]] and (KEYS[j] in qks), trigger=KEYS[j])"}, 
                         uses={"done": ["frame"]}),
                1: dict(inv={"ctx": "key == KEYS[J] and (key in ejks._ejks) and ejk == ejks._ejks[key] and keys == ejks._excess_degree_keys[key] and " + DUPFREE, "frame": "ejks == old(ejks) and qks == qks_in",
                             "rows": ROWK.replace("IT2", "IT"), "later_untouched": "forall(a, IT, len(keys), not (keys[a] in q), trigger=keys[a])"},
                        snap={"qks_in": "qks"}, head_snap={"A": "IT"}),
                2: dict(inv={"ctx": "key == KEYS[J] and ejk == ejks._ejks[key] and keys == ejks._excess_degree_keys[key] and left_key == keys[A] and 0 <= A and A < len(keys) and " + DUPFREE, "frame": "ejks == old(ejks) and qks == qks_in",
                             "rows": ROWK.replace("IT2", "A"), "later_untouched": "forall(a, A + 1, len(keys), not (keys[a] in q), trigger=keys[a])",
                             "current": "((left_key in q) == (hits(ejk, keys, left_key, IT) > 0)) and q.get(left_key, 0.0) == rsum(ejk, keys, left_key, IT)"})})
    return quals + ["JointExcessfromJDD.get_joint_excess_distributions", "JointExcessfromJDD.convert_list_qks_to_dict", "JointExcessfromJDD.convert_dict_qks_to_list", "QksRoundTrip.roundtrip", "JointDegreeFromExcess.invert_single", "JointDegreeFromExcess.observations_from_dict", "JointDegreeDistributionFromNetwork.get_joint_degree_distribution", "JointExcessFromEjk.get_excess_joint_distributions"]
