from vf.spec import *
def build(reg):
    m = reg.module("gcmpy/message_passing/equations/clique_equation.py")
    m.fn("clique_equation.omega", params={"tau": INT, "kappa": INT}, ret=REAL,
         requires={"range": "tau >= 1 and 0 <= kappa and kappa < tau"},
         ensures={"interface_edges": "result == (tau - kappa - 1) * (kappa + 1)"},
         loops={0: dict(inv={"r": "r == tau - kappa - 1", "sum": "2 * summation == 2 * (IT - 1) * tau - (IT - 1) * IT"})})
    return ["clique_equation.omega"]
