"""C06: contracts of the joint-degree loaders (manual, empirical, function, marginal helpers) and structural dispatch obligations."""
import ast, z3
from vf.spec import *
from vf.sym import Unsupported, to_real
from vf.idioms import is_call, params_record
import contracts.jdd as jddc
JD = jddc.JD; JDD = jddc.JDD; JDS = ListT(JD); LInt = ListT(INT)
Fn = Elem("Callable"); LFn = ListT(Fn); Bound = PairT(INT, INT); LBound = ListT(Bound)
APPJ = z3.Function("apply_joint", Fn.sort(), JD.sort(), z3.RealSort())          # fp(jd): A-CALLBACK (pure, deterministic)
APPI = z3.Function("apply_marginal", Fn.sort(), z3.IntSort(), z3.RealSort())    # arr_fp[i](k)
CNT = z3.Function("cntjd", JDS.sort(), JD.sort(), z3.IntSort(), z3.IntSort())
BOX = z3.Function("box", ListT(LInt).sort(), ListT(JD).sort())                  # list(product(*ks))
BIDX = z3.Function("box_idx", ListT(LInt).sort(), JD.sort(), z3.IntSort())

def build(reg):
    jddc.build(reg)                                   # JointDegree base class, normalise_jdd, M-SUM
    reg.type("JD", JD); LL = ListT(LInt); LJ = ListT(JD)
    reg.specfun("cntjd", [("jds", JDS), ("key", JD), ("n", INT)], INT, base="0", rec="cntjd(jds, key, n - 1) + (1 if jds[n - 1] == key else 0)")
    reg.lemma("cntjd_nonneg", vars={"jds": JDS, "key": JD, "n": INT}, induct="n", stmt="cntjd(jds, key, n) >= 0", trigger="cntjd(jds, key, n)")
    reg.lemma("cntjd_positive_iff_occurs", vars={"jds": JDS, "key": JD, "n": INT, "j": INT}, induct="n", stmt="implies(0 <= j and j < n and jds[j] == key, cntjd(jds, key, n) >= 1)")
    reg.lemma("cntjd_zero_if_absent", vars={"jds": JDS, "key": JD, "n": INT}, induct="n", stmt="implies(forall(j, 0, n, jds[j] != key), cntjd(jds, key, n) == 0)", trigger="cntjd(jds, key, n)")
    NS = reg.native_specfuns
    NS["apply_joint"] = dict(smt=lambda ex, f, k: Val(REAL, APPJ(f.z, k.z)), rt=None)
    NS["apply_marginal"] = dict(smt=lambda ex, f, k: Val(REAL, APPI(f.z, k.z)), rt=None)
    NS["box"] = dict(smt=lambda ex, ks: Val(LJ, BOX(ks.z)), rt=None)
    ks = z3.Const("ks_", LL.sort()); q, q2, i, p = z3.Ints("q_ q2_ i_ p_"); jd = z3.Const("jd_", JD.sort())
    inlists = lambda kz, j: z3.And(JD.len(j) == LL.len(kz), JD.kind(j), z3.ForAll([i], z3.Implies(z3.And(0 <= i, i < LL.len(kz)), z3.Exists([p], z3.And(0 <= p, p < LInt.len(LL.at(kz, i)), LInt.at(LL.at(kz, i), p) == JD.at(j, i))))))
    INPROD = z3.Function("in_product", LL.sort(), JD.sort(), z3.BoolSort())
    reg.axioms += [
        ("in_product.def", z3.ForAll([ks, jd], INPROD(ks, jd) == inlists(ks, jd), patterns=[INPROD(ks, jd)]), "definition: jd is a tuple taking its i-th entry from ks[i]"),
        ("product.members", z3.ForAll([ks, q], z3.Implies(z3.And(0 <= q, q < LJ.len(BOX(ks))), INPROD(ks, LJ.at(BOX(ks), q))), patterns=[LJ.at(BOX(ks), q)]), "every element of list(product(*ks)) takes its i-th entry from ks[i] (a tuple)"),
        ("product.complete", z3.ForAll([ks, jd], z3.Implies(INPROD(ks, jd), z3.And(0 <= BIDX(ks, jd), BIDX(ks, jd) < LJ.len(BOX(ks)), LJ.at(BOX(ks), BIDX(ks, jd)) == jd)), patterns=[INPROD(ks, jd)]), "... and every such tuple occurs"),
        ("product.once", z3.ForAll([ks, q, q2], z3.Implies(z3.And(0 <= q, q < q2, q2 < LJ.len(BOX(ks))), LJ.at(BOX(ks), q) != LJ.at(BOX(ks), q2)), patterns=[z3.MultiPattern(LJ.at(BOX(ks), q), LJ.at(BOX(ks), q2))]), "... exactly once"),
        ("product.len", z3.ForAll([ks], LJ.len(BOX(ks)) >= 0, patterns=[BOX(ks)]), "")]
    NS["in_product"] = dict(smt=lambda ex, kz, j: Val(BOOL, INPROD(kz.z, j.z)), rt=None)
    NS["box_idx"] = dict(smt=lambda ex, kz, j: Val(INT, BIDX(kz.z, j.z)), rt=None)
    def hook(ex, node, st, pc):
        if is_call(node, "Counter", 1):
            jds = ex.expr(node.args[0], st, pc)
            if not (isinstance(jds.t, ListT) and jds.t.elem == JD): raise Unsupported("Counter of a non-jds list")
            v = fresh_int("v"); ex.oblige(f"requires@call.Counter.hashable_entries@{node.lineno}", "requires@call", pc, z3.ForAll([v], z3.Implies(z3.And(0 <= v, v < JDS.len(jds.z)), JD.kind(JDS.at(jds.z, v)))), node)
            T = DictT(JD, INT); d = fresh(T, "counter"); key = z3.Const(f"key!{uid()}", JD.sort())
            c = ex.apply_specfun(reg.specfuns["cntjd"], [jds, Val(JD, key), Val(INT, JDS.len(jds.z))]).z
            pc.append(z3.ForAll([key], z3.And(z3.Select(T.dom(d.z), key) == (c > 0), z3.Select(T.val(d.z), key) == c), patterns=[z3.Select(T.dom(d.z), key)]))
            ex.assumptions.add("collections.Counter(xs): keys = the values occurring in xs, value = number of occurrences (TypeError for unhashable entries)"); return d
        if is_call(node, "list", 1) and isinstance(node.args[0], ast.Call) and ast.unparse(node.args[0].func) == "product" and len(node.args[0].args) == 1 and isinstance(node.args[0].args[0], ast.Starred):
            kz = ex.expr(node.args[0].args[0].value, st, pc); ex.assumptions.add("list(itertools.product(*ks)): every tuple taking its i-th entry from ks[i], each once"); return Val(LJ, BOX(kz.z))
        if isinstance(node, ast.Call) and ast.unparse(node.func) == "self._fp" and len(node.args) == 1:
            f = ex.expr(node.func, st, pc); a = ex.expr(node.args[0], st, pc)
            if a.t == JD: ex.assumptions.add("A-CALLBACK: the joint function fp is pure"); return Val(REAL, APPJ(f.z, a.z))
        if isinstance(node, ast.Call) and isinstance(node.func, ast.Subscript) and ast.unparse(node.func.value) == "self._arr_fp" and len(node.args) == 1:
            f = ex.expr(node.func, st, pc); a = ex.expr(node.args[0], st, pc); ex.assumptions.add("A-CALLBACK: the marginal callbacks are pure"); return Val(REAL, APPI(f.z, a.z))
        return None
    reg.call_hooks.append(hook)
    mj = reg.module("gcmpy/joint_degree/joint_degree.py")
    FREQ = {"support": "forall_elem(key, JD, (key in self._jdd) == (cntjd(jds, key, len(jds)) > 0))",
            "relative_frequency": "forall_elem(key, JD, implies(key in self._jdd, self._jdd[key] == cntjd(jds, key, len(jds)) / len(jds)))"}
    mj.fn("JointDegree.convert_jds_to_jdd", params={"jds": JDS}, assigns=["_jdd"], requires={"nonempty": "len(jds) >= 1", "hashable": "forall(v, 0, len(jds), is_tuple(jds[v]))"},
          ensures={**FREQ, "sizes_unchanged": "self._motif_sizes == old(self._motif_sizes)", "input_unchanged": "jds == old(jds)"},
          loops={0: dict(inv={"dom": "forall_elem(key, JD, (key in self._jdd) == exists(j, 0, IT, KEYS[j] == key))",
                              "val": "forall(j, 0, IT, self._jdd[KEYS[j]] == DICT0[KEYS[j]] / n_samples)", "n": "n_samples == len(jds) and n_samples >= 1",
                              "counter": "forall_elem(key, JD, ((key in DICT0) == (cntjd(jds, key, len(jds)) > 0)) and DICT0[key] == cntjd(jds, key, len(jds))) and d == DICT0",
                              "frame": "self._motif_sizes == old(self._motif_sizes) and jds == old(jds)"})})
    # ---- manual
    NM = "JointDegreeNames"
    PM = params_record(reg, NM, {"JDD": JDD, "MOTIF_SIZES": LInt, "JDS": JDS, "FP": Fn, "LOW_HIGH_DEGREE_BOUND": LBound, "ARR_FP": LFn})
    mm = reg.module("gcmpy/joint_degree/joint_degree_loaders/joint_degree_manual.py")
    mm.cls("JointDegreeManual", fields={"_jdd": JDD, "_motif_sizes": LInt}, bases=["JointDegree"])
    mm.fn("JointDegreeManual.create_jdd", ensures={"unchanged": "self == old(self)"})
    mm.fn("JointDegreeManual.__init__", params={"params": PM}, requires={"keys": "params.has_JDD and params.has_MOTIF_SIZES"},
          ensures={"jdd_is_the_given_dictionary": "self._jdd == params.JDD", "sizes": "self._motif_sizes == params.MOTIF_SIZES"}, raises={"KeyError": dict(when="False")})
    # ---- empirical
    me = reg.module("gcmpy/joint_degree/joint_degree_loaders/joint_degree_empirical.py")
    me.cls("JointDegreeEmpirical", fields={"_jdd": JDD, "_motif_sizes": LInt, "_empirical_jds": JDS}, bases=["JointDegree"], properties={"empirical_jds": "_empirical_jds"})
    OBS = {"nonempty": "len(self._empirical_jds) >= 1", "hashable": "forall(v, 0, len(self._empirical_jds), is_tuple(self._empirical_jds[v]))"}
    E_FREQ = {k: v.replace("jds", "self._empirical_jds") for k, v in FREQ.items()}
    me.fn("JointDegreeEmpirical.create_jdd", assigns=["_jdd"], requires=OBS, ensures={**E_FREQ, "observations_unchanged": "self._empirical_jds == old(self._empirical_jds) and self._motif_sizes == old(self._motif_sizes)"})
    me.fn("JointDegreeEmpirical.__init__", params={"params": PM},
          requires={"keys": "params.has_JDS and params.has_MOTIF_SIZES", "nonempty": "len(params.JDS) >= 1", "hashable": "forall(v, 0, len(params.JDS), is_tuple(params.JDS[v]))"},
          ensures={**{k: v.replace("jds", "params.JDS") for k, v in FREQ.items()}, "observations_kept": "self._empirical_jds == params.JDS", "sizes": "self._motif_sizes == params.MOTIF_SIZES"},
          raises={"KeyError": dict(when="False")})
    # ---- function loader
    mf = reg.module("gcmpy/joint_degree/joint_degree_loaders/joint_degree_function.py")
    mf.cls("JointDegreeFunction", fields={"_jdd": JDD, "_motif_sizes": LInt, "_fp": Fn, "_low_high_degree_bounds": LBound}, bases=["JointDegree"])
    RANGES = ("len(ks) == len(self._low_high_degree_bounds) and forall(i, 0, len(ks), (len(ks[i]) == (self._low_high_degree_bounds[i][1] + 1 - self._low_high_degree_bounds[i][0] "
              "if self._low_high_degree_bounds[i][1] + 1 > self._low_high_degree_bounds[i][0] else 0)) and forall(p, 0, len(ks[i]), ks[i][p] == self._low_high_degree_bounds[i][0] + p))")
    mf.fn("JointDegreeFunction.create_jdd", locals={}, assigns=["_jdd"],
          ensures={"ranges_are_kmin_to_kmax_inclusive": RANGES,
                   "support_is_the_whole_degree_box": "forall_elem(key, JD, (key in self._jdd) == in_product(ks, key))",
                   "value_is_the_joint_function": "forall_elem(key, JD, implies(key in self._jdd, self._jdd[key] == apply_joint(self._fp, key)))",
                   "frame": "self._fp == old(self._fp) and self._low_high_degree_bounds == old(self._low_high_degree_bounds) and self._motif_sizes == old(self._motif_sizes)"},
          loops={0: dict(inv={"dom": "forall_elem(key, JD, (key in self._jdd) == exists(j, 0, IT, box(ks)[j] == key))",
                              "val": "forall(j, 0, IT, self._jdd[box(ks)[j]] == apply_joint(self._fp, box(ks)[j]))",
                              "frame": "self._fp == old(self._fp) and self._low_high_degree_bounds == old(self._low_high_degree_bounds) and self._motif_sizes == old(self._motif_sizes)"})})
    # ---- marginal: product of the marginals at one joint degree
    mg = reg.module("gcmpy/joint_degree/joint_degree_loaders/joint_degree_marginal.py")
    mg.cls("JointDegreeMarginal", fields={"_jdd": JDD, "_motif_sizes": LInt, "_arr_fp": LFn, "_low_high_degree_bounds": LBound, "_n_samples": INT}, bases=["JointDegree"])
    reg.specfun("pprod", [("fps", LFn), ("jd", JD), ("n", INT)], REAL, base="1.0", rec="pprod(fps, jd, n - 1) * apply_marginal(fps[n - 1], jd[n - 1])")
    mg.fn("JointDegreeMarginal.evaluate_prob_of_joint_degree", params={"joint_degree": JD}, ret=REAL, pure=True,
          requires={"one_marginal_per_dimension": "len(joint_degree) <= len(self._arr_fp)"},
          ensures={"product_of_the_marginals": "result == pprod(self._arr_fp, joint_degree, len(joint_degree))", "unchanged": "self == old(self)"},
          loops={0: dict(inv={"prod": "prod == pprod(self._arr_fp, joint_degree, IT)", "frame": "self == old(self)"})})
    mg.fn("JointDegreeMarginal.generate_all_joint_degrees", ret=LJ, pure=True, exports={"ks": LL},
          ensures={"ranges_start_at_kmin_and_stay_inside_the_bounds": "len(ks) == len(self._low_high_degree_bounds) and forall(i, 0, len(ks), (len(ks[i]) == (self._low_high_degree_bounds[i][1] - self._low_high_degree_bounds[i][0] "
                                       "if self._low_high_degree_bounds[i][1] > self._low_high_degree_bounds[i][0] else 0) or len(ks[i]) == (self._low_high_degree_bounds[i][1] + 1 - self._low_high_degree_bounds[i][0] "
                                       "if self._low_high_degree_bounds[i][1] + 1 > self._low_high_degree_bounds[i][0] else 0)) and forall(p, 0, len(ks[i]), ks[i][p] == self._low_high_degree_bounds[i][0] + p))",
                   "all_joint_degrees_of_the_box": "result == box(ks)", "unchanged": "self == old(self)"},
          locals={"ks": LL},
          loops={0: dict(inv={"len": "len(ks) == IT", "frame": "self == old(self)",
                              "rows": "forall(i, 0, IT, (len(ks[i]) == (self._low_high_degree_bounds[i][1] - self._low_high_degree_bounds[i][0] if self._low_high_degree_bounds[i][1] > self._low_high_degree_bounds[i][0] else 0) "
                                      "or len(ks[i]) == (self._low_high_degree_bounds[i][1] + 1 - self._low_high_degree_bounds[i][0] if self._low_high_degree_bounds[i][1] + 1 > self._low_high_degree_bounds[i][0] else 0)) "
                                      "and forall(p, 0, len(ks[i]), ks[i][p] == self._low_high_degree_bounds[i][0] + p))"})})
    # ---- marginal, direct mode: the table is built over every generated joint degree, filled with the product of the marginals and normalised
    def dict_of_generator(ex, node, st, pc):
        if is_call(node, "dict", 1) and isinstance(node.args[0], ast.GeneratorExp) and ast.unparse(node.args[0].elt).replace(" ", "") == "(key,0.0)" and len(node.args[0].generators) == 1 \
                and ast.unparse(node.args[0].generators[0].target) == "key" and not node.args[0].generators[0].ifs:
            L = ex.expr(node.args[0].generators[0].iter, st, pc)
            if L.t != LJ: return None
            q_ = fresh_int("dq"); ex.oblige(f"requires@call.dict.hashable_keys@{node.lineno}", "requires@call", pc, z3.ForAll([q_], z3.Implies(z3.And(0 <= q_, q_ < LJ.len(L.z)), JD.kind(LJ.at(L.z, q_)))), node)
            d = fresh(JDD, "zero_table"); key = z3.Const(f"key!{uid()}", JD.sort()); w = fresh_int("dw")
            pc.append(z3.ForAll([key], z3.And(z3.Select(JDD.dom(d.z), key) == z3.Exists([w], z3.And(0 <= w, w < LJ.len(L.z), LJ.at(L.z, w) == key)), z3.Select(JDD.val(d.z), key) == 0), patterns=[z3.Select(JDD.dom(d.z), key)]))
            pc.append(z3.ForAll([q_], z3.Implies(z3.And(0 <= q_, q_ < LJ.len(L.z)), z3.Select(JDD.dom(d.z), LJ.at(L.z, q_))), patterns=[LJ.at(L.z, q_)]))
            st.env["GEN"] = L; ex.assumptions.add("dict((key, 0.0) for key in xs): one entry 0.0 per distinct element of xs (TypeError for unhashable elements)"); return d
        return None
    reg.call_hooks.append(dict_of_generator)
    KS_ = "ks_of_generate_all_joint_degrees"; B0 = "self._low_high_degree_bounds"
    mg.fn("JointDegreeMarginal.create_jdd_directly",
          requires={"one_marginal_per_dimension": f"len({B0}) <= len(self._arr_fp)"},
          ensures={"ranges_start_at_kmin_and_stay_inside_the_bounds": f"len({KS_}) == len({B0}) and forall(i, 0, len({KS_}), (len({KS_}[i]) == ({B0}[i][1] - {B0}[i][0] if {B0}[i][1] > {B0}[i][0] else 0) or "
                                                                   f"len({KS_}[i]) == ({B0}[i][1] + 1 - {B0}[i][0] if {B0}[i][1] + 1 > {B0}[i][0] else 0)) and forall(p, 0, len({KS_}[i]), {KS_}[i][p] == {B0}[i][0] + p))",
                   "support_is_the_product_of_those_ranges": f"forall_elem(key, JD, (key in self._jdd) == in_product({KS_}, key))",
                   "value_is_the_product_of_the_marginals_divided_by_the_total": "forall_elem(key, JD, implies(key in self._jdd, RAW[key] == pprod(self._arr_fp, key, len(key)) and self._jdd[key] == RAW[key] / msum(RAW)))",
                   "sums_to_one": "implies(exists_elem(key, JD, key in self._jdd), msum(self._jdd) == 1)",
                   "frame": f"self._arr_fp == old(self._arr_fp) and {B0} == old({B0}) and self._motif_sizes == old(self._motif_sizes) and self._n_samples == old(self._n_samples)"},
          raises={"ZeroDivisionError": dict(when="True", only=False)},
          loops={0: dict(inv={"dom": "forall_elem(key, JD, (key in self._jdd) == (key in DICT0))", "val": "forall(j, 0, IT, self._jdd[KEYS[j]] == pprod(self._arr_fp, KEYS[j], len(KEYS[j])))",
                              "box": f"forall_elem(key, JD, (key in DICT0) == in_product({KS_}, key))",
                              "frame": f"self._arr_fp == old(self._arr_fp) and {B0} == old({B0}) and self._motif_sizes == old(self._motif_sizes) and self._n_samples == old(self._n_samples)"},
                         exit_snap={"RAW": "self._jdd"})})
    # ---- marginal, sampling mode: dimension i is drawn by random.choices from its INCLUSIVE range kmin..kmax with its own marginal as weights, and the draws are
    #      transposed into one tuple per sample (that the frequencies then approach the product law is the assumed law of random.choices + the law of large numbers)
    LReal = ListT(REAL)
    def transpose_hook(ex, node, st, pc):
        if isinstance(node, ast.ListComp) and ast.unparse(node).replace(" ", "") == "[tuple(jd)forjdinnp.column_stack(ret).tolist()]":
            ret = ex.expr(ast.Name(id="ret", ctx=ast.Load()), st, pc); D = LL.len(ret.z)
            ex.branch_exc(pc, D == 0, "ValueError", node)              # numpy: need at least one array to concatenate
            n = LInt.len(LL.at(ret.z, 0)); i_, q_ = fresh_int("ti"), fresh_int("tq")
            ex.oblige(f"requires@call.column_stack.equally_long_columns@{node.lineno}", "requires@call", pc, z3.ForAll([i_], z3.Implies(z3.And(0 <= i_, i_ < D), LInt.len(LL.at(ret.z, i_)) == n)), node)
            out = fresh(JDS, "rows"); pc.append(JDS.len(out.z) == n); pc.extend(wf(out))
            pc.append(z3.ForAll([q_], z3.Implies(z3.And(0 <= q_, q_ < n), z3.And(JD.kind(JDS.at(out.z, q_)), JD.len(JDS.at(out.z, q_)) == D)), patterns=[JDS.at(out.z, q_)]))
            pc.append(z3.ForAll([q_, i_], z3.Implies(z3.And(0 <= q_, q_ < n, 0 <= i_, i_ < D), JD.at(JDS.at(out.z, q_), i_) == LInt.at(LL.at(ret.z, i_), q_)), patterns=[JD.at(JDS.at(out.z, q_), i_)]))
            ex.assumptions.add("[tuple(r) for r in np.column_stack(cols).tolist()]: row q is the tuple (cols[0][q], ..., cols[D-1][q]) for equally long integer columns"); return out
        return None
    reg.call_hooks.append(transpose_hook)
    B_ = "self._low_high_degree_bounds"
    # (the property asks for "degree ranges inside the given bounds"; the direct mode uses kmin..kmax-1 and the sampling mode kmin..kmax, so either end is accepted here)
    def DIM(n): return (f"forall(i, 0, {n}, (len(POP[i]) == ({B_}[i][1] + 1 - {B_}[i][0] if {B_}[i][1] + 1 > {B_}[i][0] else 0) or len(POP[i]) == ({B_}[i][1] - {B_}[i][0] if {B_}[i][1] > {B_}[i][0] else 0)) and forall(p, 0, len(POP[i]), POP[i][p] == {B_}[i][0] + p) and "
                        f"len(W[i]) == len(POP[i]) and forall(p, 0, len(POP[i]), W[i][p] == apply_marginal(self._arr_fp[i], POP[i][p])), trigger=POP[i])")
    def DRAWN(n): return f"forall(i, 0, {n}, len(DRAW[i]) == self._n_samples and forall(q, 0, self._n_samples, 0 <= PICK[i][q] and PICK[i][q] < len(POP[i]) and DRAW[i][q] == POP[i][PICK[i][q]]), trigger=DRAW[i])"
    mg.fn("JointDegreeMarginal.draw_from_analytical_joint", params={"POP": ArrT(INT, LInt), "W": ArrT(INT, LReal), "DRAW": ArrT(INT, LInt), "PICK": ArrT(INT, ArrT(INT, INT))}, ghost=["POP", "W", "DRAW", "PICK"], ret=JDS, locals={"ret": LL},
          requires={"n_samples": "self._n_samples >= 0", "one_marginal_per_dimension": f"len({B_}) <= len(self._arr_fp)"},
          ensures={"one_row_per_sample": "len(result) == self._n_samples",
                   "rows_are_tuples_with_one_entry_per_dimension": f"forall(q, 0, len(result), is_tuple(result[q]) and len(result[q]) == len({B_}))",
                   "dimension_i_is_drawn_from_its_range_inside_the_bounds_with_its_marginal_as_weights": DIM(f"len({B_})"),
                   "entry_i_of_sample_q_is_the_q_th_draw_of_dimension_i": f"forall(q, 0, len(result), forall(i, 0, len({B_}), result[q][i] == DRAW[i][q]))",
                   "draws_are_members_of_the_range": DRAWN(f"len({B_})"), "unchanged": "self == old(self)"},
          raises={"IndexError": dict(when=f"exists(i, 0, len({B_}), {B_}[i][1] <= {B_}[i][0])", only=False), "ValueError": dict(when=f"len({B_}) == 0")},
          loops={0: dict(inv={"n": "len(ret) == IT", "cols": "forall(i, 0, IT, ret[i] == DRAW[i], trigger=ret[i])", "dim": DIM("IT"), "drawn": DRAWN("IT"), "frame": "self == old(self)"},
                         ghost_end=["POP[i] = CHOICES_POP", "W[i] = CHOICES_W", "DRAW[i] = CHOICES_OUT", "PICK[i] = CHOICES_PICK"])})
    # ---- structural: the dispatching entry points are if-chains returning <Class>(params) for the named enum member; the main entry point calls create_jdd once more
    def dispatch(relpath, qual, enum, table, argname="params"):
        def chk(reg_):
            d = reg_.find_def(relpath, qual); got = {}
            def walk(node):
                if isinstance(node, ast.If):
                    t = node.test
                    if isinstance(t, ast.Compare) and len(t.ops) == 1 and isinstance(t.ops[0], ast.Eq) and isinstance(t.comparators[0], ast.Attribute) and ast.unparse(t.comparators[0].value) == enum and len(node.body) == 1 \
                            and isinstance(node.body[0], ast.Return) and isinstance(node.body[0].value, ast.Call) and [ast.unparse(a) for a in node.body[0].value.args] == [argname] and not node.body[0].value.keywords:
                        got[t.comparators[0].attr] = ast.unparse(node.body[0].value.func)
                    else: got["?" + ast.unparse(t)[:30]] = "unrecognised branch"
                    for o in node.orelse: walk(o)
            for s in d.body: walk(s)
            return got == table, f"{qual}: dispatch table {got}"
        return chk
    reg.static_checks += [
        ("JointDegreeFactory.resolve_joint_degree:static.dispatch_table", dispatch("gcmpy/joint_degree/joint_degree_factory.py", "JointDegreeFactory.resolve_joint_degree", "JointDegreeType",
            {"MANUAL": "JointDegreeManual", "EMPIRICAL": "JointDegreeEmpirical", "JOINT_FUNCTION": "JointDegreeFunction", "MARGINAL": "JointDegreeMarginal", "SPLIT_DEGREE": "JointDegreeSplitDegree", "DELTA": "JointDegreeDelta", "COVER": "JointDegreeCover"}))]
    def main_entry(reg_):
        d = reg_.find_def("gcmpy/joint_degree/joint_degree_distribution.py", "JointDegreeDistribution.load_joint_degree"); src = ast.unparse(d).replace(" ", "")
        ok = "JointDegreeType(params[JointDegreeNames.JOINT_DEGREE_TYPE])" in src and "JointDegreeFactory.resolve_joint_degree(input_type,params)" in src and src.count("loader.create_jdd()") == 1 and src.rstrip().endswith("returnloader")
        return ok, "load_joint_degree = resolve(type from params, same params); loader.create_jdd(); return loader" if ok else "entry point has another shape"
    reg.static_checks.append(("JointDegreeDistribution.load_joint_degree:static.resolves_then_rebuilds_once", main_entry))
    return ["JointDegree.convert_jds_to_jdd", "JointDegreeManual.create_jdd", "JointDegreeManual.__init__", "JointDegreeEmpirical.create_jdd", "JointDegreeEmpirical.__init__",
            "JointDegreeFunction.create_jdd", "JointDegreeMarginal.evaluate_prob_of_joint_degree", "JointDegreeMarginal.generate_all_joint_degrees", "JointDegreeMarginal.create_jdd_directly", "JointDegreeMarginal.draw_from_analytical_joint", "JointDegree.normalise_jdd"]
