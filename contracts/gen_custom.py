"""C02 (and the structural part of C01) for the real GCMAlgorithmCustomMotifs.random_clustered_graph: column structure of the emitted edge list --
parallel columns, motif ids = running counter, one contiguous block per build-callback result, names position by position, including a callback that
returns a single bare edge (u, v) and a bare name.  WHICH stubs reach a callback (C01's slot clause for this generator) is not proved here."""
import ast, z3
from vf.spec import *
from vf.sym import Unsupported
from vf.idioms import is_call
from contracts.joint_degree import JD, JDS
P = PairT(INT, INT); LP = ListT(P); Name = Elem("Name"); LName = ListT(Name); Fn = Elem("Fn"); LFn = ListT(Fn); LInt = ListT(INT); LL = ListT(LInt); LLL = ListT(LL); ARR = ArrT(INT, INT)
CBE = RecT("BuildResult", {"bare": BOOL, "pair": P, "seq": LP})          # what a build callback returns: one bare edge (u, v) or a sequence of edges
CBN = RecT("NameResult", {"bare": BOOL, "name": Name, "seq": LName})     # what a naming callback returns: one bare name or a sequence of names
BUILD = z3.Function("build_custom", Fn.sort(), LInt.sort(), CBE.sort())
NAMES = z3.Function("names_custom", Fn.sort(), CBN.sort())
CHUNKS = z3.Function("partition_chunks", LInt.sort(), z3.IntSort(), LL.sort())
FLAT = z3.Function("flatten", LL.sort(), LInt.sort())
EDGES = z3.Function("motif_edges", Fn.sort(), LInt.sort(), LP.sort())      # the edges of one motif instance, as a sequence (a bare edge counts as a one-element sequence)
NAMEL = z3.Function("motif_edge_names", Fn.sort(), LName.sort())           # the names of one motif's edges, as a sequence (a bare name counts as a one-element sequence)

SHAPE_SRC = ("forall(j, 0, len(self._motif_indices), forall_elem(v, LInt, names_custom(self._edge_names[j]).bare == build_custom(self._build_functions[j], v).bare and "
             "len(motif_edge_names(self._edge_names[j])) == len(motif_edges(self._build_functions[j], v))))")

def build(reg):
    reg.type("Name", Name)
    f = z3.Const("f_", Fn.sort()); vs = z3.Const("vs_", LInt.sort())
    reg.axioms += [
        ("motif_edges.of_a_sequence", z3.ForAll([f, vs], z3.Implies(z3.Not(CBE.getf(BUILD(f, vs), "bare")), EDGES(f, vs) == CBE.getf(BUILD(f, vs), "seq")), patterns=[BUILD(f, vs)]), "definition: the edges of a motif whose callback returns a sequence"),
        ("motif_edges.of_a_bare_edge", z3.ForAll([f, vs], z3.Implies(CBE.getf(BUILD(f, vs), "bare"), z3.And(LP.len(EDGES(f, vs)) == 1, LP.at(EDGES(f, vs), 0) == CBE.getf(BUILD(f, vs), "pair"))), patterns=[BUILD(f, vs)]), "definition: ... returns one bare edge"),
        ("motif_edges.len", z3.ForAll([f, vs], LP.len(EDGES(f, vs)) >= 0, patterns=[EDGES(f, vs)]), ""),
        ("motif_names.of_a_sequence", z3.ForAll([f], z3.Implies(z3.Not(CBN.getf(NAMES(f), "bare")), NAMEL(f) == CBN.getf(NAMES(f), "seq")), patterns=[NAMES(f)]), "definition: the names when the naming callback returns a sequence"),
        ("motif_names.of_a_bare_name", z3.ForAll([f], z3.Implies(CBN.getf(NAMES(f), "bare"), z3.And(LName.len(NAMEL(f)) == 1, LName.at(NAMEL(f), 0) == CBN.getf(NAMES(f), "name"))), patterns=[NAMES(f)]), "definition: ... returns one bare name"),
        ("motif_names.len", z3.ForAll([f], LName.len(NAMEL(f)) >= 0, patterns=[NAMEL(f)]), "")]
    reg.axioms += [("callback.seq_len", z3.ForAll([f, vs], LP.len(CBE.getf(BUILD(f, vs), "seq")) >= 0, patterns=[BUILD(f, vs)]), "a build callback returns a sequence (or one bare edge)"),
                   ("callback.names_len", z3.ForAll([f], LName.len(CBN.getf(NAMES(f), "seq")) >= 0, patterns=[NAMES(f)]), "a naming callback returns a sequence (or one bare name)")]
    NS = reg.native_specfuns
    NS["motif_edges"] = dict(smt=lambda ex, fn, v: Val(LP, EDGES(fn.z, v.z)), rt=None); NS["motif_edge_names"] = dict(smt=lambda ex, fn: Val(LName, NAMEL(fn.z)), rt=None)
    NS["build_custom"] = dict(smt=lambda ex, fn, v: Val(CBE, BUILD(fn.z, v.z)), rt=None); NS["names_custom"] = dict(smt=lambda ex, fn: Val(CBN, NAMES(fn.z)), rt=None)
    def hook(ex, n, st, pc):
        if isinstance(n, ast.ListComp):
            src = ast.unparse(n).replace(" ", "")
            if src == "[list(chain.from_iterable(starmap(repeat,r)))forrinmap(enumerate,zip(*jds))]":
                out = fresh(LL, "stubs"); pc.extend(wf(out)); ex.assumptions.add("flatten-repeat idiom (see contracts/gen_fast.py)"); return out
            if src == "[itemforsublistinverticesforiteminsublist]":
                v = ex.expr(ast.Name(id="vertices", ctx=ast.Load()), st, pc); ex.assumptions.add("[x for sub in xs for x in sub] is the concatenation of the sublists"); return Val(LInt, FLAT(v.z))
            return None
        if isinstance(n, ast.BoolOp) and ast.unparse(n).replace(" ", "").replace("(", "").replace(")", "") == "lenes==2andnotisinstancees[0],tuple,list":
            es = ex.expr(ast.Name(id="es", ctx=ast.Load()), st, pc)
            if es.t == CBE:
                ex.assumptions.add("A-CALLBACK-SHAPE: a build callback returns either ONE bare edge (u, v) -- len 2, first element not a tuple/list -- or a sequence of edges; `len(es) == 2 and not isinstance(es[0], (tuple, list))` holds exactly for the bare edge")
                return Val(BOOL, CBE.getf(es.z, "bare"))
        if isinstance(n, ast.List) and len(n.elts) == 1 and isinstance(n.elts[0], ast.Name) and n.elts[0].id in st.env and isinstance(st.env[n.elts[0].id], Val):
            x = st.env[n.elts[0].id]
            if x.t == CBE: return Val(CBE, CBE.mk(z3.BoolVal(False), CBE.getf(x.z, "pair"), LP.make(z3.IntVal(1), z3.K(z3.IntSort(), CBE.getf(x.z, "pair")))))      # [es] for a bare edge es
            if x.t == CBN: return Val(CBN, CBN.mk(z3.BoolVal(False), CBN.getf(x.z, "name"), LName.make(z3.IntVal(1), z3.K(z3.IntSort(), CBN.getf(x.z, "name")))))
        if not isinstance(n, ast.Call): return None
        src = ast.unparse(n).replace(" ", "")
        if src == "list(chain.from_iterable(vertices))":       # the same concatenation, spelled with itertools
            v = ex.expr(ast.Name(id="vertices", ctx=ast.Load()), st, pc)
            if v.t == LL: ex.assumptions.add("list(chain.from_iterable(xs)) is the concatenation of the sublists"); return Val(LInt, FLAT(v.z))
        if src == "self.infinite_sequence()": return Val(INT, z3.IntVal(0))
        if src == "next(gen)":
            cur = st.env["gen"]; st.env["gen"] = Val(INT, cur.z + 1); return cur
        if src.startswith("random.shuffle("):
            root, steps = ex.path_of(n.args[0], st, pc); old = ex.read_path(st, root, steps); new = fresh(old.t, "shuf"); pc.extend(wf(new)); ex.write_path(st, root, steps, new)
            ex.assumptions.add("random.shuffle(xs) replaces xs by an arbitrary permutation of itself"); return Val(NONE, z3.BoolVal(True))
        if src.startswith("self.partition("):
            a, b = [ex.expr(x, st, pc) for x in n.args]; ex.assumptions.add("in the column-structure proof (C02) the result of partition(lst, n) is left abstract: some list of lists; the helper's own contract is proved in this module and is what contracts/gen_custom_slots.py (C01, C03) uses"); return Val(LL, CHUNKS(a.z, b.z))
        if is_call(n, "len", 1):
            a = ex.expr(n.args[0], st, list(pc))
            if isinstance(a, Val) and a.t == CBE: return Val(INT, z3.If(CBE.getf(a.z, "bare"), 2, LP.len(CBE.getf(a.z, "seq"))))
        if is_call(n, "int", 1):
            a = ex.expr(n.args[0], st, pc)
            if isinstance(a.t, RealT):
                r = fresh_int("trunc"); pc.append(z3.Implies(a.z >= 0, z3.And(z3.ToReal(r) <= a.z, a.z < z3.ToReal(r) + 1))); pc.append(z3.Implies(a.z < 0, z3.And(z3.ToReal(r) >= a.z, a.z > z3.ToReal(r) - 1)))
                ex.assumptions.add("int(x) truncates a float towards zero"); return Val(INT, r)
        if isinstance(n.func, ast.Subscript) and ast.unparse(n.func.value) == "self._build_functions":
            fn = ex.expr(n.func, st, pc); arg = ex.expr(n.args[0], st, pc); ex.assumptions.add("A-CALLBACK: build callbacks are pure functions of their argument"); return Val(CBE, BUILD(fn.z, arg.z))
        if isinstance(n.func, ast.Subscript) and ast.unparse(n.func.value) == "self._edge_names" and not n.args:
            fn = ex.expr(n.func, st, pc); ex.assumptions.add("A-CALLBACK: naming callbacks are constant"); return Val(CBN, NAMES(fn.z))
        if isinstance(n.func, ast.Attribute) and n.func.attr == "extend" and len(n.args) == 1:
            a = ex.expr(n.args[0], st, list(pc))
            if isinstance(a, Val) and a.t in (CBE, CBN):
                T_, seqf = (CBE, "seq") if a.t == CBE else (CBN, "seq")
                ex.oblige(f"safe.type.extend_by_a_sequence_not_a_bare_value@{n.lineno}", "safe.type", pc, z3.Not(T_.getf(a.z, "bare")), n)
                root, steps = ex.path_of(n.func.value, st, pc); recv = ex.read_path(st, root, steps)
                return ex.reg.methods[("ListT", "extend")](ex, recv, [Val(recv.t, T_.getf(a.z, seqf))], st, root, steps, pc, n)
        return None
    reg.call_hooks.append(hook)
    me = reg.module("gcmpy/network/edge_list.py")
    EL = me.cls("LightWeightEdgeList", fields={"_edge_list": LP, "_topologies": LName, "_joint_degrees": JDS, "_motif_id": LInt},
                properties={"edge_list": "_edge_list", "topologies": "_topologies", "joint_degrees": "_joint_degrees", "motif_id": "_motif_id"})
    me.fn("LightWeightEdgeList.__init__", ensures={"empty": "len(self._edge_list) == 0 and len(self._topologies) == 0 and len(self._joint_degrees) == 0 and len(self._motif_id) == 0"})
    # ---- constructors: the generator works on exactly the sizes, callbacks and orbit index lists it was given (order included)
    from vf.idioms import params_record
    PG = params_record(reg, "GCMAlgorithmNames", {"MOTIF_SIZES": LInt, "BUILD_FUNCTIONS": LFn, "EDGE_NAMES": LFn, "MOTIF_INDICES": LL}, typename="Params_gcm_custom")
    mb = reg.module("gcmpy/gcm_algorithm/gcm_algorithm.py")
    mb.cls("GCMAlgorithm", fields={"_motif_sizes": LInt, "_edge_names": LFn, "_build_functions": LFn})
    BASE_KEYS = "params.has_MOTIF_SIZES and params.has_BUILD_FUNCTIONS and params.has_EDGE_NAMES"
    mb.fn("GCMAlgorithm.__init__", params={"params": PG}, assigns=["_motif_sizes", "_build_functions", "_edge_names"],
          ensures={"stores_the_parameters_unchanged": "self._motif_sizes == params.MOTIF_SIZES and self._build_functions == params.BUILD_FUNCTIONS and self._edge_names == params.EDGE_NAMES", "params_untouched": "params == old(params)"},
          # which exception class reports a missing parameter is not part of any statement (today: TypeError, from `raise (str)`)
          raises={"TypeError": dict(when=f"not ({BASE_KEYS})", only=False), "ValueError": dict(when=f"not ({BASE_KEYS})", only=False), "KeyError": dict(when=f"not ({BASE_KEYS})", only=False)})
    m = reg.module("gcmpy/gcm_algorithm/gcm_algorithm_custom_motifs.py")
    m.cls("GCMAlgorithmCustomMotifs", fields={"_motif_sizes": LInt, "_edge_names": LFn, "_build_functions": LFn, "_motif_indices": LL}, bases=["GCMAlgorithm"])
    # ---- partition(lst, n): consecutive n-slices, as many as range(0, len(lst), n) has elements
    m.fn("GCMAlgorithmCustomMotifs.partition", params={"lst": LInt, "n": INT}, ret=LL, opaque_arith="all",
         requires={"size_positive": "n >= 1"},
         ensures={"one_chunk_per_start": "len(result) == len(range(0, len(lst), n))",
                  "chunk_is_the_slice": "forall(p, 0, len(result), result[p] == lst[p * n : p * n + n], trigger=result[p])",
                  "frame": "self == old(self) and lst == old(lst)"})
    m.fn("GCMAlgorithmCustomMotifs.__init__", params={"params": PG},
         ensures={"orbit_index_lists_stored_unchanged": "self._motif_indices == params.MOTIF_INDICES",
                  "base_parameters_stored_unchanged": "self._motif_sizes == params.MOTIF_SIZES and self._build_functions == params.BUILD_FUNCTIONS and self._edge_names == params.EDGE_NAMES",
                  "params_untouched": "params == old(params)"},
         raises={"TypeError": dict(when=f"not ({BASE_KEYS} and params.has_MOTIF_INDICES)", only=False), "ValueError": dict(when=f"not ({BASE_KEYS} and params.has_MOTIF_INDICES)", only=False),
                 "KeyError": dict(when=f"not ({BASE_KEYS} and params.has_MOTIF_INDICES)", only=False)})
    E = "EdgeList"; MID = f"{E}._motif_id[p]"
    RES = "motif_edges(self._build_functions[rec_j[{m}]], rec_vs[{m}])"; NMS = "motif_edge_names(self._edge_names[rec_j[{m}]])"
    COLS = {"par1": f"len({E}._edge_list) == len({E}._topologies)", "par2": f"len({E}._edge_list) == len({E}._motif_id)", "gen": "gen >= 0", "jds": f"(len({E}._joint_degrees) == len(jds) and forall(vj, 0, len(jds), {E}._joint_degrees[vj] == jds[vj], trigger={E}._joint_degrees[vj]))",
            "ids": f"forall(p, 0, len({E}._motif_id), 0 <= {MID} and {MID} < gen)",
            "blk_lo": f"forall(p, 0, len({E}._edge_list), rec_start[{MID}] <= p)",
            "blk_hi": f"forall(p, 0, len({E}._edge_list), p < rec_start[{MID}] + len({RES.format(m=MID)}))",
            "edge": f"forall(p, 0, len({E}._edge_list), {E}._edge_list[p] == {RES.format(m=MID)}[p - rec_start[{MID}]])",
            "name": f"forall(p, 0, len({E}._edge_list), {E}._topologies[p] == {NMS.format(m=MID)}[p - rec_start[{MID}]])",
            "chain0": "implies(gen > 0, rec_start[0] == 0)",
            "chain": f"forall(m, 0, gen - 1, rec_start[m + 1] == rec_start[m] + len({RES.format(m='m')}))",
            "chainN": f"(rec_start[gen - 1] + len({RES.format(m='gen - 1')}) == len({E}._edge_list)) if gen > 0 else (len({E}._edge_list) == 0)",
            "recj": "forall(m, 0, gen, 0 <= rec_j[m] and rec_j[m] < len(self._motif_indices))", "frame": "self == old(self) and jds == old(jds)"}
    SHAPE = SHAPE_SRC
    reg.type("LInt", LInt)
    ghost = {"rec_j": ARR, "rec_start": ARR, "rec_vs": ArrT(INT, LInt)}
    m.fn("GCMAlgorithmCustomMotifs.random_clustered_graph", params={"jds": JDS, **ghost}, ghost=list(ghost), ret=EL.ty, locals={"partitions": LLL, "vertices": LL},
         requires={"one_callback_pair_per_motif_type": "len(self._build_functions) >= len(self._motif_indices) and len(self._edge_names) >= len(self._motif_indices)",
                   "orbits": "forall(j, 0, len(self._motif_indices), len(self._motif_indices[j]) >= 1 and forall(o, 0, len(self._motif_indices[j]), 0 <= self._motif_indices[j][o] and self._motif_indices[j][o] < len(self._motif_sizes)))",
                   "naming_callback_matches_build_callback_position_by_position": SHAPE},
         ensures={"columns_parallel": "len(result._edge_list) == len(result._topologies) and len(result._edge_list) == len(result._motif_id)",
                  "jds_carried": "len(result._joint_degrees) == len(old(jds)) and forall(vj, 0, len(old(jds)), result._joint_degrees[vj] == old(jds)[vj], trigger=result._joint_degrees[vj])",
                  **{"blocks." + k: v.replace(f"{E}.", "result.") for k, v in COLS.items() if k in ("ids", "blk_lo", "blk_hi", "edge", "name", "chain0", "chain", "chainN")}},
         raises={"IndexError": dict(when="True", only=False), "ZeroDivisionError": dict(when="True", only=False)},
         loops={0: dict(inv={"frame": "self == old(self) and jds == old(jds)"}),
                1: dict(inv={"frame": "self == old(self) and jds == old(jds) and len(EdgeList._joint_degrees) == len(jds) and forall(vj, 0, len(jds), EdgeList._joint_degrees[vj] == jds[vj], trigger=EdgeList._joint_degrees[vj]) and len(EdgeList._edge_list) == 0 and len(EdgeList._topologies) == 0 and len(EdgeList._motif_id) == 0", "parts": "len(partitions) == IT"}),
                2: dict(inv={**COLS, "j": "forall(m, 0, gen, rec_j[m] < IT)"}),
                3: dict(inv={**COLS, "j": "forall(m, 0, gen, rec_j[m] <= j)", "ctx": "0 <= j and j < len(self._motif_indices) and motif_indexes == self._motif_indices[j]"},
                        ghost_end=["rec_j[id] = j", "rec_vs[id] = vertices", f"rec_start[id] = len({E}._edge_list) - len(motif_edges(self._build_functions[j], vertices))"]),
                4: dict(inv={**COLS, "j": "forall(m, 0, gen, rec_j[m] <= j)", "ctx": "0 <= j and j < len(self._motif_indices) and motif_indexes == self._motif_indices[j]"})})
    return ["LightWeightEdgeList.__init__", "GCMAlgorithm.__init__", "GCMAlgorithmCustomMotifs.__init__", "GCMAlgorithmCustomMotifs.partition", "GCMAlgorithmCustomMotifs.random_clustered_graph"]
