"""C09: the program-logic nuggets of EECC that are within the verifier's reach: binom as it is called (r = 2) and Network.remove_edge."""
import ast, z3
from vf.spec import *
P = PairT(INT, INT)
GRAPH = RecT("UGraph", {"adj": SetT(P)})
def build(reg):
    reg.type("Int", INT)
    m = reg.module("gcmpy/covers/eecc.py")
    m.fn("binom", params={"n": INT, "r": INT}, ret=INT, requires={"as_called": "r == 2 and n >= 2"},
         ensures={"n_choose_2": "2 * result == old(n) * (old(n) - 1)"},
         loops={0: dict(snap={"n0": "n"}, inv={"r": "r == 2 and n0 >= 2 and n0 == old(n)", "trip": "1 <= IT and IT <= 3",
                                                "first": "implies(IT == 1, p == 1 and n == n0)", "second": "implies(IT == 2, p == n0 and n == n0 - 1)",
                                                "third": "implies(IT == 3, 2 * p == n0 * (n0 - 1) and n == n0 - 2)"},
                        hints={"product_of_consecutive_integers_is_even": "(n0 * (n0 - 1)) % 2 == 0"})})
    def hook(ex, node, st, pc):
        if isinstance(node, ast.Call) and isinstance(node.func, ast.Attribute) and node.func.attr == "remove_edge" and ast.unparse(node.func.value) == "self._G":
            root, steps = ex.path_of(node.func.value, st, pc); g = ex.read_path(st, root, steps); a, b = [ex.expr(x, st, pc) for x in node.args]
            present = z3.Select(GRAPH.getf(g.z, "adj"), P.mk(a.z, b.z))
            ex.branch_exc(pc, z3.Not(present), "NetworkXError", node)
            new = z3.Store(z3.Store(GRAPH.getf(g.z, "adj"), P.mk(a.z, b.z), False), P.mk(b.z, a.z), False)
            ex.write_path(st, root, steps, Val(GRAPH, GRAPH.mk(new)))
            ex.assumptions.add("nx.Graph.remove_edge(u, v) removes the undirected edge and raises NetworkXError when it is absent"); return Val(NONE, z3.BoolVal(True))
        return None
    reg.call_hooks.append(hook)
    mn = reg.module("gcmpy/network/network.py")
    mn.cls("Network", fields={"_G": GRAPH})
    SYM = "forall_elem(a, Int, forall_elem(b, Int, ((a, b) in self._G.adj) == ((b, a) in self._G.adj)))"
    mn.fn("Network.remove_edge", params={"i": INT, "j": INT}, requires={"symmetric": SYM},
          ensures={"removed": "not ((i, j) in self._G.adj) and not ((j, i) in self._G.adj)",
                   "others_untouched": "forall_elem(a, Int, forall_elem(b, Int, implies(not ((a == i and b == j) or (a == j and b == i)), ((a, b) in self._G.adj) == ((a, b) in old(self._G).adj))))",
                   "silent_when_absent": "implies(not ((i, j) in old(self._G).adj), self._G == old(self._G))", "symmetric": SYM})
    return ["binom", "Network.remove_edge"]
