import ast, z3
from vf.spec import *
Name = Elem("Name"); Gt = Elem("Graph")
JD = ListT(INT, tagged=True); Key = PairT(JD, JD); Edge = PairT(INT, INT); LEdge = ListT(Edge); LName = ListT(Name); LJD = ListT(JD)
ETOP = z3.Function("etop", Gt.sort(), Edge.sort(), Name.sort())
EMID = z3.Function("emid", Gt.sort(), Edge.sort(), z3.IntSort())
NJD = z3.Function("njd", Gt.sort(), z3.IntSort(), JD.sort())
TIDX = z3.Function("tindex", LName.sort(), Name.sort(), z3.IntSort())
def dec_z(jd, i): return JD.make(JD.len(jd), z3.Store(JD.arr(jd), i, z3.Select(JD.arr(jd), i) - 1), kind=z3.BoolVal(True))

def build(reg):
    reg.type("Name", Name); reg.type("Key", Key)
    NS = reg.native_specfuns
    NS["etop"] = dict(smt=lambda ex, g, e: Val(Name, ETOP(g.z, e.z)), rt=None)
    NS["emid"] = dict(smt=lambda ex, g, e: Val(INT, EMID(g.z, e.z)), rt=None)
    NS["njd"] = dict(smt=lambda ex, g, n: Val(JD, NJD(g.z, n.z)), rt=None)
    NS["dec"] = dict(smt=lambda ex, jd, i: Val(JD, dec_z(jd.z, i.z)), rt=None)
    NS["cat"] = dict(smt=lambda ex, a, b: Val(Key, Key.mk(a.z, b.z)), rt=lambda a, b: a + b)
    NS["tindex"] = dict(smt=lambda ex, names, t: Val(INT, TIDX(names.z, t.z)), rt=lambda names, t: list(names).index(t))
    NS["other"] = dict(smt=lambda ex, u, e: Val(INT, z3.If(Edge.fst(e.z) == u.z, Edge.snd(e.z), Edge.fst(e.z))), rt=lambda u, e: e[1] if e[0] == u else e[0])
    ns, t, j = z3.Const("ns_", LName.sort()), z3.Const("t_", Name.sort()), z3.Int("j_")
    reg.axioms.append(("tindex.def", z3.ForAll([ns, t, j], z3.Implies(z3.And(0 <= j, j < LName.len(ns), LName.at(ns, j) == t),
        z3.And(0 <= TIDX(ns, t), TIDX(ns, t) <= j, LName.at(ns, TIDX(ns, t)) == t)), patterns=[z3.MultiPattern(TIDX(ns, t), LName.at(ns, j))]),
        "tindex(names, t) is the first index of t in names (definition by description)"))
    reg.binop_hooks["concat"] = lambda ex, a, b: (ex.assumptions.add("L-CAT: a + b on equal-length joint-degree tuples is the pair (a, b)") or Val(Key, Key.mk(a.z, b.z))) if (isinstance(a.t, ListT) and a.t.tagged and isinstance(b.t, ListT) and b.t.tagged) else None
    ATTR = {"NetworkNames.TOPOLOGY": ("etop", Name, ETOP), "NetworkNames.MOTIF_IDS": ("emid", INT, EMID)}
    def hook(ex, n, st, pc):
        # G.edges[e][NetworkNames.X]  /  G.nodes[u][NetworkNames.JOINT_DEGREE]
        if isinstance(n, ast.Subscript) and isinstance(n.value, ast.Subscript) and isinstance(n.value.value, ast.Attribute) and isinstance(n.value.value.value, ast.Name):
            g = st.env.get(n.value.value.value.id)
            if isinstance(g, Val) and g.t == Gt:
                key = ast.unparse(n.slice); what = n.value.value.attr; arg = ex.expr(n.value.slice, st, pc)
                if what == "edges" and key in ATTR:
                    ex.assumptions.add("G.edges[e][name] reads the edge annotation (edge and annotation exist: clean annotated network)")
                    return Val(ATTR[key][1], ATTR[key][2](g.z, arg.z))
                if what == "nodes" and key == "NetworkNames.JOINT_DEGREE":
                    ex.assumptions.add("G.nodes[n]['joint_degree'] reads the vertex annotation"); return Val(JD, NJD(g.z, arg.z))
        return None
    HAS = z3.Function("has_edge", Gt.sort(), z3.IntSort(), z3.IntSort(), z3.BoolSort())
    NS["has_edge"] = dict(smt=lambda ex, g, a, b: Val(BOOL, HAS(g.z, a.z, b.z)), rt=lambda g, a, b: g.has_edge(a, b))
    def hook2(ex, n, st, pc):
        if isinstance(n, ast.Call) and isinstance(n.func, ast.Attribute) and n.func.attr == "has_edge" and isinstance(n.func.value, ast.Name):
            g = st.env.get(n.func.value.id)
            if isinstance(g, Val) and g.t == Gt:
                a, b = [ex.expr(x, st, pc) for x in n.args]; return Val(BOOL, HAS(g.z, a.z, b.z))
        if isinstance(n, ast.Compare) and len(n.ops) == 1 and isinstance(n.ops[0], (ast.NotEq, ast.Eq)) and ast.unparse(n.left).endswith(".keys()") and ast.unparse(n.comparators[0]).endswith(".keys()"):
            a = ex.expr(n.left.func.value, st, pc); b = ex.expr(n.comparators[0].func.value, st, pc)
            eq = a.t.dom(a.z) == b.t.dom(b.z); return Val(BOOL, z3.Not(eq) if isinstance(n.ops[0], ast.NotEq) else eq)
        return None
    reg.call_hooks.append(hook2)
    reg.call_hooks.append(hook)
    reg.consts["ErrorMarkovChainMonteCarloRewiring"] = Val(NONE, z3.BoolVal(True))

    mp = reg.module("gcmpy/tools/proposal_edge.py")
    PE = mp.cls("ProposalEdge", fields={"_topology": Name, "_motif_id": INT, "_new_edge": Edge})
    mp.fn("ProposalEdge.__init__", ensures={})
    mk = reg.module("gcmpy/tools/joint_excess_joint_degree_keys_view.py")
    KV = mk.cls("JointExcessJointDegreeKeysView", fields={"_keys": LJD})
    K4 = {"len4": "len(self._keys) == 4"}
    for nm, (a, b) in {"get_u0u1": (0, 1), "get_u1u0": (1, 0), "get_v0v1": (2, 3), "get_v1v0": (3, 2), "get_u0v1": (0, 3), "get_v0u1": (2, 1)}.items():
        mk.fn(f"JointExcessJointDegreeKeysView.{nm}", ret=Key, pure=True, requires=K4, ensures={"value": f"result == cat(self._keys[{a}], self._keys[{b}])"})
    mm = reg.module("gcmpy/tools/joint_excess_joint_degree_matrices.py")
    MAT = mm.cls("JointExcessJointDegreeMatrices", fields={"_ejks": DictT(Name, DictT(Key, REAL)), "_topology_names": LName}, properties={"ejks": "_ejks", "topology_names": "_topology_names"})
    mm.fn("JointExcessJointDegreeMatrices.get_topology_index", params={"topology": Name}, ret=INT, pure=True,
          ensures={"range": "0 <= result and result < len(self._topology_names)", "is_it": "self._topology_names[result] == topology",
                   "first": "result == tindex(self._topology_names, topology)"},
          raises={"TypeError": dict(when="not exists(j, 0, len(self._topology_names), self._topology_names[j] == topology)")},
          loops={0: dict(inv={"none_yet": "forall(j, 0, IT, self._topology_names[j] != topology)"})})
    m = reg.module("gcmpy/tools/markov_chain_monte_carlo_rewiring.py")
    mnw = reg.module("gcmpy/network/network.py")
    NET = mnw.cls("Network", fields={"_G": Gt}, properties={"G": "_G"})
    LoggerT = Elem("Logger")
    MC = m.cls("MarkovChainMonteCarloRewiring", fields={"_ejks": MAT.ty, "_proposal_edges": ListT(PE.ty), "_network": NET.ty, "_convergence_limit": INT, "_search_limit": INT,
               "_logger": LoggerT, "_proposal_count": INT, "_proposals_accepted": INT, "_acceptance_ratio": ListT(REAL)})
    from vf.idioms import params_record
    PT = params_record(reg, "ToolsNames", {"NETWORK": NET.ty, "EJKS": MAT.ty, "CONVERGENCE_LIMIT": INT, "SEARCH_LIMIT": INT})
    NE = z3.Function("number_of_edges", Gt.sort(), z3.IntSort()); INC = z3.Function("incident_edges", Gt.sort(), z3.IntSort(), LEdge.sort())
    g_ = z3.Const("g_", Gt.sort()); x_, q_ = z3.Ints("x_ q_")
    reg.axioms += [("number_of_edges.nonneg", z3.ForAll([g_], NE(g_) >= 0, patterns=[NE(g_)]), "G.number_of_edges() >= 0"),
                   ("G.edges(u).incident", z3.ForAll([g_, x_, q_], z3.Implies(z3.And(0 <= q_, q_ < LEdge.len(INC(g_, x_))), z3.Or(Edge.fst(LEdge.at(INC(g_, x_), q_)) == x_, Edge.snd(LEdge.at(INC(g_, x_), q_)) == x_)), patterns=[LEdge.at(INC(g_, x_), q_)]),
                    "every edge reported by G.edges(u) is incident to u"),
                   ("G.edges(u).len", z3.ForAll([g_, x_], LEdge.len(INC(g_, x_)) >= 0, patterns=[INC(g_, x_)]), "")]
    NS["nedges"] = dict(smt=lambda ex, g: Val(INT, NE(g.z)), rt=lambda g: g.number_of_edges())
    NS["incident"] = dict(smt=lambda ex, g, u: Val(LEdge, INC(g.z, u.z)), rt=lambda g, u: list(g.edges(u)))
    def hook3(ex, n, st, pc):
        if isinstance(n, ast.Call) and isinstance(n.func, ast.Name) and n.func.id == "Logger": return Val(LoggerT, z3.Const(f"logger!{uid()}", LoggerT.sort()))
        if isinstance(n, ast.Call) and isinstance(n.func, ast.Attribute) and n.func.attr in ("number_of_edges", "edges"):
            try: g = ex.expr(n.func.value, st, list(pc))
            except Exception: return None
            if isinstance(g, Val) and g.t == Gt:
                if n.func.attr == "number_of_edges" and not n.args: ex.assumptions.add("G.number_of_edges() is a non-negative int"); return Val(INT, NE(g.z))
                if n.func.attr == "edges" and len(n.args) == 1: ex.assumptions.add("G.edges(u) lists the edges incident to u"); return Val(LEdge, INC(g.z, ex.expr(n.args[0], st, pc).z))
        return None
    reg.call_hooks.append(hook3)
    ERR = "ErrorMarkovChainMonteCarloRewiring"
    m.fn("MarkovChainMonteCarloRewiring.get_other_vertex", params={"u": INT, "e": Edge}, ret=INT, pure=True,
         ensures={"other": "result == other(u, e)", "member": "e[0] == u or e[1] == u"}, raises={ERR: dict(when="e[0] != u and e[1] != u")})
    m.fn("MarkovChainMonteCarloRewiring.append_proposal_edges", params={"G": Gt, "u0": INT, "old_edge": Edge, "new_edge": Edge},
         ensures={"len": "len(self._proposal_edges) == len(old(self._proposal_edges)) + 1",
                  "prefix": "forall(p, 0, len(old(self._proposal_edges)), self._proposal_edges[p] == old(self._proposal_edges)[p])",
                  "topology": "self._proposal_edges[len(self._proposal_edges) - 1]._topology == etop(G, old_edge)",
                  "motif_id": "self._proposal_edges[len(self._proposal_edges) - 1]._motif_id == emid(G, old_edge)",
                  "new_edge": "self._proposal_edges[len(self._proposal_edges) - 1]._new_edge == (u0, other(u0, new_edge))",
                  "frame": "self._ejks == old(self._ejks)"},
         raises={ERR: dict(when="new_edge[0] != u0 and new_edge[1] != u0", only=True)})
    m.fn("MarkovChainMonteCarloRewiring.get_all_edges", params={"G": Gt, "u0": INT, "edge": Edge}, ret=LEdge, pure=True, locals={"es": LEdge},
         ensures={"oriented_from_the_focal_vertex": "forall(p, 0, len(result), result[p][0] == u0)",
                  "only_edges_at_u0_with_the_drawn_motif_id": "forall(p, 0, len(result), exists(q, 0, len(incident(G, u0)), emid(G, incident(G, u0)[q]) == emid(G, edge) and result[p] == (u0, other(u0, incident(G, u0)[q]))))",
                  "all_of_them": "forall(q, 0, len(incident(G, u0)), implies(emid(G, incident(G, u0)[q]) == emid(G, edge), exists(p, 0, len(result), result[p] == (u0, other(u0, incident(G, u0)[q])))))"},
         raises={ERR: dict(when="False")},
         loops={0: dict(inv={"from_u0": "forall(p, 0, len(es), es[p][0] == u0)",
                             "only": "forall(p, 0, len(es), exists(q, 0, IT, emid(G, incident(G, u0)[q]) == emid(G, edge) and es[p] == (u0, other(u0, incident(G, u0)[q]))))",
                             "all": "forall(q, 0, IT, implies(emid(G, incident(G, u0)[q]) == emid(G, edge), exists(p, 0, len(es), es[p] == (u0, other(u0, incident(G, u0)[q])))))",
                             "mid": "motif_id == emid(G, edge)"},
                        end_hints={"keeps_old": "forall(p, 0, len(es_at_head), es[p] == es_at_head[p]) and len(es) >= len(es_at_head)",
                                   "new_last": "implies(len(es) == len(es_at_head) + 1, es[len(es) - 1] == (u0, other(u0, incident(G, u0)[IT])))"},
                        head_snap={"es_at_head": "es"})})
    m.fn("MarkovChainMonteCarloRewiring.__init__", params={"params": PT}, requires={"keys": "params.has_NETWORK and params.has_EJKS", "limit": "implies(params.has_CONVERGENCE_LIMIT, params.CONVERGENCE_LIMIT >= 0)"},
         ensures={"network": "self._network == params.NETWORK", "target": "self._ejks == params.EJKS",
                  "convergence_limit_is_a_count": "self._convergence_limit >= 0",
                  "explicit_limit_respected": "implies(params.has_CONVERGENCE_LIMIT, self._convergence_limit == params.CONVERGENCE_LIMIT)",
                  # the statement asks that the optional limits may be left to their defaults, not for particular default values (10 * E and 25 today): a default must be a usable count
                  "default_limit": "implies(not params.has_CONVERGENCE_LIMIT, self._convergence_limit >= 0)",
                  "search_limit": "implies(params.has_SEARCH_LIMIT, self._search_limit == params.SEARCH_LIMIT) and implies(not params.has_SEARCH_LIMIT, self._search_limit >= 0)"},
         raises={ERR: dict(when="False")})
    m.fn("MarkovChainMonteCarloRewiring.get_hashmap", params={"G": Gt, "es": LEdge}, ret=DictT(Name, LEdge), pure=True,
         ensures={"grouped": "forall_elem(t, Name, implies(t in result, forall(j, 0, len(result[t]), etop(G, result[t][j]) == t)))",
                  "dom": "forall(i, 0, len(es), etop(G, es[i]) in result)"})
    m.fns["MarkovChainMonteCarloRewiring.get_hashmap"].ensures["complete"] = "forall(i, 0, len(es), exists(j, 0, len(result[etop(G, es[i])]), result[etop(G, es[i])][j] == es[i]))"
    m.fns["MarkovChainMonteCarloRewiring.get_hashmap"].ensures["only"] = "forall_elem(t, Name, implies(t in result, forall(j, 0, len(result[t]), exists(i, 0, len(es), es[i] == result[t][j]))))"
    NEW = "forall(i, 0, len(e0s), forall(j, 0, len(e1s), implies(etop(G, e1s[j]) == etop(G, e0s[i]), {body})))"
    m.fn("MarkovChainMonteCarloRewiring.is_edge_choice_suitable", params={"G": Gt, "u0": INT, "v0": INT, "e0s": LEdge, "e1s": LEdge}, ret=BOOL, pure=True,
         requires={"corners_u": "forall(i, 0, len(e0s), e0s[i][0] == u0 or e0s[i][1] == u0)", "corners_v": "forall(j, 0, len(e1s), e1s[j][0] == v0 or e1s[j][1] == v0)"},
         ensures={"same_size": "implies(result, len(e0s) == len(e1s))",
                  "different_motifs": "implies(result, forall(i, 0, len(e0s), emid(G, e0s[i]) != emid(G, e1s[i])))",
                  "proposed_edges_absent": "implies(result, " + NEW.format(body="not has_edge(G, u0, other(v0, e1s[j])) and not has_edge(G, v0, other(u0, e0s[i]))") + ")",
                  "no_proposed_self_loop": "implies(result, " + NEW.format(body="u0 != other(v0, e1s[j]) and v0 != other(u0, e0s[i])") + ")"},
         raises={ERR: dict(when="False")},
         loops={0: dict(inv={"sizes_so_far": "True"}),
                1: dict(inv={"differ": "forall(i, 0, IT, emid(G, e0s[i]) != emid(G, e1s[i]))", "len": "len(e0s) == len(e1s)"}),
                2: dict(inv={"len": "len(e0s) == len(e1s)", "differ": "forall(i, 0, len(e0s), emid(G, e0s[i]) != emid(G, e1s[i]))",
                             "absent": "forall(i, 0, IT, forall(j, 0, len(e1s), implies(etop(G, e1s[j]) == etop(G, e0s[i]), not has_edge(G, u0, other(v0, e1s[j])) and not has_edge(G, v0, other(u0, e0s[i])))))",
                             "noloop": "forall(i, 0, IT, forall(j, 0, len(e1s), implies(etop(G, e1s[j]) == etop(G, e0s[i]), u0 != other(v0, e1s[j]) and v0 != other(u0, e0s[i]))))"},
                        head_snap={"I": "IT"}),
                3: dict(inv={"len": "len(e0s) == len(e1s)", "ctx": "0 <= I and I < len(e0s) and e0 == e0s[I] and topology == etop(G, e0) and u1 == other(u0, e0) and lst == hashmap_e1s[topology]",
                             "absent": "forall(q, 0, IT, not has_edge(G, u0, other(v0, lst[q])) and not has_edge(G, v0, u1))",
                             "noloop": "forall(q, 0, IT, u0 != other(v0, lst[q]) and v0 != u1)"})})
    m.fn("MarkovChainMonteCarloRewiring.get_joint_excess_degree_key", params={"G": Gt, "e": Edge, "index": INT}, ret=Key, pure=True,
         ensures={"value": "result == cat(dec(njd(G, e[0]), index), dec(njd(G, e[1]), index))"})
    m.fn("MarkovChainMonteCarloRewiring.get_swapped_joint_excess_degree_key", params={"G": Gt, "e0": Edge, "e1": Edge, "u0": INT, "v0": INT, "index": INT}, ret=KV.ty, pure=True,
         ensures={"len4": "len(result._keys) == 4", "k0": "result._keys[0] == dec(njd(G, u0), index)", "k1": "result._keys[1] == dec(njd(G, other(u0, e0)), index)",
                  "k2": "result._keys[2] == dec(njd(G, v0), index)", "k3": "result._keys[3] == dec(njd(G, other(v0, e1)), index)"},
         raises={ERR: dict(when="(e0[0] != u0 and e0[1] != u0) or (e1[0] != v0 and e1[1] != v0)", only=False)})
    PK = "cat(dec(njd(G, {pe}._new_edge[0]), tindex(self._ejks._topology_names, {pe}._topology)), dec(njd(G, {pe}._new_edge[1]), tindex(self._ejks._topology_names, {pe}._topology)))"
    PEP = "self._proposal_edges[p]"
    P_TOP = f"forall(p, 0, len(self._proposal_edges), {PEP}._topology in self._ejks._ejks)"
    P_KEY = f"forall(p, 0, len(self._proposal_edges), {PK.format(pe=PEP)} in self._ejks._ejks[{PEP}._topology])"
    P_POS = f"forall(p, 0, len(self._proposal_edges), self._ejks._ejks[{PEP}._topology][{PK.format(pe=PEP)}] > 0)"
    POSITIVE = f"({P_TOP}) and ({P_KEY}) and ({P_POS})"
    PAIR = {"pair.len": "len(self._proposal_edges) == 2 * {n}",
            "pair.u_side_edge": "forall(i, 0, {n}, self._proposal_edges[2 * i]._new_edge == (u0, other(v0, pair_e1[i])))",
            "pair.v_side_edge": "forall(i, 0, {n}, self._proposal_edges[2 * i + 1]._new_edge == (v0, other(u0, e0s[i])))",
            "pair.u_side_joins_v_motif": "forall(i, 0, {n}, self._proposal_edges[2 * i]._motif_id == emid(G, pair_e1[i]))",
            "pair.v_side_joins_u_motif": "forall(i, 0, {n}, self._proposal_edges[2 * i + 1]._motif_id == emid(G, e0s[i]))"}
    TI = "tindex(M._topology_names, etop(G, e0s[n - 1]))"
    reg.specfun("nprod", [("G", Gt), ("M", MAT.ty), ("e0s", LEdge), ("pair", ArrT(INT, Edge)), ("u0", INT), ("v0", INT), ("n", INT)], REAL, base="1.0",
                rec=f"nprod(G, M, e0s, pair, u0, v0, n - 1) * (M._ejks[etop(G, e0s[n - 1])][cat(dec(njd(G, u0), {TI}), dec(njd(G, other(v0, pair[n - 1])), {TI}))] * "
                    f"M._ejks[etop(G, e0s[n - 1])][cat(dec(njd(G, v0), {TI}), dec(njd(G, other(u0, e0s[n - 1])), {TI}))])")
    K0 = "cat(dec(njd(G, e0s[n - 1][0]), tindex(M._topology_names, etop(G, e0s[n - 1]))), dec(njd(G, e0s[n - 1][1]), tindex(M._topology_names, etop(G, e0s[n - 1]))))"
    K1 = "cat(dec(njd(G, e1s[n - 1][0]), tindex(M._topology_names, etop(G, e1s[n - 1]))), dec(njd(G, e1s[n - 1][1]), tindex(M._topology_names, etop(G, e1s[n - 1]))))"
    NS["store"] = dict(smt=lambda ex, a, j, e: Val(a.t, z3.Store(a.z, j.z, e.z)), rt=None)
    reg.lemma("nprod_ignores_later_partners", vars={"G": Gt, "M": MAT.ty, "e0s": LEdge, "pair": ArrT(INT, Edge), "u0": INT, "v0": INT, "j": INT, "e": Edge, "n": INT}, induct="n",
              stmt="implies(n <= j, nprod(G, M, e0s, store(pair, j, e), u0, v0, n) == nprod(G, M, e0s, pair, u0, v0, n))", trigger="nprod(G, M, e0s, store(pair, j, e), u0, v0, n)")
    reg.specfun("dprod", [("G", Gt), ("M", MAT.ty), ("e0s", LEdge), ("e1s", LEdge), ("n", INT)], REAL, base="1.0",
                rec=f"dprod(G, M, e0s, e1s, n - 1) * (M._ejks[etop(G, e0s[n - 1])][{K0}] * M._ejks[etop(G, e1s[n - 1])][{K1}])")
    m.fn("MarkovChainMonteCarloRewiring.swap_condition", params={"G": Gt, "e0s": LEdge, "e1s": LEdge, "u0": INT, "v0": INT, "pair_e1": ArrT(INT, Edge)}, ret=BOOL,
         ghost=["pair_e1"], locals={},
         requires={"corners_match": "forall(i, 0, len(e0s), exists(j, 0, len(e1s), etop(G, e1s[j]) == etop(G, e0s[i])))",
                   "weights_nonneg": "forall_elem(t, Name, forall_elem(k, Key, implies(t in self._ejks._ejks and k in self._ejks._ejks[t], self._ejks._ejks[t][k] >= 0)))"},
         ensures={"allowed.topology_known": f"implies(result, {P_TOP})", "allowed.pair_in_target": f"implies(result, {P_KEY})",
                  "allowed.weight_positive": f"implies(result, {P_POS})", "target_unchanged": "self._ejks == old(self._ejks)",
                  "metropolis.numerator_is_the_product_over_proposed_pairings": "implies(result, top == nprod(G, self._ejks, e0s, pair_e1, u0, v0, len(e0s)))",
                  "metropolis.denominator_is_the_product_over_current_pairings": "implies(result, bottom == dprod(G, self._ejks, e0s, e1s, len(e0s) if len(e0s) <= len(e1s) else len(e1s)))",
                  "metropolis.accepted_only_if_the_ratio_exceeds_the_draw": "implies(result, RANDOM_DRAW < top / bottom)",
                  **{k: f"implies(result, {v.format(n='len(e0s)')})" for k, v in PAIR.items()}},
         raises={ERR: dict(when="True"), "TypeError": dict(when="True")},
         loops={0: dict(inv={"p_top": P_TOP, "p_key": P_KEY, "p_pos": P_POS, "top": "top > 0", "frame": "self._ejks == old(self._ejks)",
                             "num": "top == nprod(G, self._ejks, e0s, pair_e1, u0, v0, IT)",
                             "keys": "forall(i, 0, len(e0s), etop(G, e0s[i]) in hashmap_e1s)",
                             **{k: v.format(n="IT") for k, v in PAIR.items()},
                             "hashmap": "forall_elem(t, Name, implies(t in hashmap_e1s, forall(j, 0, len(hashmap_e1s[t]), etop(G, hashmap_e1s[t][j]) == t)))"}),
                1: dict(snap={"self1": "self", "top1": "top"}, inv={"frame": "self == self1 and top == top1", "den": "bottom == dprod(G, self._ejks, e0s, e1s, IT)"})})
    m.fns["MarkovChainMonteCarloRewiring.swap_condition"].loops[0]["ghost_end"] = ["pair_e1[IT] = e1"]
    def rewire_frame(reg_):
        d = reg_.find_def("gcmpy/tools/markov_chain_monte_carlo_rewiring.py", "MarkovChainMonteCarloRewiring.rewire"); probs = []
        first = next((s_ for s_ in d.body if isinstance(s_, (ast.Assign, ast.AnnAssign))), None)
        if first is None or ast.unparse(first.value).replace(" ", "") != "self._network.G.copy()" or ast.unparse(first.targets[0] if isinstance(first, ast.Assign) else first.target) != "G": probs.append("rewire does not start with G = self._network.G.copy()")
        for n_ in ast.walk(d):
            if isinstance(n_, ast.Attribute) and ast.unparse(n_).startswith("self._network") and n_ is not None:
                pass
            if isinstance(n_, ast.Call) and isinstance(n_.func, ast.Attribute) and n_.func.attr in ("add_edge", "remove_edge", "add_edges_from", "remove_edges_from", "add_node", "remove_node", "clear") and ast.unparse(n_.func.value) != "G":
                probs.append(f"graph mutation on {ast.unparse(n_.func.value)}")
            if isinstance(n_, (ast.Assign, ast.AugAssign)) :
                for t_ in (n_.targets if isinstance(n_, ast.Assign) else [n_.target]):
                    if ast.unparse(t_).startswith("self._network"): probs.append(f"assignment to {ast.unparse(t_)}")
                    if isinstance(t_, ast.Name) and t_.id == "G" and n_ is not first: probs.append("G is re-bound")
        uses = [ast.unparse(n_) for n_ in ast.walk(d) if isinstance(n_, ast.Attribute) and ast.unparse(n_) == "self._network"]
        if len(uses) != 1: probs.append(f"self._network is used {len(uses)} times (expected once, for the copy)")
        ret = [s_ for s_ in ast.walk(d) if isinstance(s_, ast.Return)]
        if not ret or any(ast.unparse(r.value) != "G" for r in ret): probs.append("rewire does not return the working copy G")
        return (not probs), "; ".join(probs) or "rewire copies the network once, mutates and returns only the copy"
    reg.static_checks.append(("MarkovChainMonteCarloRewiring.rewire:static.works_on_a_copy_of_the_network", rewire_frame))
    return ["JointExcessJointDegreeKeysView.get_u0v1", "JointExcessJointDegreeKeysView.get_v0u1", "JointExcessJointDegreeKeysView.get_u0u1",
            "JointExcessJointDegreeKeysView.get_u1u0", "JointExcessJointDegreeKeysView.get_v0v1", "JointExcessJointDegreeKeysView.get_v1v0",
            "JointExcessJointDegreeMatrices.get_topology_index", "MarkovChainMonteCarloRewiring.get_other_vertex",
            "MarkovChainMonteCarloRewiring.append_proposal_edges", "MarkovChainMonteCarloRewiring.get_all_edges", "MarkovChainMonteCarloRewiring.__init__", "MarkovChainMonteCarloRewiring.swap_condition",
            "MarkovChainMonteCarloRewiring.is_edge_choice_suitable"]
