"""C08: contract of the cover loader's create_jdd (per-vertex counters, removal of all-zero columns, frequency table)."""
import ast, z3
from vf.spec import *
from vf.sym import Unsupported
from vf.idioms import is_call
import contracts.loaders as loaders
JD = loaders.JD; JDD = loaders.JDD; JDS = loaders.JDS; LInt = ListT(INT); LL = ListT(LInt); IMAP = ArrT(INT, INT)
VIDS = z3.Function("cover_vertex_ids", LL.sort(), LInt.sort())
ZCOLS = z3.Function("zero_columns", LL.sort(), LInt.sort())
LMAX = z3.Function("largest_clique_size", LL.sort(), z3.IntSort())
LMIN = z3.Function("list_min", LInt.sort(), z3.IntSort())
ZWIT = z3.Function("nonzero_row_of_column", LL.sort(), z3.IntSort(), z3.IntSort())
def build(reg):
    loaders.build(reg)
    reg.type("Int", INT)
    NS = reg.native_specfuns
    cv = z3.Const("cv_", LL.sort()); xs = z3.Const("xs_", LInt.sort()); q, q2, c, r = z3.Ints("q_ q2_ c_ r_")
    W = lambda rows: z3.If(LL.len(rows) > 0, LInt.len(LL.at(rows, 0)), 0)
    reg.axioms += [
        ("largest_clique.max", z3.ForAll([cv, q], z3.Implies(z3.And(0 <= q, q < LL.len(cv)), LInt.len(LL.at(cv, q)) <= LMAX(cv)), patterns=[LL.at(cv, q)]), "len(max(cover, key=len)) bounds every clique size"),
        ("min.lower_bound", z3.ForAll([xs, q], z3.Implies(z3.And(0 <= q, q < LInt.len(xs)), LMIN(xs) <= LInt.at(xs, q)), patterns=[LInt.at(xs, q)]), "min(xs) <= every element"),
        ("zero_columns.ascending", z3.ForAll([cv, q, q2], z3.Implies(z3.And(0 <= q, q < q2, q2 < LInt.len(ZCOLS(cv))), LInt.at(ZCOLS(cv), q) < LInt.at(ZCOLS(cv), q2)), patterns=[z3.MultiPattern(LInt.at(ZCOLS(cv), q), LInt.at(ZCOLS(cv), q2))]),
         "[i for i, top in enumerate(zip(*rows)) if not any(top)] is ascending"),
        ("zero_columns.are_zero", z3.ForAll([cv, q, r], z3.Implies(z3.And(0 <= q, q < LInt.len(ZCOLS(cv)), 0 <= r, r < LL.len(cv)), z3.And(0 <= LInt.at(ZCOLS(cv), q), LInt.at(ZCOLS(cv), q) < W(cv), LInt.at(LL.at(cv, r), LInt.at(ZCOLS(cv), q)) == 0)),
         patterns=[z3.MultiPattern(LInt.at(ZCOLS(cv), q), LL.at(cv, r))]), "... lists only columns that are zero in every row"),
        ("zero_columns.complete", z3.ForAll([cv, c], z3.Implies(z3.And(0 <= c, c < W(cv), z3.ForAll([q], z3.Implies(z3.And(0 <= q, q < LInt.len(ZCOLS(cv))), LInt.at(ZCOLS(cv), q) != c))),
            z3.And(0 <= ZWIT(cv, c), ZWIT(cv, c) < LL.len(cv), LInt.at(LL.at(cv, ZWIT(cv, c)), c) != 0)), patterns=[ZWIT(cv, c)]), "... and every column that is zero in every row is listed (a column not listed has a non-zero entry)"),
        ("zero_columns.len", z3.ForAll([cv], z3.And(LInt.len(ZCOLS(cv)) >= 0, LInt.len(ZCOLS(cv)) <= W(cv)), patterns=[ZCOLS(cv)]), "")]
    NS["cover_vertex_ids"] = dict(smt=lambda ex, cvr: Val(LInt, VIDS(cvr.z)), rt=None); NS["list_min"] = dict(smt=lambda ex, x: Val(INT, LMIN(x.z)), rt=min)
    ZI = lambda cvr: z3.If(LMIN(VIDS(cvr)) != 0, 1, 0)
    NS["zero_index_of"] = dict(smt=lambda ex, cvr: Val(INT, ZI(cvr.z)), rt=None)
    reg.axioms.append(("cover_vertex_ids.len", z3.ForAll([cv], LInt.len(VIDS(cv)) >= 0, patterns=[VIDS(cv)]), ""))
    NS["zero_columns"] = dict(smt=lambda ex, rows: Val(LInt, ZCOLS(rows.z)), rt=None)
    NS["del_at"] = dict(smt=lambda ex, m, i: Val(IMAP, (lambda p: z3.Lambda([p], z3.If(p < i.z, z3.Select(m.z, p), z3.Select(m.z, p + 1))))(z3.Int(f"lp!{uid()}"))), rt=None)
    NS["nonzero_row_of_column"] = dict(smt=lambda ex, rows, col: Val(INT, ZWIT(rows.z, col.z)), rt=None)
    NS["shift_pos"] = dict(smt=lambda ex, m, i: Val(IMAP, (lambda p: z3.Lambda([p], z3.If(p < i.z, z3.Select(m.z, p), z3.Select(m.z, p) - 1)))(z3.Int(f"lp!{uid()}"))), rt=None)
    NS["identity_map"] = dict(smt=lambda ex: Val(IMAP, (lambda p: z3.Lambda([p], p))(z3.Int(f"lp!{uid()}"))), rt=None)
    def hook(ex, node, st, pc):
        src = ast.unparse(node).replace(" ", "") if isinstance(node, (ast.Call, ast.ListComp)) else ""
        if src == "list(set([vertexforcliqueinself._coverforvertexinclique]))":
            cover = ex.expr(ast.parse("self._cover", mode="eval").body, st, pc); ex.assumptions.add("list(set([v for c in cover for v in c])) is a duplicate-free enumeration of the vertices occurring in the cover"); return Val(LInt, VIDS(cover.z))
        if src == "min(vertex_ids)":
            v = ex.expr(node.args[0], st, pc); ex.branch_exc(pc, LInt.len(v.z) == 0, "ValueError", node); ex.assumptions.add("min(xs) is a lower bound of xs"); return Val(INT, LMIN(v.z))
        if src == "len(max(self._cover,key=len))":
            cover = ex.expr(ast.parse("self._cover", mode="eval").body, st, pc); ex.branch_exc(pc, LL.len(cover.z) == 0, "ValueError", node); ex.assumptions.add("len(max(cover, key=len)) is the largest clique size"); return Val(INT, LMAX(cover.z))
        if src == "[ifori,topinenumerate(zip(*jds))ifnotany(top)]":
            rows = ex.expr(ast.Name(id="jds", ctx=ast.Load()), st, pc); ex.assumptions.add("[i for i, top in enumerate(zip(*rows)) if not any(top)]: the ascending list of the columns that are zero in every row (rows of equal length)"); return Val(LInt, ZCOLS(rows.z))
        return None
    reg.call_hooks.append(hook)
    reg.specfun("occ", [("c", LInt), ("v", INT), ("m", INT)], INT, base="0", rec="occ(c, v, m - 1) + (1 if c[m - 1] == v else 0)")
    reg.specfun("tot", [("cover", LL), ("v", INT), ("s", INT), ("n", INT)], INT, base="0", rec="tot(cover, v, s, n - 1) + (occ(cover[n - 1], v, len(cover[n - 1])) if len(cover[n - 1]) == s else 0)")
    m = reg.module("gcmpy/joint_degree/joint_degree_loaders/joint_degree_cover.py")
    m.cls("JointDegreeCover", fields={"_jdd": JDD, "_motif_sizes": LInt, "_cover": LL}, bases=["JointDegree"], properties={"cover": "_cover"})
    COUNTS = "forall(r, 0, len(jds), forall(col, 0, largest_clique, jds[r][col] == tot(self._cover, r + zero_index, col + 1, {n}) + ({extra}), trigger=jds[r][col]))"
    SHAPE = "len(jds) == len(vertex_ids) and forall(r, 0, len(jds), len(jds[r]) == largest_clique, trigger=jds[r])"
    FRAME = "self._cover == old(self._cover) and self._motif_sizes == old(self._motif_sizes)"
    m.fn("JointDegreeCover.create_jdd", params={"src": IMAP, "orig": LL}, ghost=["src", "orig"], assigns=["_jdd"], locals={"jds": LL},
         requires={"cover": "len(self._cover) >= 1 and forall(q, 0, len(self._cover), len(self._cover[q]) >= 1)",
                   "vertex_ids_are_contiguous_from_0_or_1": "len(cover_vertex_ids(self._cover)) >= 1 and (list_min(cover_vertex_ids(self._cover)) == 0 or list_min(cover_vertex_ids(self._cover)) == 1) and forall(q, 0, len(self._cover), forall(p, 0, len(self._cover[q]), 0 <= self._cover[q][p] - zero_index_of(self._cover) and self._cover[q][p] - zero_index_of(self._cover) < len(cover_vertex_ids(self._cover))))"},
         ensures={"frame": "self._cover == old(self._cover) and self._motif_sizes == old(self._motif_sizes)", "count_matrix": "len(J1) == len(cover_vertex_ids(self._cover)) and forall(r, 0, len(J1), forall(col, 0, L, J1[r][col] == tot(self._cover, r + zero_index_of(self._cover), col + 1, len(self._cover)), trigger=J1[r][col]))", "removed_columns_are_the_all_zero_ones": "indxs == zero_columns(J1)", "kept_columns_in_their_original_order": "forall(p, 0, L - len(indxs), forall(p2, p + 1, L - len(indxs), src[p] < src[p2]))", "no_kept_column_is_all_zero": "forall(p, 0, L - len(indxs), 0 <= src[p] and src[p] < L and forall(t, 0, len(indxs), src[p] != indxs[t]), trigger=src[p])", "every_nonzero_column_is_kept": "forall(col, 0, L, implies(forall(t, 0, len(indxs), col != indxs[t]), 0 <= pos[col] and pos[col] < L - len(indxs) and src[pos[col]] == col), trigger=pos[col])", "rows_count_cliques_per_vertex_and_size": "len(COMP1) == len(cover_vertex_ids(self._cover)) and forall(r, 0, len(COMP1), is_tuple(COMP1[r]) and len(COMP1[r]) == L - len(indxs) and forall(p, 0, L - len(indxs), COMP1[r][p] == tot(self._cover, r + zero_index_of(self._cover), src[p] + 1, len(self._cover))), trigger=COMP1[r])", "distribution_is_the_frequency_of_the_rows": "forall_elem(key, JD, ((key in self._jdd) == (cntjd(COMP1, key, len(COMP1)) > 0)) and implies(key in self._jdd, self._jdd[key] == cntjd(COMP1, key, len(COMP1)) / len(COMP1)))"},
         raises={"ValueError": dict(when="False")},
         loops={0: dict(inv={"rows": "len(jds) == IT and forall(r, 0, IT, len(jds[r]) == largest_clique and forall(col, 0, largest_clique, jds[r][col] == 0), trigger=jds[r])", "frame": FRAME}),
                1: dict(inv={"shape": SHAPE, "counts": COUNTS.format(n="IT", extra="0"), "frame": FRAME}, head_snap={"Q": "IT"}),
                2: dict(inv={"shape": SHAPE, "ctx": "0 <= Q and Q < len(self._cover) and c == self._cover[Q] and clique_size == len(c)",
                             "counts": COUNTS.format(n="Q", extra="occ(c, r + zero_index, IT) if col + 1 == clique_size else 0"), "frame": FRAME}),
                3: dict(snap={"J1": "jds", "L": "largest_clique", "src": "identity_map()", "pos": "identity_map()"}, inv={"zc": "indxs == zero_columns(J1) and len(J1) == len(vertex_ids) and forall(r, 0, len(J1), len(J1[r]) == L, trigger=J1[r]) and L == largest_clique and 0 <= IT and IT <= len(indxs) and len(indxs) <= L", "shape": "len(jds) == len(J1) and forall(r, 0, len(jds), len(jds[r]) == L - IT, trigger=jds[r])", "content": "forall(r, 0, len(jds), forall(p, 0, L - IT, jds[r][p] == J1[r][src[p]], trigger=jds[r][p]))", "mono": "forall(p, 0, L - IT, forall(p2, p + 1, L - IT, src[p] < src[p2]))", "rng": "forall(p, 0, L - IT, 0 <= src[p] and src[p] < L, trigger=src[p])", "prefix": "forall(p, 0, (indxs[len(indxs) - 1 - IT] + 1) if IT < len(indxs) else 0, src[p] == p, trigger=src[p])", "room": "implies(IT < len(indxs), 0 <= indxs[len(indxs) - 1 - IT] and indxs[len(indxs) - 1 - IT] < L - IT)", "notdel": "forall(p, 0, L - IT, forall(t, len(indxs) - IT, len(indxs), src[p] != indxs[t]))", "kept": "forall(col, 0, L, implies(forall(t, len(indxs) - IT, len(indxs), col != indxs[t]), 0 <= pos[col] and pos[col] < L - IT and src[pos[col]] == col), trigger=pos[col])", "frame": "self._cover == old(self._cover) and self._motif_sizes == old(self._motif_sizes)"}, head_snap={"K": "IT", "src_h": "src", "pos_h": "pos"},
                        ghost_end=["src = del_at(src, i)", "pos = shift_pos(pos, i)"],
                        end_hints={"i_is_its_own_position": "src_h[i] == i and i == indxs[len(indxs) - 1 - K] and 0 <= i and i < L - K",
                                   "before_i": "forall(p, 0, i, src[p] == src_h[p] and src_h[p] == p, trigger=src[p])",
                                   "after_i": "forall(p, i, L - K - 1, src[p] == src_h[p + 1] and src_h[p + 1] > i, trigger=src[p])",
                                   "new_values_are_old_values": "forall(p, 0, L - K - 1, src[p] != i and (src[p] == src_h[p] or src[p] == src_h[p + 1]), trigger=src[p])",
                                   "positions_before_i": "forall(col, 0, i, pos_h[col] == col and pos[col] == col, trigger=pos[col])",
                                   "positions_after_i": "forall(col, i + 1, L, implies(forall(t, len(indxs) - K, len(indxs), col != indxs[t]), pos_h[col] > i and pos[col] == pos_h[col] - 1 and src[pos[col]] == col), trigger=pos[col])"}),
                4: dict(inv={"ctx": "0 <= K and K < len(indxs) and i == indxs[len(indxs) - 1 - K] and 0 <= i and i < L - K and len(jds) == len(J1)", "done_rows": "forall(r, 0, IT, len(jds[r]) == L - K - 1 and forall(p, 0, L - K - 1, jds[r][p] == J1[r][del_at(src, i)[p]]), trigger=jds[r])", "todo_rows": "forall(r, IT, len(jds), len(jds[r]) == L - K and forall(p, 0, L - K, jds[r][p] == J1[r][src[p]]), trigger=jds[r])", "frame": "self._cover == old(self._cover) and self._motif_sizes == old(self._motif_sizes)"})})
    # ---- constructor: motif sizes = ascending distinct clique sizes
    SS = z3.Function("sorted_distinct", LInt.sort(), LInt.sort()); SIDX = z3.Function("sorted_distinct_idx", LInt.sort(), z3.IntSort(), z3.IntSort()); SSRC = z3.Function("sorted_distinct_src", LInt.sort(), z3.IntSort(), z3.IntSort())
    reg.axioms += [
        ("sorted(set(xs)).ascending", z3.ForAll([xs, q, q2], z3.Implies(z3.And(0 <= q, q < q2, q2 < LInt.len(SS(xs))), LInt.at(SS(xs), q) < LInt.at(SS(xs), q2)), patterns=[z3.MultiPattern(LInt.at(SS(xs), q), LInt.at(SS(xs), q2))]), "sorted(list(set(xs))) is strictly ascending"),
        ("sorted(set(xs)).members", z3.ForAll([xs, q], z3.Implies(z3.And(0 <= q, q < LInt.len(SS(xs))), z3.And(0 <= SSRC(xs, q), SSRC(xs, q) < LInt.len(xs), LInt.at(xs, SSRC(xs, q)) == LInt.at(SS(xs), q))), patterns=[LInt.at(SS(xs), q)]), "... contains only values of xs"),
        ("sorted(set(xs)).complete", z3.ForAll([xs, q], z3.Implies(z3.And(0 <= q, q < LInt.len(xs)), z3.And(0 <= SIDX(xs, q), SIDX(xs, q) < LInt.len(SS(xs)), LInt.at(SS(xs), SIDX(xs, q)) == LInt.at(xs, q))), patterns=[z3.MultiPattern(SS(xs), LInt.at(xs, q))]), "... and every value of xs"),
        ("sorted(set(xs)).len", z3.ForAll([xs], LInt.len(SS(xs)) >= 0, patterns=[SS(xs)]), "")]
    NS["sorted_distinct_idx"] = dict(smt=lambda ex, x, qq: Val(INT, SIDX(x.z, qq.z)), rt=None)
    def hook2(ex, node, st, pc):
        if is_call(node, "sorted", 1) and is_call(node.args[0], "list", 1) and is_call(node.args[0].args[0], "set", 1) and not node.keywords:
            x = ex.expr(node.args[0].args[0].args[0], st, pc)
            if x.t == LInt: ex.assumptions.add("sorted(list(set(xs))): the strictly ascending enumeration of the distinct values of xs"); return Val(LInt, SS(x.z))
        return None
    reg.call_hooks.append(hook2)
    PM = reg.types.get("Params_JointDegreeNames")
    from vf.idioms import params_record
    PC = params_record(reg, "JointDegreeNames", {"COVER": LL}, typename="Params_cover")
    R = m.fns["JointDegreeCover.create_jdd"]
    m.fn("JointDegreeCover.__init__", params={"params": PC, "src": IMAP, "orig": LL}, ghost=["src", "orig"],
         requires={"key": "params.has_COVER", **{k: v.replace("self._cover", "params.COVER") for k, v in R.requires.items()}},
         ensures={"cover_kept": "self._cover == params.COVER",
                  "motif_sizes_ascending": "forall(a, 0, len(self._motif_sizes), forall(b, a + 1, len(self._motif_sizes), self._motif_sizes[a] < self._motif_sizes[b]))",
                  "motif_sizes_occur": "forall(a, 0, len(self._motif_sizes), exists(q, 0, len(self._cover), len(self._cover[q]) == self._motif_sizes[a]))",
                  "every_occurring_size_reported": "forall(q, 0, len(self._cover), COMP0[q] == len(self._cover[q]) and 0 <= sorted_distinct_idx(COMP0, q) and sorted_distinct_idx(COMP0, q) < len(self._motif_sizes) and self._motif_sizes[sorted_distinct_idx(COMP0, q)] == len(self._cover[q]))"},
         raises={"KeyError": dict(when="False"), "ValueError": dict(when="False")})
    return ["JointDegreeCover.create_jdd", "JointDegreeCover.__init__"]
