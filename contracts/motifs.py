import ast, z3
from vf.spec import *
from vf.idioms import is_call
LInt = ListT(INT); P = PairT(INT, INT); LP = ListT(P)
ITER = RecT("Iter", {"seq": LInt, "pos": INT})
COMB = z3.Function("comb2", LInt.sort(), LP.sort())
def build(reg):
    reg.type("Int", INT)
    xs = z3.Const("xs_", LInt.sort()); i, j, p = z3.Ints("i_ j_ p_")
    CI = z3.Function("comb2_i", LInt.sort(), z3.IntSort(), z3.IntSort()); CJ = z3.Function("comb2_j", LInt.sort(), z3.IntSort(), z3.IntSort())
    CP = z3.Function("comb2_p", LInt.sort(), z3.IntSort(), z3.IntSort(), z3.IntSort())
    # skolemised form (witness functions instead of nested existentials) so that pure E-matching decides the clauses
    reg.axioms += [
      ("combinations2.each", z3.ForAll([xs, p], z3.Implies(z3.And(0 <= p, p < LP.len(COMB(xs))),
            z3.And(0 <= CI(xs, p), CI(xs, p) < CJ(xs, p), CJ(xs, p) < LInt.len(xs), LP.at(COMB(xs), p) == P.mk(LInt.at(xs, CI(xs, p)), LInt.at(xs, CJ(xs, p))))), patterns=[LP.at(COMB(xs), p)]),
       "itertools.combinations(xs, 2) yields (xs[i], xs[j]) with i < j"),
      ("combinations2.all", z3.ForAll([xs, i, j], z3.Implies(z3.And(0 <= i, i < j, j < LInt.len(xs)),
            z3.And(0 <= CP(xs, i, j), CP(xs, i, j) < LP.len(COMB(xs)), LP.at(COMB(xs), CP(xs, i, j)) == P.mk(LInt.at(xs, i), LInt.at(xs, j)))),
       patterns=[z3.MultiPattern(LInt.at(xs, i), LInt.at(xs, j), COMB(xs))]), "... for every such i < j"),
      ("combinations2.len", z3.ForAll([xs], LP.len(COMB(xs)) >= 0, patterns=[COMB(xs)]), "")]
    reg.native_specfuns["comb2"] = dict(smt=lambda ex, a: Val(LP, COMB(a.z)), rt=None)
    reg.native_specfuns["comb2_p"] = dict(smt=lambda ex, a, i_, j_: Val(INT, CP(a.z, i_.z, j_.z)), rt=None)     # witness: position of (xs[i], xs[j]) in combinations(xs, 2)
    def hook(ex, n, st, pc):
        if not isinstance(n, ast.Call): return None
        src = ast.unparse(n).replace(" ", "")
        if is_call(n, "list", 1) and is_call(n.args[0], "combinations", 2) and ast.unparse(n.args[0].args[1]) == "2":
            ex.assumptions.add("itertools.combinations(xs, 2): all index pairs i < j"); return Val(LP, COMB(ex.expr(n.args[0].args[0], st, pc).z))
        if is_call(n, "tee", 1):
            v = ex.expr(n.args[0], st, pc); it = Val(ITER, ITER.mk(v.z, z3.IntVal(0))); t = PairT(ITER, ITER)
            ex.assumptions.add("itertools.tee(xs) returns two independent iterators over xs"); return Val(t, t.mk(it.z, it.z))
        if is_call(n, "next", 2) and ast.unparse(n.args[1]) == "None":
            root, steps = ex.path_of(n.args[0], st, pc); it = ex.read_path(st, root, steps)
            pos, seq = ITER.getf(it.z, "pos"), ITER.getf(it.z, "seq")
            ex.write_path(st, root, steps, Val(ITER, ITER.mk(seq, z3.If(pos < LInt.len(seq), pos + 1, pos)))); return Val(NONE, z3.BoolVal(True))
        if is_call(n, "list", 1) and is_call(n.args[0], "zip", 2):
            a, b = [ex.expr(x, st, pc) for x in n.args[0].args]
            if a.t == ITER and b.t == ITER:
                sa, pa, sb, pb = ITER.getf(a.z, "seq"), ITER.getf(a.z, "pos"), ITER.getf(b.z, "seq"), ITER.getf(b.z, "pos")
                la, lb = LInt.len(sa) - pa, LInt.len(sb) - pb; out = fresh(LP, "zipped"); q = fresh_int("q")
                pc.append(LP.len(out.z) == z3.If(la < lb, z3.If(la > 0, la, 0), z3.If(lb > 0, lb, 0)))
                pc.append(z3.ForAll([q], z3.Implies(z3.And(0 <= q, q < LP.len(out.z)), LP.at(out.z, q) == P.mk(LInt.at(sa, pa + q), LInt.at(sb, pb + q)))))
                ex.assumptions.add("zip of two iterators pairs their remaining elements until the shorter is exhausted"); return out
        return None
    reg.call_hooks.append(hook)
    mc = reg.module("gcmpy/motif_generators/clique_motif.py")
    mc.fn("clique_motif", params={"vertices": LInt}, ret=LP,
          ensures={"only_pairs_i_lt_j": "forall(p, 0, len(result), exists(i, 0, len(vertices), exists(j, i + 1, len(vertices), result[p] == (vertices[i], vertices[j]))))",
                   "all_pairs": "forall(i, 0, len(vertices), forall(j, i + 1, len(vertices), 0 <= comb2_p(vertices, i, j) and comb2_p(vertices, i, j) < len(result) and result[comb2_p(vertices, i, j)] == (vertices[i], vertices[j])))"})
    my = reg.module("gcmpy/motif_generators/cycle_motif.py")
    my.fn("cycle_motif", params={"vertices": LInt}, ret=LP, requires={"nonempty": "len(vertices) >= 1"},
          ensures={"len": "len(result) == len(vertices)", "consecutive": "forall(p, 0, len(vertices) - 1, result[p] == (vertices[p], vertices[p + 1]))",
                   "closing": "result[len(vertices) - 1] == (vertices[0], vertices[len(vertices) - 1]) or result[len(vertices) - 1] == (vertices[len(vertices) - 1], vertices[0])",      # an undirected edge: either orientation
                   "input_unchanged": "vertices == old(vertices)"})
    md = reg.module("gcmpy/motif_generators/diamond_motif.py")
    md.fn("diamond_motif", params={"vertices": LInt}, ret=LP, requires={"four": "len(vertices) == 4"},
          ensures={"len": "len(result) == 6", "cycle": "forall(p, 0, 3, result[p] == (vertices[p], vertices[p + 1])) and (result[3] == (vertices[0], vertices[3]) or result[3] == (vertices[3], vertices[0]))",
                   "chords": "result[4] == (vertices[0], vertices[2]) and result[5] == (vertices[1], vertices[3])"})
    mg = reg.module("gcmpy/gcm_algorithm/gcm_algorithm.py")
    mg.cls("GCMAlgorithm", fields={"_motif_sizes": LInt})
    # motif ids only have to be pairwise distinct (C02: "distinct instances never share an id"): the generator is proved to yield a STRICTLY INCREASING sequence; its first
    # value and its step are not pinned.  (The generators' own proofs number the instances 0, 1, 2, ...: without loss of generality for any injective id sequence.)
    mg.fn("GCMAlgorithm.infinite_sequence", ret=LInt, loops={0: dict(inv={"strictly_increasing_ids": "forall(i, 0, len(YIELDED), YIELDED[i] < num) and forall(i, 0, len(YIELDED), forall(j, i + 1, len(YIELDED), YIELDED[i] < YIELDED[j]))"})})
    return ["clique_motif", "cycle_motif", "diamond_motif", "GCMAlgorithm.infinite_sequence"]
