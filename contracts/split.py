"""C07: contracts of the split-degree / delta loaders.  get_valid_joint_degrees (a recursive generator) is NOT verified: its contract is an
ASSUMED contract on a repository function (valid vectors of the right weight, each once, a function of its arguments); it is exercised by the
bounded stand-in against an independent enumerator.  Its callers are verified against that contract."""
import ast, z3
from vf.spec import *
from vf.sym import Unsupported, to_real
from vf.idioms import is_call
import contracts.jdd as jddc
JD = jddc.JD; JDD = jddc.JDD; LJD = ListT(JD); LR = ListT(REAL); LInt = ListT(INT); Fn = Elem("Callable"); Bound = PairT(INT, INT)
RPOW = z3.Function("rpow", z3.RealSort(), z3.RealSort(), z3.RealSort())
VT = z3.Function("valid_splits", z3.IntSort(), z3.IntSort(), LJD.sort())
APPK = z3.Function("apply_degree_function", Fn.sort(), z3.IntSort(), z3.RealSort())
LSUM = z3.Function("list_sum_real", LR.sort(), z3.RealSort())
def tup(z): return JD.make(JD.len(z), JD.arr(z), kind=z3.BoolVal(True))
def build(reg):
    jddc.build(reg)
    NS = reg.native_specfuns
    NS["rpow"] = dict(smt=lambda ex, a, b: Val(REAL, RPOW(to_real(a), to_real(b))), rt=None)
    NS["tuple_of"] = dict(smt=lambda ex, a: Val(JD, tup(a.z)), rt=tuple)
    NS["valid_splits"] = dict(smt=lambda ex, k, t: Val(LJD, VT(k.z, t.z)), rt=None)
    NS["fp_at"] = dict(smt=lambda ex, f, k: Val(REAL, APPK(f.z, k.z)), rt=None)
    NS["lsum"] = dict(smt=lambda ex, xs: Val(REAL, LSUM(xs.z)), rt=sum)
    def hook(ex, nd, st, pc):
        if isinstance(nd, ast.Call) and isinstance(nd.func, ast.Name) and nd.func.id == "pow" and len(nd.args) == 2:
            a, b = ex.expr(nd.args[0], st, pc), ex.expr(nd.args[1], st, pc); ex.assumptions.add("pow(x, y) is the uninterpreted real power rpow (A-REAL)"); return Val(REAL, RPOW(to_real(a), to_real(b)))
        if isinstance(nd, ast.Call) and ast.unparse(nd.func) == "self._fp" and len(nd.args) == 1:
            f = ex.expr(nd.func, st, pc); a = ex.expr(nd.args[0], st, pc)
            if isinstance(a.t, IntT): ex.assumptions.add("A-CALLBACK: the overall degree function fp is pure"); return Val(REAL, APPK(f.z, a.z))
        return None
    reg.call_hooks.append(hook)
    reg.specfun("wdeg", [("d", JD), ("n", INT)], INT, base="0", rec="wdeg(d, n - 1) + n * d[n - 1]")
    reg.specfun("wprod", [("probs", LR), ("d", JD), ("n", INT)], REAL, base="1.0", rec="wprod(probs, d, n - 1) * rpow(probs[n - 1], n * d[n - 1])")
    m = reg.module("gcmpy/joint_degree/joint_degree_loaders/joint_degree_split_degree.py")
    C = m.cls("JointDegreeSplitDegree", fields={"_jdd": JDD, "_motif_sizes": LInt, "_fp": Fn, "_probs": LR, "_low_high_degree_bound": Bound}, bases=["JointDegree"])
    # ---- ASSUMED contract of the recursive generator (not in the list of verified functions)
    m.fn("JointDegreeSplitDegree.get_valid_joint_degrees", params={"remaining_degree": INT, "topology": INT}, ret=LJD, pure=True,
         requires={"args": "topology >= 1 and remaining_degree >= 0"},
         ensures={"function_of_its_arguments": "result == valid_splits(remaining_degree, topology)",
                  "admissible": "forall(j, 0, len(result), len(result[j]) == topology and wdeg(result[j], topology) == remaining_degree and forall(t, 0, topology, result[j][t] >= 0))",
                  "each_once": "forall(a, 0, len(result), forall(b, a + 1, len(result), tuple_of(result[a]) != tuple_of(result[b])))",
                  "unchanged": "self == old(self)"})
    m.fn("JointDegreeSplitDegree.calc_prob_of_joint_degree", params={"jd": JD}, ret=REAL, pure=True, requires={"one_probability_per_topology": "len(jd) <= len(self._probs)"},
         ensures={"product_of_probabilities_raised_to_edges_spent": "result == wprod(self._probs, jd, len(jd))", "unchanged": "self == old(self)"},
         loops={0: dict(inv={"prod": "prod == wprod(self._probs, jd, IT)", "frame": "self == old(self)"})})
    KEY = "tuple_of(valid_tuples[{j}])"
    FR = "self._fp == old(self._fp) and self._probs == old(self._probs) and self._motif_sizes == old(self._motif_sizes) and self._low_high_degree_bound == old(self._low_high_degree_bound)"
    SPL = "valid_tuples == valid_splits(k, len(self._probs)) and forall(j, 0, len(valid_tuples), len(valid_tuples[j]) == len(self._probs) and wdeg(valid_tuples[j], len(self._probs)) == k) and forall(a, 0, len(valid_tuples), forall(b, a + 1, len(valid_tuples), tuple_of(valid_tuples[a]) != tuple_of(valid_tuples[b])))"
    m.fn("JointDegreeSplitDegree.resolve_degree", params={"k": INT, "prob_overall_k": REAL}, opaque_arith=True, locals={"probabilities": LR},
         requires={"args": "k >= 0 and len(self._probs) >= 1",
                   "no_joint_degree_of_degree_k_stored_yet": "forall_elem(key, JD, implies(key in self._jdd, wdeg(key, len(self._probs)) != k))"},
         ensures={"the_splits_of_k": SPL,
                  "weights": "len(w0) == len(valid_tuples) and forall(j, 0, len(valid_tuples), w0[j] == wprod(self._probs, valid_tuples[j], len(valid_tuples[j]))) and total == lsum(w0)",
                  "each_split_gets_its_share_of_the_mass_of_k": "forall(j, 0, len(valid_tuples), self._jdd.get(" + KEY.format(j="j") + ", 0.0) == prob_overall_k * (w0[j] / total), trigger=valid_tuples[j])",      # (a share that is exactly 0 may be stored as 0.0 or not at all)
                  "other_degrees_untouched": "forall_elem(key, JD, implies(forall(j, 0, len(valid_tuples), key != " + KEY.format(j="j") + ", trigger=valid_tuples[j]), ((key in self._jdd) == (key in old(self._jdd))) and self._jdd[key] == old(self._jdd)[key]))",
                  "exported.other_degrees_untouched": "forall_elem(key, JD, implies(forall(j, 0, len(valid_splits(k, len(self._probs))), key != tuple_of(valid_splits(k, len(self._probs))[j]), trigger=valid_splits(k, len(self._probs))[j]), ((key in self._jdd) == (key in old(self._jdd))) and self._jdd[key] == old(self._jdd)[key]))",
                  "frame": FR},
         raises={"ZeroDivisionError": dict(when="True", only=False)},
         loops={0: dict(inv={"len": "len(probabilities) == IT", "w": "forall(j, 0, IT, probabilities[j] == wprod(self._probs, valid_tuples[j], len(valid_tuples[j])))", "splits": SPL, "frame": "self == old(self)"}),
                1: dict(snap={"w0": "probabilities"}, inv={"len": "len(probabilities) == len(w0) and len(w0) == len(valid_tuples)", "done": "forall(j, 0, IT, probabilities[j] == w0[j] / total)", "todo": "forall(j, IT, len(w0), probabilities[j] == w0[j])",
                        "w0": "forall(j, 0, len(valid_tuples), w0[j] == wprod(self._probs, valid_tuples[j], len(valid_tuples[j]))) and total == lsum(w0)", "splits": SPL, "frame": "self == old(self)"}),
                2: dict(inv={"len": "len(probabilities) == len(w0) and len(w0) == len(valid_tuples)", "shares": "forall(j, 0, len(w0), probabilities[j] == w0[j] / total)", "splits": SPL, "frame": FR,
                             "w0": "forall(j, 0, len(valid_tuples), w0[j] == wprod(self._probs, valid_tuples[j], len(valid_tuples[j]))) and total == lsum(w0)",
                             "written": "forall(j, 0, IT, self._jdd.get(" + KEY.format(j="j") + ", 0.0) == prob_overall_k * (w0[j] / total), trigger=valid_tuples[j])",
                             "others": "forall_elem(key, JD, implies(forall(j, 0, IT, key != " + KEY.format(j="j") + ", trigger=valid_tuples[j]), ((key in self._jdd) == (key in old(self._jdd))) and self._jdd[key] == old(self._jdd)[key]))"})})
    # ---- exported clauses of resolve_degree needed by its callers
    R = m.fns["JointDegreeSplitDegree.resolve_degree"]
    VS = "valid_splits(k, len(self._probs))"
    R.ensures["exported.admissible"] = f"forall(j, 0, len({VS}), len({VS}[j]) == len(self._probs) and wdeg({VS}[j], len(self._probs)) == k, trigger={VS}[j])"
    reg.lemma("wdeg_ignores_kind", vars={"d": JD, "n": INT}, induct="n", stmt="wdeg(tuple_of(d), n) == wdeg(d, n)", trigger="wdeg(tuple_of(d), n)")
    NS["pure_first"] = dict(smt=lambda ex, k, n: Val(JD, JD.make(z3.If(n.z > 0, n.z, 0), z3.Store(z3.K(z3.IntSort(), z3.IntVal(0)), 0, k.z), kind=z3.BoolVal(True))), rt=lambda k, n: (k,) + (0,) * (n - 1))
    reg.lemma("pure_first_topology_degree", vars={"k": INT, "m": INT, "n": INT}, induct="n", stmt="implies(n >= 1, wdeg(pure_first(k, m), n) == k)")
    T_ = "len(self._probs)"
    KEYKJ = f"tuple_of(valid_splits(kk, {T_})[j])"
    BLOCKS = f"forall(kk, lo0, IT, forall(j, 0, len(valid_splits(kk, {T_})), self._jdd.get({KEYKJ}, 0.0) == blk[kk].get({KEYKJ}, 0.0), trigger=valid_splits(kk, {T_})[j]))"
    ADMB = f"forall(kk, lo0, IT, forall(j, 0, len(valid_splits(kk, {T_})), wdeg(valid_splits(kk, {T_})[j], {T_}) == kk, trigger=valid_splits(kk, {T_})[j]))"
    RANGE = f"forall_elem(key, JD, implies(key in self._jdd, lo0 <= wdeg(key, {T_}) and wdeg(key, {T_}) < IT))"
    m.fn("JointDegreeSplitDegree.create_jdd", params={"blk": ArrT(INT, JDD)}, ghost=["blk"], assigns=["_jdd"],
         requires={"args": "self._low_high_degree_bound[0] >= 0 and len(self._probs) >= 1"},
         ensures={"every_degree_of_the_range_keeps_its_block": BLOCKS.replace("IT", "hi0").replace("self._jdd.get(", "pre.get("),
                  "mass_only_on_degrees_of_the_range": RANGE.replace("< IT", "<= hi0"),      # "every k in the degree range": whether the upper bound itself belongs to the range is left open by the statement
                  "normalised": "keyset_eq(self._jdd, pre) and forall_elem(key, JD, implies(key in pre, self._jdd[key] == pre[key] / msum(pre))) and implies(exists_elem(key, JD, key in pre), msum(self._jdd) == 1)", "frame": FR},
         raises={"ZeroDivisionError": dict(when="True", only=False)},
         loops={0: dict(snap={"lo0": "self._low_high_degree_bound[0]", "hi0": "self._low_high_degree_bound[1]"},
                        inv={"blocks": BLOCKS, "splits_of_earlier_degrees_have_that_degree": ADMB, "range": RANGE, "frame": FR + " and lo0 == self._low_high_degree_bound[0] and hi0 == self._low_high_degree_bound[1] and lo0 >= 0"},
                        ghost_end=["blk[IT] = self._jdd"], exit_snap={"pre": "self._jdd"})})
    md = reg.module("gcmpy/joint_degree/joint_degree_loaders/joint_degree_delta.py")
    md.cls("JointDegreeDelta", fields={"_jdd": JDD, "_motif_sizes": LInt, "_fp": Fn, "_probs": LR, "_low_high_degree_bound": Bound, "_target_k": INT}, bases=["JointDegreeSplitDegree"])
    N_ = "len(self._motif_sizes)"
    PURE = f"forall(kk, lo0, IT, implies(kk != self._target_k, (pure_first(kk, {N_}) in self._jdd) and self._jdd[pure_first(kk, {N_})] == fp_at(self._fp, kk)))"
    SPLIT_AT_TARGET = (f"implies(lo0 <= self._target_k and self._target_k < IT, forall(j, 0, len(valid_splits(self._target_k, {T_})), "
                       f"self._jdd.get(tuple_of(valid_splits(self._target_k, {T_})[j]), 0.0) == blk[self._target_k].get(tuple_of(valid_splits(self._target_k, {T_})[j]), 0.0), trigger=valid_splits(self._target_k, {T_})[j]))")
    FRD = FR + " and self._target_k == old(self._target_k)"
    md.fn("JointDegreeDelta.create_jdd", params={"blk": ArrT(INT, JDD)}, ghost=["blk"], assigns=["_jdd"],
          requires={"args": "self._low_high_degree_bound[0] >= 0 and len(self._probs) >= 1 and len(self._motif_sizes) == len(self._probs)"},
          ensures={"other_degrees_are_pure_first_topology_degree": PURE.replace("IT", "hi0").replace("self._jdd[", "pre[").replace(" in self._jdd", " in pre"),
                   "target_degree_keeps_its_split": SPLIT_AT_TARGET.replace("IT", "hi0").replace("self._jdd.get(", "pre.get("),
                   "mass_only_on_degrees_of_the_range": RANGE.replace("< IT", "<= hi0"),      # "every k in the degree range": whether the upper bound itself belongs to the range is left open by the statement
                   "normalised": "keyset_eq(self._jdd, pre) and forall_elem(key, JD, implies(key in pre, self._jdd[key] == pre[key] / msum(pre))) and implies(exists_elem(key, JD, key in pre), msum(self._jdd) == 1)", "frame": FRD},
          raises={"ZeroDivisionError": dict(when="True", only=False)},
          loops={0: dict(snap={"lo0": "self._low_high_degree_bound[0]", "hi0": "self._low_high_degree_bound[1]"},
                         inv={"pure": PURE, "split": SPLIT_AT_TARGET, "splits_of_the_target_have_that_degree": f"implies(lo0 <= self._target_k and self._target_k < IT, forall(j, 0, len(valid_splits(self._target_k, {T_})), wdeg(valid_splits(self._target_k, {T_})[j], {T_}) == self._target_k, trigger=valid_splits(self._target_k, {T_})[j]))", "range": RANGE, "frame": FRD + " and lo0 == self._low_high_degree_bound[0] and hi0 == self._low_high_degree_bound[1] and lo0 >= 0"},
                         ghost_end=["blk[IT] = self._jdd"], exit_snap={"pre": "self._jdd"})})
    return ["JointDegreeSplitDegree.calc_prob_of_joint_degree", "JointDegreeSplitDegree.resolve_degree", "JointDegreeSplitDegree.create_jdd", "JointDegreeDelta.create_jdd"]
