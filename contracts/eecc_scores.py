"""C09: the scoring routine of the real EECC under contract (the cover itself stays with the bounded stand-in).  compute_scores, as it is called (fresh zero scores,
every candidate clique an ascending vertex list -- which is what limited_maximal_cliques returns): an edge (i, j) of clique c is SHARED when some other
candidate n != c contains both end points.  What the cover needs is proved: a candidate joins the cover at once only if it has at most two vertices or NONE of
its edges is shared (so the cliques added here are pairwise edge-disjoint and disjoint from every remaining candidate); the indices recorded are exactly those
of the cliques appended, position by position; ord[c] is the clique's size (the caller removes ord[c] vertices' edges); the candidate list is left as it was.
The numerical score values are a selection heuristic and are deliberately not pinned."""
import ast, z3
from vf.spec import *
from vf.sym import Unsupported
import contracts.eecc as E
LInt = ListT(INT); LL = ListT(LInt); LR = ListT(REAL); ARR = ArrT(INT, INT)
SORTED = z3.Function("py_sorted", LInt.sort(), LInt.sort())

def build(reg):
    E.build(reg)
    reg.type("LInt", LInt)
    reg.specfun("ascending", [("xs", LInt)], BOOL, define="forall(p, 0, len(xs), forall(q, p + 1, len(xs), xs[p] < xs[q]))")
    reg.specfun("member", [("xs", LInt), ("x", INT)], BOOL, define="exists(p, 0, len(xs), xs[p] == x)")
    # some candidate among the first n, other than c, contains both end points of edge (i, j) of candidate c
    reg.specfun("anyshared", [("C", LL), ("c", INT), ("i", INT), ("j", INT), ("n", INT)], BOOL, base="False",
                rec="anyshared(C, c, i, j, n - 1) or (n - 1 != c and member(C[n - 1], C[c][i]) and member(C[n - 1], C[c][j]))")
    reg.lemma("anyshared_monotone", vars={"C": LL, "c": INT, "i": INT, "j": INT, "m": INT, "n": INT}, induct="n", stmt="implies(0 <= m and m <= n and anyshared(C, c, i, j, m), anyshared(C, c, i, j, n))")
    xs = z3.Const("xs_", LInt.sort()); p, q = z3.Ints("p_ q_")
    reg.axioms.append(("sorted.of_an_ascending_list", z3.ForAll([xs], z3.Implies(z3.ForAll([p, q], z3.Implies(z3.And(0 <= p, p < q, q < LInt.len(xs)), LInt.at(xs, p) < LInt.at(xs, q))), SORTED(xs) == xs), patterns=[SORTED(xs)]),
                       "sorted(xs) of a strictly ascending list is the same list (assumed library contract; nothing is assumed about sorted() of other lists)"))
    reg.native_specfuns["sorted_list"] = dict(smt=lambda ex, a: Val(LInt, SORTED(a.z)), rt=sorted)
    def hook(ex, node, st, pc):
        if not isinstance(node, ast.Call): return None
        if isinstance(node.func, ast.Name) and node.func.id == "sorted" and len(node.args) == 1 and not node.keywords:
            a = ex.expr(node.args[0], st, pc)
            if a.t == LInt: ex.assumptions.add("sorted(xs) of a strictly ascending integer list is the same list"); return Val(LInt, SORTED(a.z))
        if isinstance(node.func, ast.Attribute) and node.func.attr == "issubset" and len(node.args) == 1 and isinstance(node.func.value, ast.Call) and ast.unparse(node.func.value.func) == "set" \
                and len(node.func.value.args) == 1 and isinstance(node.func.value.args[0], ast.List):
            big = ex.expr(node.args[0], st, pc)
            if big.t != LInt: return None
            els = [ex.expr(e, st, pc) for e in node.func.value.args[0].elts]; w = fresh_int("w")
            ex.assumptions.add("set([a, b, ...]).issubset(xs): every listed value occurs in xs")
            return Val(BOOL, z3.And(*[z3.Exists([w], z3.And(0 <= w, w < LInt.len(big.z), LInt.at(big.z, w) == e.z)) for e in els]))
        return None
    reg.call_hooks.insert(0, hook)
    m = reg.module("gcmpy/covers/eecc.py")
    m.cls("EECC", fields={"_G": E.GRAPH, "_m0": INT}, bases=["Network"])
    # binom as it is called here, with the positivity its caller needs (proved in this module as well)
    m.fn("binom", params={"n": INT, "r": INT}, ret=INT, requires={"as_called": "r == 2 and n >= 2"},
         ensures={"n_choose_2": "2 * result == old(n) * (old(n) - 1)", "at_least_one": "result >= 1"},
         loops={0: dict(snap={"n0": "n"}, inv={"r": "r == 2 and n0 >= 2 and n0 == old(n)", "trip": "1 <= IT and IT <= 3",
                                                "first": "implies(IT == 1, p == 1 and n == n0)", "second": "implies(IT == 2, p == n0 and n == n0 - 1)",
                                                "third": "implies(IT == 3, 2 * p == n0 * (n0 - 1) and n == n0 - 2 and p >= 1)"},
                        hints={"product_of_consecutive_integers_is_even": "(n0 * (n0 - 1)) % 2 == 0", "and_at_least_two": "n0 * (n0 - 1) >= 2"})})
    # What the cover property needs from the scores is only their ZERO set: a candidate that keeps score 0 is put into the cover at once, which is safe exactly
    # when none of its edges lies in another candidate.  The numerical values are a selection heuristic and are deliberately NOT pinned by this contract.
    CLEAR = lambda a, rows, extra="": (f"forall(i2, 0, {rows}, forall(j2, i2 + 1, len(C[{a}]), not anyshared(C, {a}, i2, j2, len(C))))" + extra)
    DONE = lambda n: (f"forall(a, 0, {n}, ord[a] == len(C[a]) and r[a] >= 0 and implies(r[a] == 0 and len(C[a]) > 2, {CLEAR('a', 'len(C[a])')}), trigger=C[a])")
    TODO = lambda n: f"forall(a, {n}, len(C), r[a] == 0.0)"
    COVER = lambda n: (f"len(EC) - len(old(EC)) == len(indexes) - len(old(indexes)) and len(indexes) >= len(old(indexes)) and "
                       f"forall(k, len(old(indexes)), len(indexes), 0 <= indexes[k] and indexes[k] < {n} and r[indexes[k]] == 0 and EC[len(old(EC)) + k - len(old(indexes))] == C[indexes[k]], trigger=indexes[k]) and "
                       f"forall(k, 0, len(old(indexes)), indexes[k] == old(indexes)[k]) and forall(k, 0, len(old(EC)), EC[k] == old(EC)[k])")
    FRAME = "C == old(C) and self == old(self) and len(ord) == len(C) and len(r) == len(C) and num_cliques == len(C)"
    CC = "0 <= c and c < len(C) and order == len(C[c]) and ord[c] == order"
    SAFE = (f"forall(k, len(old(indexes)), len(indexes), len(C[indexes[k]]) <= 2 or {CLEAR('indexes[k]', 'len(C[indexes[k]])')}, trigger=indexes[k])")
    m.fn("EECC.compute_scores", params={"C": LL, "EC": LL, "ord": LInt, "r": LR, "indexes": LInt},
         requires={"parallel_lists": "len(ord) == len(C) and len(r) == len(C)", "fresh_scores": "forall(a, 0, len(C), r[a] == 0.0)",
                   "candidates_are_ascending_vertex_lists": "forall(a, 0, len(C), forall(p, 0, len(C[a]), forall(q, p + 1, len(C[a]), C[a][p] < C[a][q])))"},
         ensures={"candidates_untouched": "C == old(C)", "recorded_order_is_the_clique_size": "forall(a, 0, len(C), ord[a] == len(C[a]))",
                  "cover_extended_by_the_candidates_whose_indices_are_recorded": COVER("len(C)"),
                  "only_candidates_that_share_no_edge_with_another_candidate_join_the_cover_at_once": SAFE, "self_untouched": "self == old(self)"},
         loops={0: dict(inv={"frame": FRAME, "done": DONE("IT"), "todo": TODO("IT"), "cover": COVER("IT")}, head_snap={"A": "IT"},
                        hints={"ascending": "forall(p, 0, len(C[c]), forall(q, p + 1, len(C[c]), C[c][p] < C[c][q]))", "sorting_an_ascending_candidate_changes_nothing": "sorted_list(C[c]) == C[c]"}),
                1: dict(inv={"frame": FRAME, "done": DONE("A"), "todo": TODO("A + 1"), "cover": COVER("A"), "ctx": CC + " and c == A and order > 2 and size >= 1",
                             "score": f"r[c] >= 0 and implies(r[c] == 0, {CLEAR('c', 'IT')})"}, head_snap={"I": "IT"}),
                2: dict(inv={"frame": FRAME, "done": DONE("A"), "todo": TODO("A + 1"), "cover": COVER("A"), "ctx": CC + " and c == A and order > 2 and size >= 1 and i == I and 0 <= i and i < order",
                             "score": f"r[c] >= 0 and implies(r[c] == 0, {CLEAR('c', 'i')} and forall(j3, i + 1, IT, not anyshared(C, c, i, j3, len(C))))"}, head_snap={"J": "IT"},
                        end_hints={"an_unflagged_edge_lies_in_no_other_candidate": "implies(f != 1, not anyshared(C, c, i, j, len(C)))", "increment_is_positive": "1.0 / size > 0"}),
                3: dict(inv={"frame": FRAME, "done": DONE("A"), "todo": TODO("A + 1"), "cover": COVER("A"),
                             "ctx": CC + " and c == A and order > 2 and size >= 1 and i == I and 0 <= i and i <= j and j < order and j == J",
                             "score": f"r[c] >= 0 and implies(r[c] == 0, {CLEAR('c', 'i')} and forall(j3, i + 1, j, not anyshared(C, c, i, j3, len(C))))",
                             "scan": "0 <= n and n <= num_cliques and f == 0 and not anyshared(C, c, i, j, n)"})})
    return ["binom", "EECC.compute_scores"]
