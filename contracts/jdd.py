import ast, z3
from vf.spec import *
from vf.idioms import is_call
JD = ListT(INT, tagged=True); JDD = DictT(JD, REAL)
MSUM = z3.Function("msum", JDD.sort(), z3.RealSort())
SCALED = z3.Function("scaled", JDD.sort(), JDD.sort(), z3.RealSort(), z3.BoolSort())
def build(reg):
    reg.type("JD", JD)
    d, d2 = z3.Consts("d_ d2_", JDD.sort()); k = z3.Const("k_", JD.sort()); c = z3.Real("c_"); v = z3.Real("v_")
    dom, val = JDD.dom, JDD.val
    reg.axioms += [
      ("M-SUM.update", z3.ForAll([d, k, v], MSUM(JDD.mk(z3.Store(dom(d), k, True), z3.Store(val(d), k, v))) == MSUM(d) - z3.If(z3.Select(dom(d), k), z3.Select(val(d), k), 0) + v,
                                 patterns=[MSUM(JDD.mk(z3.Store(dom(d), k, True), z3.Store(val(d), k, v)))]), "sum over a finite map after one update"),
      ("M-SUM.scale", z3.ForAll([d, d2, c], z3.Implies(SCALED(d2, d, c), MSUM(d2) == MSUM(d) / c), patterns=[SCALED(d2, d, c)]), "scaling every value scales the sum"),
      ("scaled.def", z3.ForAll([d, d2, c], SCALED(d2, d, c) == z3.And(c != 0, dom(d) == dom(d2), z3.ForAll([k], z3.Implies(z3.Select(dom(d), k), z3.Select(val(d2), k) == z3.Select(val(d), k) / c))),
                               patterns=[SCALED(d2, d, c)]), "definition of scaled(d2, d, c)"),
    ]
    reg.native_specfuns["scaled"] = dict(smt=lambda ex, a, b, cc: Val(BOOL, SCALED(a.z, b.z, cc.z)), rt=lambda a, b, cc: set(a) == set(b) and all(a[x] == b[x] / cc for x in b))
    reg.native_specfuns["msum"] = dict(smt=lambda ex, dd: Val(REAL, MSUM(dd.z)), rt=lambda dd: sum(dd.values()))
    def hook(ex, n, st, pc):
        if is_call(n, "sum", 1) and isinstance(n.args[0], ast.Call) and isinstance(n.args[0].func, ast.Attribute) and n.args[0].func.attr == "values":
            dd = ex.expr(n.args[0].func.value, st, pc)
            if isinstance(dd.t, DictT):
                ex.assumptions.add("sum(d.values()) is the finite-map sum msum(d) (M-SUM)"); return Val(REAL, MSUM(dd.z))
        return None
    reg.call_hooks.append(hook)
    m = reg.module("gcmpy/joint_degree/joint_degree.py")
    m.cls("JointDegree", fields={"_jdd": JDD, "_motif_sizes": ListT(INT)})
    m.fn("JointDegree.normalise_jdd", raises={"ZeroDivisionError": dict(when="msum(self._jdd) == 0")},
         exit_hints={"divided": "implies(len(KEYS) > 0, msum(old(self._jdd)) != 0)", "nonempty": "implies(exists_elem(k, JD, k in old(self._jdd)), len(KEYS) > 0)",
                     "scaled": "implies(len(KEYS) > 0, scaled(self._jdd, old(self._jdd), msum(old(self._jdd))))"},
         ensures={"keys_unchanged": "keyset_eq(self._jdd, old(self._jdd))",
                  "each_divided_by_old_total": "forall_elem(k, JD, implies(k in self._jdd, self._jdd[k] == old(self._jdd)[k] / msum(old(self._jdd))))",
                  "sums_to_one": "implies(exists_elem(k, JD, k in old(self._jdd)), msum(self._jdd) == 1)", "sizes_unchanged": "self._motif_sizes == old(self._motif_sizes)"},
         loops={0: dict(inv={"total": "summation == msum(DICT0) and DICT0 == old(self._jdd)", "divided_so_far": "implies(IT > 0, summation != 0)",
                             "done": "forall(j, 0, IT, self._jdd[KEYS[j]] == DICT0[KEYS[j]] / summation)",
                             "todo": "forall(j, IT, len(KEYS), self._jdd[KEYS[j]] == DICT0[KEYS[j]])",
                             "sizes": "self._motif_sizes == old(self._motif_sizes)"})})
    return ["JointDegree.normalise_jdd"]
