"""C17: the real MessagePassing.theoretical (initialisation, sweep frame, aggregation) and the real per-motif update calculate_H_tau under contract: the update
overwrites exactly the message (focal, motif id), with the motif equation evaluated on one product per non-focal member, that product running over the DISTINCT
motif ids among the member's neighbours outside the motif (ghost: the order in which the set of outside neighbours is visited).  resolve_equation (the evaluator
of C15) is used through an ASSUMED contract: a function of (phi, focal, label, products) that touches no message."""
import ast, z3
from vf.spec import *
from vf.sym import Unsupported
import contracts.mp as mpstatic
Gt = Elem("Graph"); Label = Elem("Label"); P = PairT(INT, INT); LP = ListT(P); LInt = ListT(INT); HT = DictT(P, REAL); AEt = Elem("Evaluator")
ES = z3.Function("edge_seq", Gt.sort(), LP.sort()); NODES = z3.Function("node_seq", Gt.sort(), LInt.sort()); NB = z3.Function("neighbors", Gt.sort(), z3.IntSort(), LInt.sort()); ORDER = z3.Function("order", Gt.sort(), z3.IntSort())
LAB = z3.Function("cover_label", Gt.sort(), z3.IntSort(), z3.IntSort(), Label.sort()); MID = z3.Function("motif_id_of", Label.sort(), z3.IntSort()); VERTS = z3.Function("vertices_of", Label.sort(), LInt.sort())
def build(reg):
    mpstatic.build(reg)
    reg.type("Int", INT); reg.type("Pair", P)
    NS = reg.native_specfuns
    for nm, f, rt in (("es", ES, LP), ("nodes", NODES, LInt), ("order", ORDER, INT)): NS[nm] = dict(smt=(lambda f, rt: lambda ex, g: Val(rt, f(g.z)))(f, rt), rt=None)
    NS["nbrs"] = dict(smt=lambda ex, g, i: Val(LInt, NB(g.z, i.z)), rt=None); NS["label"] = dict(smt=lambda ex, g, i, j: Val(Label, LAB(g.z, i.z, j.z)), rt=None)
    NS["mid"] = dict(smt=lambda ex, l: Val(INT, MID(l.z)), rt=None); NS["verts"] = dict(smt=lambda ex, l: Val(LInt, VERTS(l.z)), rt=None)
    g = z3.Const("g_", Gt.sort()); l = z3.Const("l_", Label.sort()); i = z3.Int("i_")
    reg.axioms += [("G.edges().len", z3.ForAll([g], LP.len(ES(g)) >= 0, patterns=[ES(g)]), ""), ("G.nodes().len", z3.ForAll([g], z3.And(LInt.len(NODES(g)) >= 0, ORDER(g) == LInt.len(NODES(g))), patterns=[NODES(g)]), "G.order() = len(G.nodes())"),
                   ("G.neighbors().len", z3.ForAll([g, i], LInt.len(NB(g, i)) >= 0, patterns=[NB(g, i)]), ""), ("label.vertices.len", z3.ForAll([l], LInt.len(VERTS(l)) >= 0, patterns=[VERTS(l)]), "")]
    def hook(ex, n, st, pc):
        if not isinstance(n, ast.Call) or not isinstance(n.func, ast.Attribute): return None
        src = ast.unparse(n.func)
        if src.startswith("self._MPM._G."):
            gz = ex.expr(ast.parse("self._MPM._G", mode="eval").body, st, pc).z; meth = n.func.attr; args = [ex.expr(a, st, pc) for a in n.args]
            if meth == "edges" and not args: ex.assumptions.add("G.edges(): a fixed enumeration of the edges of the (unmodified) graph"); return Val(LP, ES(gz))
            if meth == "nodes" and not args: ex.assumptions.add("G.nodes(): a fixed enumeration of the vertices"); return Val(LInt, NODES(gz))
            if meth == "neighbors" and len(args) == 1: ex.assumptions.add("G.neighbors(i): the neighbours of i"); return Val(LInt, NB(gz, args[0].z))
            if meth == "order" and not args: return Val(INT, ORDER(gz))
        if src == "self._MPM.get_edge_cover_label":
            gz = ex.expr(ast.parse("self._MPM._G", mode="eval").body, st, pc).z; a, b = [ex.expr(x, st, pc) for x in n.args]
            ex.assumptions.add("get_edge_cover_label(i, j) reads the 'CoverLabel' attribute of edge (i, j) (labelled network: the attribute exists)"); return Val(Label, LAB(gz, a.z, b.z))
        if src == "self._MPM.get_motif_ID": ex.assumptions.add("get_motif_ID(label): the integer after the last '-' (a function of the label)"); return Val(INT, MID(ex.expr(n.args[0], st, pc).z))
        if src == "self._MPM.get_vertices_in_motif": ex.assumptions.add("get_vertices_in_motif(label): the literal list between the first two '-' (a function of the label)"); return Val(LInt, VERTS(ex.expr(n.args[0], st, pc).z))
        return None
    reg.call_hooks.append(hook)
    def set_hook(ex, n, st, pc):
        if isinstance(n, ast.Call) and isinstance(n.func, ast.Name) and n.func.id == "set" and not n.args: return Val(SetT(INT), z3.K(z3.IntSort(), z3.BoolVal(False)))
        return None
    reg.call_hooks.append(set_hook)
    def set_add(ex, recv, args, st, root, steps, pc, n):
        ex.write_path(st, root, steps, Val(recv.t, z3.Store(recv.z, args[0].z, True))); return Val(NONE, z3.BoolVal(True))
    reg.methods[("SetT", "add")] = set_add
    MIDN = "mid(label(G, i, nbrs(G, i)[n - 1]))"
    reg.specfun("seen", [("G", Gt), ("i", INT), ("m", INT), ("n", INT)], BOOL, base="False", rec=f"seen(G, i, m, n - 1) or {MIDN} == m")
    reg.specfun("mprod", [("H", HT), ("G", Gt), ("i", INT), ("n", INT)], REAL, base="1.0", rec=f"mprod(H, G, i, n - 1) if seen(G, i, {MIDN}, n - 1) else mprod(H, G, i, n - 1) * H[(i, {MIDN})]")
    reg.specfun("osum", [("H", HT), ("G", Gt), ("n", INT)], REAL, base="0.0", rec="osum(H, G, n - 1) + mprod(H, G, nodes(G)[n - 1], len(nbrs(G, nodes(G)[n - 1])))")
    mm = reg.module("gcmpy/message_passing/message_passing_mixin.py")
    MPM = mm.cls("MessagePassingMixin", fields={"_G": Gt})
    m = reg.module("gcmpy/message_passing/message_passing.py")
    C = m.cls("MessagePassing", fields={"_MPM": MPM.ty, "_AE": AEt, "_H_tau": HT, "_iterations": INT, "_phi": REAL})
    FRAME = "self._MPM == old(self._MPM) and self._iterations == old(self._iterations)"
    # ---- the per-motif update, on the real source.  ASSUMED: resolve_equation (the evaluator of C15) returns a function of (phi, focal, label, prods) and touches no message
    PR = DictT(INT, REAL); ENT = ArrT(INT, LInt)
    RES = z3.Function("resolve_equation", z3.RealSort(), z3.IntSort(), Label.sort(), PR.sort(), z3.RealSort())
    NS["resolve"] = dict(smt=lambda ex, phi, f, l, pr: Val(REAL, RES(phi.z, f.z, l.z, pr.z)), rt=None)
    MIDL = "mid(label(G, j, L[n - 1]))"
    reg.specfun("seenL", [("G", Gt), ("j", INT), ("L", LInt), ("m", INT), ("n", INT)], BOOL, base="False", rec=f"seenL(G, j, L, m, n - 1) or {MIDL} == m")
    reg.specfun("mprodL", [("H", HT), ("G", Gt), ("j", INT), ("L", LInt), ("n", INT)], REAL, base="1.0",
                rec=f"mprodL(H, G, j, L, n - 1) if seenL(G, j, L, {MIDL}, n - 1) else mprodL(H, G, j, L, n - 1) * H[(j, {MIDL})]")
    m.fn("MessagePassing.resolve_equation", params={"focal": INT, "label": Label, "prods": PR}, ret=REAL,
         ensures={"value": "result == resolve(self._phi, focal, label, prods)", "frame": FRAME + " and self._phi == old(self._phi) and self._H_tau == old(self._H_tau)"})
    # en[j]: the (ghost) order in which the outside neighbours of member j were visited, ix[j][x]: the position of x in it; OUTSIDE(x, j): x is a neighbour of j and not a member of this motif
    G0 = "self._MPM._G"; V = "verts(label)"
    def OUTSIDE(x, j): return f"(exists(na, 0, len(nbrs({G0}, {j})), nbrs({G0}, {j})[na] == {x}) and not exists(vb, 0, len({V}), {V}[vb] == {x}))"
    def per_member(n, body, trig=None): return f"forall(q, 0, {n}, implies({V}[q] != focal, {body}), trigger={V}[q])"
    VALUE = lambda n: per_member(n, f"({V}[q] in prods) and prods[{V}[q]] == mprodL(old(self._H_tau), {G0}, {V}[q], en[{V}[q]], len(en[{V}[q]]))")
    E_IN = lambda n: per_member(n, f"forall(a, 0, len(en[{V}[q]]), {OUTSIDE(f'en[{V}[q]][a]', f'{V}[q]')}, trigger=en[{V}[q]][a])")
    E_DIST = lambda n: per_member(n, f"forall(a, 0, len(en[{V}[q]]), ix[{V}[q]][en[{V}[q]][a]] == a, trigger=en[{V}[q]][a])")
    E_ALL = lambda n: per_member(n, f"forall_elem(x, Int, implies({OUTSIDE('x', f'{V}[q]')}, 0 <= ix[{V}[q]][x] and ix[{V}[q]][x] < len(en[{V}[q]]) and en[{V}[q]][ix[{V}[q]][x]] == x))")
    KEYS_ = lambda n: f"forall_elem(x, Int, implies(x in prods, exists(q, 0, {n}, {V}[q] == x)))"      # (an entry for the focal vertex itself would be ignored by the evaluator: not demanded absent)
    UNCH = "self._H_tau == old(self._H_tau) and self._phi == old(self._phi) and " + FRAME
    MEMBERS = lambda n: {"value": VALUE(n), "visited_are_outside_neighbours": E_IN(n), "each_visited_once": E_DIST(n), "every_outside_neighbour_visited": E_ALL(n), "keys": KEYS_(n)}
    CTX = f"motif_ID == mid(label) and vertices_in_motif == {V}"
    m.fn("MessagePassing.calculate_H_tau", params={"focal": INT, "label": Label, "en": ENT, "ix": ArrT(INT, ArrT(INT, INT))}, ghost=["en", "ix"], opaque_arith=True,
         locals={"prods": PR, "done_motifs": SetT(INT), "js_neighbours": SetT(INT)},
         ensures={"overwrites_one_message": "forall_elem(k, Pair, implies(k != (focal, mid(label)), ((k in self._H_tau) == (k in old(self._H_tau))) and self._H_tau[k] == old(self._H_tau)[k])) and ((focal, mid(label)) in self._H_tau)",
                  "frame": FRAME + " and self._phi == old(self._phi)",
                  "message_is_the_motif_equation_on_the_member_products": "self._H_tau[(focal, mid(label))] == resolve(self._phi, focal, label, prods)",
                  **{"member_products." + k_: v_ for k_, v_ in MEMBERS(f"len({V})").items()}},
         raises={"KeyError": dict(when="True", only=False)},
         loops={0: dict(snap={"ELEMS": V, "ELEMIDX": "ix[0]"}, inv={**MEMBERS("IT"), "unchanged": UNCH, "ctx": CTX},
                        head_snap={"Q": "IT"},
                        end_hints={"in": f"implies(j != focal, forall(a, 0, len(ELEMS), {OUTSIDE('ELEMS[a]', 'j')}, trigger=ELEMS[a]))",
                                   "once": "implies(j != focal, forall(a, 0, len(ELEMS), ELEMIDX[ELEMS[a]] == a, trigger=ELEMS[a]))",
                                   "all": f"implies(j != focal, forall_elem(x, Int, implies({OUTSIDE('x', 'j')}, 0 <= ELEMIDX[x] and ELEMIDX[x] < len(ELEMS) and ELEMS[ELEMIDX[x]] == x)))"},
                        ghost_end=["en[j] = (ELEMS if j != focal else en[j])", "ix[j] = (ELEMIDX if j != focal else ix[j])"]),
                1: dict(inv={"prod": f"prod_j == mprodL(self._H_tau, {G0}, j, ELEMS, IT)", "done": f"forall_elem(x, Int, (x in done_motifs) == seenL({G0}, j, ELEMS, x, IT))",
                             **MEMBERS("Q"), "unchanged": UNCH, "ctx": CTX + f" and 0 <= Q and Q < len({V}) and j == {V}[Q]"})})
    G_ = "self._MPM._G"
    INITD = f"forall(e, 0, {{n}}, forall(q, 0, len(verts(label({G_}, es({G_})[e][0], es({G_})[e][1]))), (verts(label({G_}, es({G_})[e][0], es({G_})[e][1]))[q], mid(label({G_}, es({G_})[e][0], es({G_})[e][1]))) in self._H_tau, trigger=verts(label({G_}, es({G_})[e][0], es({G_})[e][1]))[q]), trigger=es({G_})[e])"
    WELL = (f"forall(e, 0, len(es({G_})), exists(q, 0, len(verts(label({G_}, es({G_})[e][0], es({G_})[e][1]))), verts(label({G_}, es({G_})[e][0], es({G_})[e][1]))[q] == es({G_})[e][0]) and "
            f"exists(q, 0, len(verts(label({G_}, es({G_})[e][0], es({G_})[e][1]))), verts(label({G_}, es({G_})[e][0], es({G_})[e][1]))[q] == es({G_})[e][1]))")
    NBOK = f"forall(a, 0, len(nodes({G_})), forall(b, 0, len(nbrs({G_}, nodes({G_})[a])), (nodes({G_})[a], mid(label({G_}, nodes({G_})[a], nbrs({G_}, nodes({G_})[a])[b]))) in self._H_tau))"
    m.fn("MessagePassing.theoretical", params={"phi": REAL}, ret=REAL, opaque_arith=True, locals={"done_motifs": SetT(INT)},
         requires={"nonempty": f"order({G_}) >= 1", "occupation_probability": "0 <= phi and phi <= 1"},
         ensures={"one_minus_vertex_average_of_the_product_over_distinct_motifs": (f"result == 1 - ((1.0 * osum(self._H_tau, {G_}, len(nodes({G_})))) / order({G_})) or "
                  f"(result == 0.0 and 1 - ((1.0 * osum(self._H_tau, {G_}, len(nodes({G_})))) / order({G_})) <= 0) or (result == 1.0 and 1 - ((1.0 * osum(self._H_tau, {G_}, len(nodes({G_})))) / order({G_})) >= 1)"), "frame": FRAME},      # (a value clamped into [0, 1], where the statement places it anyway, is accepted)
         raises={"KeyError": dict(when="True", only=False)},
         loops={0: dict(inv={"init": INITD.format(n="IT"), "uniform_start": "forall_elem(k, Pair, implies(k in self._H_tau, self._H_tau[k] == 0.5))", "frame": FRAME + " and self._phi == phi"}, head_snap={"E0": "IT"}),
                1: dict(inv={"init": INITD.format(n="E0"), "uniform_start": "forall_elem(k, Pair, implies(k in self._H_tau, self._H_tau[k] == 0.5))", "frame": FRAME + " and self._phi == phi",
                             "this": f"forall(q, 0, IT, (verts(label)[q], motif_ID) in self._H_tau, trigger=verts(label)[q])", "ctx": f"0 <= E0 and E0 < len(es({G_})) and label == label({G_}, es({G_})[E0][0], es({G_})[E0][1]) and motif_ID == mid(label) and i == es({G_})[E0][0] and j == es({G_})[E0][1]"}),
                2: dict(inv={"frame": FRAME}),
                3: dict(inv={"frame": FRAME}),
                4: dict(inv={"sum": f"outer_sum == osum(self._H_tau, {G_}, IT)", "frame": FRAME + " and self._H_tau == H_fin"}, snap={"H_fin": "self._H_tau"}, head_snap={"A": "IT"}),
                5: dict(inv={"prod": f"prod == mprod(self._H_tau, {G_}, i, IT)", "done": f"forall_elem(x, Int, (x in done_motifs) == seen({G_}, i, x, IT))",
                             "ctx": f"0 <= A and A < len(nodes({G_})) and i == nodes({G_})[A] and outer_sum == osum(self._H_tau, {G_}, A)", "frame": FRAME + " and self._H_tau == H_fin"})})
    return ["MessagePassing.calculate_H_tau", "MessagePassing.theoretical"]
