from vf.spec import *
def build(reg):
    Elem_ = reg.type("Elem", Elem("Elem"))
    m = reg.module("gcmpy/tools/draw_set.py")
    m.cls("DrawSet", fields={"_edge_hashmap": DictT(Elem_, INT), "_edges": ListT(Elem_)}, inv={
        "I1": "forall(i, 0, len(self._edges), self._edges[i] in self._edge_hashmap and self._edge_hashmap[self._edges[i]] == i)",
        "I2": "forall_elem(x, Elem, implies(x in self._edge_hashmap, 0 <= self._edge_hashmap[x] and self._edge_hashmap[x] < len(self._edges) and self._edges[self._edge_hashmap[x]] == x))"})
    INV = {"inv": "inv(self)"}
    SAME = {"frame.map": "forall_elem(x, Elem, (x in self._edge_hashmap) == (x in old(self._edge_hashmap)))",
            "frame.len": "len(self._edges) == len(old(self._edges))",
            "frame.seq": "forall(i, 0, len(self._edges), self._edges[i] == old(self._edges)[i])"}
    m.fn("DrawSet.__init__", ensures={**INV, "empty": "forall_elem(x, Elem, not (x in self._edge_hashmap))", "len0": "len(self._edges) == 0"})
    m.fn("DrawSet.__contains__", params={"e": Elem_}, ret=BOOL, pure=True, requires=INV, ensures={**INV, **SAME, "member": "result == (e in self._edge_hashmap)"})
    m.fn("DrawSet.__len__", ret=INT, pure=True, requires=INV, ensures={**INV, **SAME, "len": "result == len(self._edges)"})
    m.fn("DrawSet.__iter__", ret=ListT(Elem_), pure=True, requires=INV, ensures={**INV, **SAME,
        "iter.is_edges": "len(result) == len(self._edges) and forall(i, 0, len(result), result[i] == self._edges[i])",
        "iter.members": "forall(i, 0, len(result), result[i] in self._edge_hashmap)",
        "iter.once": "forall(i, 0, len(result), forall(j, 0, len(result), implies(i != j, result[i] != result[j])))",
        "iter.all": "forall_elem(x, Elem, implies(x in self._edge_hashmap, exists(i, 0, len(result), result[i] == x)))"})
    m.fn("DrawSet.add", params={"e": Elem_}, requires=INV, ensures={**INV,
        "view": "forall_elem(x, Elem, (x in self._edge_hashmap) == ((x in old(self._edge_hashmap)) or x == e))",
        "len": "len(self._edges) == len(old(self._edges)) + (0 if e in old(self._edge_hashmap) else 1)",
        "noop_if_present": "implies(e in old(self._edge_hashmap), forall(i, 0, len(self._edges), self._edges[i] == old(self._edges)[i]))"})
    m.fn("DrawSet.remove", params={"e": Elem_}, requires=INV, ensures={**INV,
        "was_present": "e in old(self._edge_hashmap)",
        "view": "forall_elem(x, Elem, (x in self._edge_hashmap) == ((x in old(self._edge_hashmap)) and x != e))",
        "len": "len(self._edges) == len(old(self._edges)) - 1"},
        raises={"KeyError": dict(when="not (e in self._edge_hashmap)", ensures={**INV, **SAME})})
    m.fn("DrawSet.draw", ret=Elem_, requires=INV, ensures={**INV, **SAME, "member": "result in self._edge_hashmap"},
        raises={"IndexError": dict(when="len(self._edges) == 0", ensures={**INV, **SAME})})
    return [q for q in m.fns]
