import ast, z3
from vf.spec import *
from vf.idioms import is_call
Gt = Elem("Graph"); P = PairT(INT, INT); LP = ListT(P)
ES = z3.Function("edge_seq", Gt.sort(), LP.sort())                           # G.edges(): fixed enumeration of an unmodified graph
ORDER = z3.Function("order", Gt.sort(), z3.IntSort())
KEEP = ArrT(INT, BOOL)
LCC = z3.Function("lcc_size", Gt.sort(), KEEP.sort(), z3.IntSort())         # size of the largest component of (V, {e_j : keep[j]})
def build(reg):
    reg.type("Int", INT)
    g = z3.Const("g_", Gt.sort()); k = z3.Const("k_", KEEP.sort()); j = z3.Int("j_")
    reg.axioms += [("lcc.range", z3.ForAll([g, k], z3.And(LCC(g, k) <= ORDER(g), z3.Implies(ORDER(g) >= 1, LCC(g, k) >= 1)), patterns=[LCC(g, k)]), "the largest component has between 1 and |V| vertices"),
                   ("lcc.none_kept", z3.ForAll([g, k], z3.Implies(z3.And(ORDER(g) >= 1, z3.ForAll([j], z3.Implies(z3.And(0 <= j, j < LP.len(ES(g))), z3.Not(z3.Select(k, j))))), LCC(g, k) == 1), patterns=[LCC(g, k)]),
                    "with no edge kept every component is a single vertex")]
    k2 = z3.Const("k2_", KEEP.sort())
    reg.axioms.append(("lcc.extensional", z3.ForAll([g, k, k2], z3.Implies(z3.ForAll([j], z3.Implies(z3.And(0 <= j, j < LP.len(ES(g))), z3.Select(k, j) == z3.Select(k2, j))), LCC(g, k) == LCC(g, k2)),
                        patterns=[z3.MultiPattern(LCC(g, k), LCC(g, k2))]), "the largest component depends only on which of the graph's edges are kept"))
    NS = reg.native_specfuns
    NS["nedges"] = dict(smt=lambda ex, gg: Val(INT, LP.len(ES(gg.z))), rt=lambda gg: gg.number_of_edges())
    NS["order"] = dict(smt=lambda ex, gg: Val(INT, ORDER(gg.z)), rt=lambda gg: gg.order())
    NS["lcc_size"] = dict(smt=lambda ex, gg, kk: Val(INT, LCC(gg.z, kk.z)), rt=None)
    def hook(ex, n, st, pc):
        if isinstance(n, ast.Call) and ast.unparse(n).replace(" ", "") == "g.copy()": return ex.expr(ast.Name(id="g", ctx=ast.Load()), st, pc)
        # [e for e in G.edges() if random.random() > phi]  (or >=): one draw per edge, in edge order; e is removed iff the test holds
        if isinstance(n, ast.ListComp) and len(n.generators) == 1 and len(n.generators[0].ifs) == 1 and ast.unparse(n.generators[0].iter).replace(" ", "") == "G.edges()":
            test = n.generators[0].ifs[0]
            if not (isinstance(test, ast.Compare) and ast.unparse(test.left) == "random.random()" and len(test.ops) == 1): return None
            G = ex.expr(ast.Name(id="G", ctx=ast.Load()), st, pc); phi = ex.expr(test.comparators[0], st, pc)
            draws = st.env["draws"].z; j = fresh_int("j"); removed = fresh(KEEP, "removed")
            r = z3.Select(draws, j); op = type(test.ops[0]).__name__
            cond = {"Gt": r > phi.z, "GtE": r >= phi.z, "Lt": r < phi.z, "LtE": r <= phi.z}[op]
            pc.append(z3.ForAll([j], z3.Implies(z3.And(0 <= j, j < LP.len(ES(G.z))), z3.Select(removed.z, j) == cond)))
            ex.assumptions.add("the comprehension draws one random.random() per edge, in G.edges() order (ghost draws[j], 0 <= draws[j] < 1)")
            st.env["__removed__"] = removed
            return Val(LP, ES(G.z), meta={"removed": removed})
        if isinstance(n, ast.Call) and isinstance(n.func, ast.Attribute) and n.func.attr == "remove_edges_from":
            es = ex.expr(n.args[0], st, pc); removed = st.env["__removed__"]; j = fresh_int("j"); keep = fresh(KEEP, "keep")
            pc.append(z3.ForAll([j], z3.Select(keep.z, j) == z3.Not(z3.Select(removed.z, j)))); st.env["__keep__"] = keep
            ex.assumptions.add("G.remove_edges_from(es) removes exactly the listed edges"); return Val(NONE, z3.BoolVal(True))
        if isinstance(n, ast.Call) and ast.unparse(n).replace(" ", "") == "sorted(nx.connected_components(G),key=len,reverse=True)":
            G = ex.expr(ast.Name(id="G", ctx=ast.Load()), st, pc)
            ex.assumptions.add("sorted(nx.connected_components(G), key=len, reverse=True)[0] is a largest component of the current graph")
            return Val(Elem("CompList"), z3.Const(f"comps!{uid()}", Elem("CompList").sort()), meta={"lcc": LCC(G.z, st.env["__keep__"].z)})
        if isinstance(n, ast.Call) and ast.unparse(n).replace(" ", "") == "float(len(Gcc[0]))":
            return Val(REAL, z3.ToReal(st.env["Gcc"].meta["lcc"]))
        if isinstance(n, ast.Call) and ast.unparse(n).replace(" ", "") == "G.order()":
            return Val(INT, ORDER(ex.expr(ast.Name(id="G", ctx=ast.Load()), st, pc).z))
        return None
    reg.call_hooks.append(hook)
    m = reg.module("gcmpy/tools/bond_percolate.py")
    KEPT = "forall(j, 0, nedges(g), keepspec[j] == (draws[j] < phi))"
    m.fn("bond_percolate", params={"g": Gt, "phi": REAL, "draws": ArrT(INT, REAL), "keepspec": KEEP}, ghost=["draws", "keepspec"], ret=REAL,
         requires={"nonempty": "order(g) >= 1", "phi": "0 <= phi and phi <= 1", "draws": "forall(j, 0, nedges(g), 0 <= draws[j] and draws[j] < 1)", "keepspec": KEPT},
         ensures={"input_untouched": "g == old(g)",
                  "fraction_of_largest_component_of_kept_edges": "result == lcc_size(g, keepspec) / order(g)",
                  "range": "result * order(g) >= 1 and result <= 1",
                  "phi_zero": "implies(phi == 0, result * order(g) == 1)"})
    return ["bond_percolate"]
