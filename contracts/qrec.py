"""C16: the real Q(n, k) (number of connected labelled graphs with n vertices and k edges) against the Harary-Palmer recurrence it cites, stated
independently of the code's short cuts:

    hp(n, k) = 0                                                                    for k < n - 1 or k > C(n, 2)
    hp(n, k) = n ** (n - 2)                                                         for k = n - 1                       (Cayley)
    hp(n, k) = C(C(n,2), k) - SUM_{m=0}^{n-2} C(n-1, m) * SUM_{p=0}^{k} C(C(n-1-m, 2), p) * hp(m+1, k-p)     otherwise

The code sums p only over max(0, k - C(m+1, 2)) .. k - m; that the omitted terms vanish (hp(m+1, k-p) = 0 there) is proved (two induction lemmas), as is the
real `binomial` against factorials.  The recursive calls are modular calls of the contract being proved (partial correctness); lru_cache of a pure function is
treated as the function.  That hp counts connected labelled graphs is textbook (M-HP) and is checked against brute force by the bounded stand-in only."""
import ast, z3
from vf.spec import *
from vf.sym import Unsupported
HP = z3.Function("hp", z3.IntSort(), z3.IntSort(), z3.IntSort())
FACT = z3.Function("factorial", z3.IntSort(), z3.IntSort())
IPOW = z3.Function("int_pow", z3.IntSort(), z3.IntSort(), z3.IntSort())
MUL = z3.Function("int_mul", z3.IntSort(), z3.IntSort(), z3.IntSort())
IDIV = z3.Function("int_floordiv", z3.IntSort(), z3.IntSort(), z3.IntSort())

def build(reg):
    NS = reg.native_specfuns
    NS["hp"] = dict(smt=lambda ex, n, k: Val(INT, HP(n.z, k.z)), rt=None)
    NS["fact"] = dict(smt=lambda ex, a: Val(INT, FACT(a.z)), rt=None)
    NS["ipow"] = dict(smt=lambda ex, a, b: Val(INT, IPOW(a.z, b.z)), rt=None)
    reg.specfun("choose", [("n", INT), ("k", INT)], INT, define="0 if n - k < 0 else (fact(n) // fact(k)) // fact(n - k)")
    reg.specfun("pairs", [("n", INT)], INT, define="n * (n - 1) // 2")
    # inner(n, k, m, P) = SUM_{p < P} C(pairs(n-1-m), p) * hp(m+1, k-p);  outer(n, k, M) = SUM_{m < M} C(n-1, m) * inner(n, k, m, k+1)
    reg.specfun("inner", [("n", INT), ("k", INT), ("m", INT), ("P", INT)], INT, base="0", rec="inner(n, k, m, P - 1) + choose(pairs(n - 1 - m), P - 1) * hp(m + 1, k - (P - 1))")
    reg.specfun("outer", [("n", INT), ("k", INT), ("M", INT)], INT, base="0", rec="outer(n, k, M - 1) + choose(n - 1, M - 1) * inner(n, k, M - 1, k + 1)")
    n, k, a = z3.Ints("n_ k_ a_")
    S = lambda x: IDIV(MUL(x, x - 1), 2); b, c = z3.Ints("b_ c_")
    reg.axioms += [
        ("factorial.positive", z3.ForAll([a], z3.Implies(a >= 0, FACT(a) >= 1), patterns=[FACT(a)]), "k! >= 1 (assumed library fact)"),
        ("int_floordiv.nested", z3.ForAll([a, b, c], z3.Implies(z3.And(b >= 1, c >= 1), IDIV(IDIV(a, b), c) == IDIV(a, MUL(b, c))), patterns=[IDIV(IDIV(a, b), c), IDIV(a, MUL(b, c))]),
         "(a // b) // c == a // (b * c) for positive b, c (assumed arithmetic identity; lets equivalent spellings of the factorial quotient verify)"),
        ("int_mul.positive", z3.ForAll([a, b], z3.Implies(z3.And(a >= 1, b >= 1), MUL(a, b) >= 1), patterns=[MUL(a, b)]), "a product of positive integers is positive"),
        ("int_mul.commutes", z3.ForAll([a, b], MUL(a, b) == MUL(b, a), patterns=[MUL(a, b)]), "x * y == y * x"),
        ("int_mul.zero", z3.ForAll([a], z3.And(MUL(a, 0) == 0, MUL(0, a) == 0), patterns=[MUL(a, 0), MUL(0, a)]), "x * 0 = 0 * x = 0 (the only arithmetic fact about the opaque product that is used)"),
        ("hp.outside_the_range", z3.ForAll([n, k], z3.Implies(z3.Or(k < n - 1, k > S(n)), HP(n, k) == 0), patterns=[HP(n, k)]), "definition (Harary-Palmer): no connected graph with fewer than n-1 or more than C(n,2) edges"),
        ("hp.trees", z3.ForAll([n, k], z3.Implies(z3.And(k == n - 1, k <= S(n)), HP(n, k) == IPOW(n, n - 2)), patterns=[HP(n, k)]), "definition: Cayley's formula")]
    def hook(ex, node, st, pc):
        if isinstance(node, ast.Call) and isinstance(node.func, ast.Name):
            if node.func.id == "factorial" and len(node.args) == 1:
                v = ex.expr(node.args[0], st, pc); ex.branch_exc(pc, v.z < 0, "ValueError", node); ex.assumptions.add("math.factorial(k) is k! (uninterpreted) for k >= 0, ValueError otherwise"); return Val(INT, FACT(v.z))
            if node.func.id == "int" and len(node.args) == 1 and isinstance(node.args[0], ast.Call) and isinstance(node.args[0].func, ast.Name) and node.args[0].func.id == "pow":
                b, e = [ex.expr(x, st, pc) for x in node.args[0].args]
                if isinstance(b.t, IntT) and isinstance(e.t, IntT): ex.assumptions.add("int(pow(n, e)) on integers is the integer power n ** e (uninterpreted; exact for the sizes float arithmetic represents)"); return Val(INT, IPOW(b.z, e.z))
        return None
    reg.call_hooks.insert(0, hook)
    m = reg.module("gcmpy/message_passing/number_connected_graphs.py")
    m.fn("binomial", params={"n": INT, "k": INT}, ret=INT, pure=True, opaque_arith="all",
         ensures={"factorial_quotient": "result == choose(n, k)"}, raises={"ValueError": dict(when="n - k >= 0 and (n < 0 or k < 0)")})
    m.fn("Q", params={"n": INT, "k": INT}, ret=INT, pure=True, opaque_arith="all",
         requires={"sizes": "n >= 1 and k >= 0"},
         ensures={"harary_palmer_recurrence": "result == hp(n, k)"},
         raises={"ValueError": dict(when="False")},
         loops={0: dict(inv={"res": "res == choose(s, k) - outer(n, k, IT)", "ctx": "s == pairs(n) and k > n - 1 and k <= s"}, head_snap={"M": "IT"}),
                1: dict(inv={"res1": "res1 == inner(n, k, m, IT)", "res": "res == choose(s, k) - outer(n, k, m)", "ctx": "s == pairs(n) and k > n - 1 and k <= s and m == M and 0 <= m and m < n - 1 and lb == max(0, k - pairs(m + 1))"})})
    # the recurrence's general case, and the two facts that justify the code's summation bounds
    reg.axioms.append(("hp.recurrence", z3.ForAll([n, k], z3.Implies(z3.And(n >= 1, k > n - 1, k <= S(n)), HP(n, k) == z3.Function("choose", z3.IntSort(), z3.IntSort(), z3.IntSort())(S(n), k) - z3.Function("outer", z3.IntSort(), z3.IntSort(), z3.IntSort(), z3.IntSort())(n, k, n - 1)), patterns=[HP(n, k)]),
                       "definition (Harary-Palmer): all graphs with k edges minus those whose component of vertex 1 has m+1 < n vertices"))
    reg.lemma("terms_below_the_lower_bound_vanish", vars={"n": INT, "k": INT, "m": INT, "P": INT}, induct="P", stmt="implies(m >= 0 and P <= k - pairs(m + 1), inner(n, k, m, P) == 0)", trigger="inner(n, k, m, P)")
    reg.lemma("terms_above_k_minus_m_vanish", vars={"n": INT, "k": INT, "m": INT, "P": INT}, induct="P", stmt="implies(m >= 0 and P >= k - m + 1 and k - m + 1 >= 0, inner(n, k, m, P) == inner(n, k, m, k - m + 1))", trigger="inner(n, k, m, P)")
    return ["binomial", "Q"]
