"""Assumed contracts of the networkx calls used by the conversion code, over an abstract graph state."""
import ast, z3
from vf.spec import *
from vf.sym import Unsupported
JD = ListT(INT, tagged=True); JDS = ListT(JD)
Name = Elem("Name"); P = PairT(INT, INT); LP = ListT(P)
GRAPH = RecT("Graph", {"nodes": SetT(INT), "adj": SetT(P), "jd_has": SetT(INT), "jd": ArrT(INT, JD),
                       "top_has": SetT(P), "top": ArrT(P, Name), "mid_has": SetT(P), "mid": ArrT(P, INT)})
def install(reg):
    reg.type("Name", Name)
    mk = P.mk
    def sym_wf(g):      # representation invariant of the abstract graph: adjacency and edge attributes are symmetric
        u, v = fresh_int("u"), fresh_int("v"); G = GRAPH
        return [z3.ForAll([u, v], z3.And(z3.Select(G.getf(g, "adj"), mk(u, v)) == z3.Select(G.getf(g, "adj"), mk(v, u)),
                                         z3.Select(G.getf(g, "top_has"), mk(u, v)) == z3.Select(G.getf(g, "top_has"), mk(v, u)),
                                         z3.Select(G.getf(g, "top"), mk(u, v)) == z3.Select(G.getf(g, "top"), mk(v, u)),
                                         z3.Select(G.getf(g, "mid_has"), mk(u, v)) == z3.Select(G.getf(g, "mid_has"), mk(v, u)),
                                         z3.Select(G.getf(g, "mid"), mk(u, v)) == z3.Select(G.getf(g, "mid"), mk(v, u))))]
    def add_edges_from(ex, recv, args, st, root, steps, pc, n):
        es = args[0]; g = recv.z; G = GRAPH; new = fresh(G, "G"); i = fresh_int("i"); x, u, v = fresh_int("x"), fresh_int("u"), fresh_int("v")
        ln = es.t.len(es.z); e_i = es.t.at(es.z, i)
        pc.append(z3.ForAll([x], z3.Select(G.getf(new.z, "nodes"), x) == z3.Or(z3.Select(G.getf(g, "nodes"), x),
                  z3.Exists([i], z3.And(0 <= i, i < ln, z3.Or(P.fst(e_i) == x, P.snd(e_i) == x))))))
        pc.append(z3.ForAll([u, v], z3.Select(G.getf(new.z, "adj"), mk(u, v)) == z3.Or(z3.Select(G.getf(g, "adj"), mk(u, v)),
                  z3.Exists([i], z3.And(0 <= i, i < ln, z3.Or(e_i == mk(u, v), e_i == mk(v, u)))))))
        for f in ("jd_has", "jd", "top_has", "top", "mid_has", "mid"): pc.append(G.getf(new.z, f) == G.getf(g, f))
        ex.write_path(st, root, steps, new)
        ex.assumptions.add("nx.Graph.add_edges_from(es): adds both end points and the undirected edge of every pair; existing attributes kept")
        return Val(NONE, z3.BoolVal(True))
    reg.methods[("Graph", "add_edges_from")] = add_edges_from
    def add_nodes_from(ex, recv, args, st, root, steps, pc, n):
        ns = args[0]; g = recv.z; G = GRAPH; new = fresh(G, "G"); i, x = fresh_int("i"), fresh_int("x")
        if ns.meta and "range" in ns.meta:
            lo, hi = ns.meta["range"]       # closed form for add_nodes_from(range(lo, hi))
            pc.append(z3.ForAll([x], z3.Select(G.getf(new.z, "nodes"), x) == z3.Or(z3.Select(G.getf(g, "nodes"), x), z3.And(lo <= x, x < hi))))
        else:
            pc.append(z3.ForAll([x], z3.Select(G.getf(new.z, "nodes"), x) == z3.Or(z3.Select(G.getf(g, "nodes"), x),
                  z3.Exists([i], z3.And(0 <= i, i < ns.t.len(ns.z), ns.t.at(ns.z, i) == x)))))
        for f in G.fs:
            if f != "nodes": pc.append(G.getf(new.z, f) == G.getf(g, f))
        ex.write_path(st, root, steps, new); ex.assumptions.add("nx.Graph.add_nodes_from(ns): adds every element of ns as a node, nothing else changes")
        return Val(NONE, z3.BoolVal(True))
    reg.methods[("Graph", "add_nodes_from")] = add_nodes_from
    attr_fields = {"NetworkNames.JOINT_DEGREE": ("jd_has", "jd"), "NetworkNames.TOPOLOGY": ("top_has", "top"), "NetworkNames.MOTIF_IDS": ("mid_has", "mid")}
    def hook(ex, node, st, pc):
        if not (isinstance(node, ast.Call) and isinstance(node.func, ast.Attribute) and isinstance(node.func.value, ast.Name) and node.func.value.id == "nx"): return None
        G = GRAPH
        if node.func.attr == "Graph" and not node.args:
            e = fresh(G, "G0"); F = z3.BoolVal(False)
            for f in ("nodes", "jd_has"): pc.append(G.getf(e.z, f) == z3.K(z3.IntSort(), F))
            for f in ("adj", "top_has", "mid_has"): pc.append(G.getf(e.z, f) == z3.K(P.sort(), F))
            pc.extend(sym_wf(e.z))
            ex.assumptions.add("nx.Graph() is the empty graph (abstract state: symmetric adjacency and edge-attribute maps)"); return e
        if node.func.attr in ("set_node_attributes", "set_edge_attributes"):
            root, steps = ex.path_of(node.args[0], st, pc); g = ex.read_path(st, root, steps).z
            d = ex.expr(node.args[1], st, pc); has_f, val_f = attr_fields[ast.unparse(node.args[2])]
            new = fresh(G, "G")
            for f in G.fs:
                if f not in (has_f, val_f): pc.append(G.getf(new.z, f) == G.getf(g, f))
            dom, val = d.t.dom(d.z), d.t.val(d.z)
            if node.func.attr == "set_node_attributes":
                x = fresh_int("x"); hit = z3.And(z3.Select(dom, x), z3.Select(G.getf(g, "nodes"), x))
                pc.append(z3.ForAll([x], z3.And(z3.Select(G.getf(new.z, has_f), x) == z3.Or(z3.Select(G.getf(g, has_f), x), hit),
                                                z3.Select(G.getf(new.z, val_f), x) == z3.If(hit, z3.Select(val, x), z3.Select(G.getf(g, val_f), x)))))
                ex.assumptions.add("nx.set_node_attributes(G, d, name): sets the attribute on the nodes of G that are keys of d; other keys ignored")
            else:
                u, v = fresh_int("u"), fresh_int("v"); a, b = P.mk(u, v), P.mk(v, u)
                hit = z3.And(z3.Select(G.getf(g, "adj"), a), z3.Or(z3.Select(dom, a), z3.Select(dom, b)))
                nv = z3.Select(G.getf(new.z, val_f), a)
                pc.append(z3.ForAll([u, v], z3.And(z3.Select(G.getf(new.z, has_f), a) == z3.Or(z3.Select(G.getf(g, has_f), a), hit),
                          z3.Implies(z3.Not(hit), nv == z3.Select(G.getf(g, val_f), a)),
                          z3.Implies(hit, z3.Or(z3.And(z3.Select(dom, a), nv == z3.Select(val, a)), z3.And(z3.Select(dom, b), nv == z3.Select(val, b)))),
                          nv == z3.Select(G.getf(new.z, val_f), b))))
                ex.assumptions.add("nx.set_edge_attributes(G, d, name): sets the attribute on existing edges whose (u,v) or (v,u) is a key of d (either value if both are keys)")
            ex.write_path(st, root, steps, new); return Val(NONE, z3.BoolVal(True))
        return None
    reg.call_hooks.append(hook)
    for k in attr_fields: reg.consts[k] = Val(NONE, z3.BoolVal(True))
    # ---- read side: G.edges(), G.nodes[n][ATTR], G.edges[e][ATTR], len(G.nodes())
    ES = z3.Function("nx_edge_seq", GRAPH.sort(), LP.sort()); EIDX = z3.Function("nx_edge_idx", GRAPH.sort(), z3.IntSort(), z3.IntSort(), z3.IntSort())
    g = z3.Const("g_", GRAPH.sort()); q, q2, u, v = z3.Ints("q_ q2_ u_ v_"); G = GRAPH
    swap = lambda e: mk(P.snd(e), P.fst(e))
    reg.axioms += [
        ("G.edges().members", z3.ForAll([g, q], z3.Implies(z3.And(0 <= q, q < LP.len(ES(g))), z3.Select(G.getf(g, "adj"), LP.at(ES(g), q))), patterns=[LP.at(ES(g), q)]), "every element of G.edges() is an edge of G"),
        ("G.edges().all", z3.ForAll([g, u, v], z3.Implies(z3.Select(G.getf(g, "adj"), mk(u, v)), z3.And(0 <= EIDX(g, u, v), EIDX(g, u, v) < LP.len(ES(g)),
              z3.Or(LP.at(ES(g), EIDX(g, u, v)) == mk(u, v), LP.at(ES(g), EIDX(g, u, v)) == mk(v, u)))), patterns=[z3.Select(G.getf(g, "adj"), mk(u, v))]), "every edge of G is reported by G.edges() (in one orientation)"),
        ("G.edges().once", z3.ForAll([g, q, q2], z3.Implies(z3.And(0 <= q, q < q2, q2 < LP.len(ES(g))), z3.And(LP.at(ES(g), q) != LP.at(ES(g), q2), LP.at(ES(g), q) != swap(LP.at(ES(g), q2)))),
              patterns=[z3.MultiPattern(LP.at(ES(g), q), LP.at(ES(g), q2))]), "G.edges() reports each undirected edge once"),
        ("G.edges().len", z3.ForAll([g], LP.len(ES(g)) >= 0, patterns=[ES(g)]), "")]
    reg.native_specfuns["edge_seq"] = dict(smt=lambda ex, gg: Val(LP, ES(gg.z)), rt=lambda gg: list(gg.edges()))
    reg.native_specfuns["edge_idx"] = dict(smt=lambda ex, gg, a, b: Val(INT, EIDX(gg.z, a.z, b.z)), rt=None)
    def graph_of(ex, node, st, pc):
        try: v = ex.expr(node, st, list(pc))
        except Exception: return None
        return v if isinstance(v, Val) and v.t == GRAPH else None
    def read_hook(ex, node, st, pc):
        # list(X.edges()) / X.edges()
        if isinstance(node, ast.Call) and isinstance(node.func, ast.Name) and node.func.id == "list" and len(node.args) == 1: inner = node.args[0]
        else: inner = node
        if isinstance(inner, ast.Call) and isinstance(inner.func, ast.Attribute) and inner.func.attr == "edges" and not inner.args and not inner.keywords:
            gv = graph_of(ex, inner.func.value, st, pc)
            if gv is not None:
                ex.assumptions.add("nx.Graph.edges(): a duplicate-free enumeration of the undirected edges, the same for an unmodified graph"); return Val(LP, ES(gv.z))
        # len(X.nodes())
        if isinstance(node, ast.Call) and isinstance(node.func, ast.Name) and node.func.id == "len" and len(node.args) == 1:
            a = node.args[0]
            if isinstance(a, ast.Call) and isinstance(a.func, ast.Attribute) and a.func.attr == "nodes" and not a.args:
                gv = graph_of(ex, a.func.value, st, pc)
                if gv is not None:
                    if "ORDER" not in st.env: raise Unsupported("len(G.nodes()) needs the ghost ORDER (node set = 0..ORDER-1)")
                    N = st.env["ORDER"].z; x = fresh_int("x")
                    ex.oblige(f"requires@call.len(G.nodes()).nodes_are_0..ORDER-1@{node.lineno}", "requires@call", pc, z3.And(N >= 0, z3.ForAll([x], z3.Select(G.getf(gv.z, "nodes"), x) == z3.And(0 <= x, x < N))), node)
                    ex.assumptions.add("len(G.nodes()) == n when the node set is exactly {0..n-1} (cardinality)"); return Val(INT, N)
        # X.nodes[n][ATTR] / X.edges[e][ATTR]
        if isinstance(node, ast.Subscript) and isinstance(node.value, ast.Subscript) and isinstance(node.value.value, ast.Attribute) and node.value.value.attr in ("nodes", "edges") \
                and ast.unparse(node.slice) in attr_fields:
            gv = graph_of(ex, node.value.value.value, st, pc)
            if gv is None: return None
            has_f, val_f = attr_fields[ast.unparse(node.slice)]; key = ex.expr(node.value.slice, st, pc)
            want_nodes = has_f == "jd_has"
            if (node.value.value.attr == "nodes") != want_nodes: raise Unsupported("node attribute read through edges or vice versa")
            present = z3.And(z3.Select(G.getf(gv.z, "nodes" if want_nodes else "adj"), key.z), z3.Select(G.getf(gv.z, has_f), key.z))
            ex.branch_exc(pc, z3.Not(present), "KeyError", node)
            ex.assumptions.add("G.nodes[n][name] / G.edges[e][name] return the stored attribute and raise KeyError when the node/edge or the attribute is absent")
            return Val(GRAPH.fs[val_f].v, z3.Select(G.getf(gv.z, val_f), key.z))
        return None
    reg.call_hooks.append(read_hook)
