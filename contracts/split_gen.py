"""C07: the real recursive generator JointDegreeSplitDegree.get_valid_joint_degrees under contract (contracts/split.py uses it through the contract proved here).
valid_splits(r, t) is DEFINED by the recursion equations below (the enumeration "for i = 0..r//t: every split of r - i*t over t-1 topologies, extended by i");
the generator is proved to yield exactly that list, element by element, and -- by induction along its own recursion (modular recursive call) -- every yielded
vector has length t, non-negative entries and weighted degree r, and no vector is yielded twice.  Termination is not claimed."""
import ast, z3
from vf.spec import *
from vf.sym import Unsupported, py_floordiv
import contracts.split as S
JD, LJD = S.JD, S.LJD
OFF = z3.Function("splits_offset", z3.IntSort(), z3.IntSort(), z3.IntSort(), z3.IntSort())
def single(r): return JD.make(z3.IntVal(1), z3.Store(z3.K(z3.IntSort(), z3.IntVal(0)), 0, r), kind=z3.BoolVal(False))
def snoc(row, i): return JD.make(JD.len(row) + 1, z3.Store(JD.arr(row), JD.len(row), i), kind=z3.BoolVal(False))

def build(reg):
    S.build(reg)
    VT = S.VT; r, t, i, p, r2, t2 = z3.Ints("r_ t_ i_ p_ r2_ t2_")
    # block i (last entry i) starts after the blocks 0..i-1; block i has one vector per split of r - i*t over t-1 topologies
    reg.specfun("splits_offset", [("r", INT), ("t", INT), ("n", INT)], INT, base="0", rec="splits_offset(r, t, n - 1) + len(valid_splits(r - (n - 1) * t, t - 1))")
    reg.native_specfuns["snoc"] = dict(smt=lambda ex, d, x: Val(JD, snoc(d.z, x.z)), rt=lambda d, x: list(d) + [x])
    reg.lemma("wdeg_of_an_extended_vector_over_the_old_entries", vars={"d": JD, "x": INT, "n": INT}, induct="n", stmt="implies(n <= len(d), wdeg(snoc(d, x), n) == wdeg(d, n))", trigger="wdeg(snoc(d, x), n)")
    reg.specfun("fits", [("i", INT), ("t", INT), ("r", INT)], BOOL, define="i * t <= r")
    reg.lemma("at_most_r_floordiv_t_blocks_fit", vars={"i": INT, "t": INT, "r": INT}, stmt="implies(t >= 1 and r >= 0 and 0 <= i and i <= r // t, fits(i, t, r))", trigger="fits(i, t, r)")
    reg.axioms += [
        ("valid_splits.one_topology", z3.ForAll([r], z3.And(LJD.len(VT(r, 1)) == 1, LJD.at(VT(r, 1), 0) == single(r)), patterns=[VT(r, 1)]), "definition: one topology takes all the remaining degree"),
        ("valid_splits.length", z3.ForAll([r, t], z3.Implies(t >= 2, LJD.len(VT(r, t)) == OFF(r, t, py_floordiv(r, t) + 1)), patterns=[VT(r, t)]), "definition: blocks i = 0 .. r // t, one after the other"),
        ("valid_splits.block", z3.ForAll([r, t, i, p, r2, t2], z3.Implies(z3.And(t >= 2, t2 == t - 1, r2 == r - i * t, 0 <= i, i <= py_floordiv(r, t), 0 <= p, p < LJD.len(VT(r2, t2))),
                                                                        LJD.at(VT(r, t), OFF(r, t, i) + p) == snoc(LJD.at(VT(r2, t2), p), i)), patterns=[z3.MultiPattern(LJD.at(VT(r2, t2), p), OFF(r, t, i))]),
         "definition: the p-th vector of block i is the p-th split of r - i*t over t-1 topologies, extended by i"),
        ("valid_splits.len_nonneg", z3.ForAll([r, t], LJD.len(VT(r, t)) >= 0, patterns=[VT(r, t)]), "")]
    def hook(ex, node, st, pc):
        if ex.qual != "JointDegreeSplitDegree.get_valid_joint_degrees": return None
        if isinstance(node, ast.List) and len(node.elts) == 1 and ex.mode != "spec":
            v = ex.expr(node.elts[0], st, pc)
            if isinstance(v.t, IntT): return Val(JD, single(v.z))                       # [x]: a one-element list (zeros outside its index range: A-WF)
        if isinstance(node, ast.BinOp) and isinstance(node.op, ast.Add) and isinstance(node.right, ast.List) and len(node.right.elts) == 1:
            a = ex.expr(node.left, st, pc)
            if a.t == JD: return Val(JD, snoc(a.z, ex.expr(node.right.elts[0], st, pc).z))   # row + [i]
        return None
    reg.call_hooks.insert(0, hook)
    m = reg.module("gcmpy/joint_degree/joint_degree_loaders/joint_degree_split_degree.py")
    R, T = "remaining_degree", "topology"
    ADM = lambda xs, n, r_, t_: f"forall(x, 0, {n}, len({xs}[x]) == {t_} and wdeg({xs}[x], {t_}) == {r_} and forall(c, 0, {t_}, {xs}[x][c] >= 0), trigger={xs}[x])"
    SAME = lambda xs, n, r_, t_: f"forall(x, 0, {n}, {xs}[x] == valid_splits({r_}, {t_})[x], trigger={xs}[x])"
    ONCE = lambda xs, n: f"forall(a, 0, {n}, forall(b, a + 1, {n}, {xs}[a] != {xs}[b]))"
    m.fn("JointDegreeSplitDegree.get_valid_joint_degrees", params={R: INT, T: INT}, ret=LJD,
         requires={"args": f"{T} >= 1 and {R} >= 0"},
         ensures={"yields_the_enumeration_defined_by_the_recursion": f"len(result) == len(valid_splits({R}, {T})) and " + SAME("result", "len(result)", R, T),
                  "admissible": ADM("result", "len(result)", R, T), "each_once": ONCE("result", "len(result)"), "unchanged": "self == old(self)"},
         loops={0: dict(inv={"len": f"len(YIELDED) == splits_offset({R}, {T}, IT)", "same": SAME("YIELDED", "len(YIELDED)", R, T), "adm": ADM("YIELDED", "len(YIELDED)", R, T),
                             "last": f"forall(x, 0, len(YIELDED), YIELDED[x][{T} - 1] < IT, trigger=YIELDED[x])", "once": ONCE("YIELDED", "len(YIELDED)"), "ctx": f"{T} >= 2 and self == old(self)"},
                        hints={"room": f"fits(i, {T}, {R})"}, head_snap={"I": "IT"}),
                1: dict(inv={"len": f"len(YIELDED) == splits_offset({R}, {T}, i) + IT", "same": SAME("YIELDED", "len(YIELDED)", R, T), "adm": ADM("YIELDED", "len(YIELDED)", R, T),
                             "last": f"forall(x, 0, len(YIELDED), YIELDED[x][{T} - 1] <= i, trigger=YIELDED[x])", "mine": f"forall(x, splits_offset({R}, {T}, i), len(YIELDED), YIELDED[x][{T} - 1] == i and forall(c, 0, {T} - 1, YIELDED[x][c] == SEQ[x - splits_offset({R}, {T}, i)][c]), trigger=YIELDED[x])",
                             "once": ONCE("YIELDED", "len(YIELDED)"),
                             "rec": f"len(SEQ) == len(valid_splits({R} - i * {T}, {T} - 1)) and " + SAME("SEQ", "len(SEQ)", f"{R} - i * {T}", f"{T} - 1") + " and " + ADM("SEQ", "len(SEQ)", f"{R} - i * {T}", f"{T} - 1") + " and " + ONCE("SEQ", "len(SEQ)"),
                             "ctx": f"{T} >= 2 and self == old(self) and i == I and 0 <= i and i <= {R} // {T} and i * {T} <= {R}"})})
    return ["JointDegreeSplitDegree.get_valid_joint_degrees"]
