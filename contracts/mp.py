"""C17 (history clause): structural obligations over the real MessagePassing.theoretical -- the message table is rebuilt from the graph alone
at the start of every query, and the evaluator it calls holds only structural caches (contracts/autoeq.py)."""
import ast
from vf.spec import *
import contracts.autoeq as autoeq
REL = "gcmpy/message_passing/message_passing.py"
def build(reg):
    autoeq.build(reg)
    def rebuilt(reg_):
        d = reg_.find_def(REL, "MessagePassing.theoretical")
        for s in d.body:
            if isinstance(s, (ast.For, ast.While)): return False, "a loop precedes the reset of self._H_tau"
            tgt = s.targets[0] if isinstance(s, ast.Assign) else (s.target if isinstance(s, ast.AnnAssign) else None)
            if tgt is not None and ast.unparse(tgt) == "self._H_tau" and isinstance(s.value, ast.Dict) and not s.value.keys: return True, "self._H_tau = {} precedes every loop of theoretical"
        return False, "theoretical does not start from an empty message table"
    def seeded(reg_):
        d = reg_.find_def(REL, "MessagePassing.theoretical")
        first = next((s for s in d.body if isinstance(s, ast.For)), None)
        if first is None: return False, "no initialisation loop"
        ok = any(isinstance(n, ast.Assign) and ast.unparse(n.targets[0]).startswith("self._H_tau[") and isinstance(n.value, ast.Constant) and n.value.value == 0.5 for n in ast.walk(first))
        return ok, "every (vertex, motif) message is seeded with the constant 0.5 by plain assignment" if ok else "the initialisation loop does not assign the constant 0.5"
    reg.static_checks += [("MessagePassing.theoretical:static.message_table_rebuilt_per_query", rebuilt), ("MessagePassing.theoretical:static.uniform_start", seeded)]
    return []
