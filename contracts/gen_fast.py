import ast, z3
from vf.spec import *
from vf.idioms import is_call
from contracts.joint_degree import JD, JDS
Edge, Name, Fn = Elem("Edge"), Elem("Name"), Elem("Fn")
LInt, LEdge, LName, LFn = ListT(INT), ListT(Edge), ListT(Name), ListT(Fn)
LLInt = ListT(LInt); ARR = ArrT(INT, INT)
IntArr = z3.ArraySort(z3.IntSort(), z3.IntSort())
SLICE = z3.Function("slice", IntArr, z3.IntSort(), IntArr)
BUILD = z3.Function("build", Fn.sort(), LInt.sort(), LEdge.sort())
PERM = z3.Function("perm", LInt.sort(), LInt.sort(), z3.BoolSort())
COUNT = z3.Function("count", LInt.sort(), z3.IntSort(), z3.IntSort(), z3.IntSort())
PIDX = z3.Function("perm_idx", LInt.sort(), LInt.sort(), z3.IntSort(), z3.IntSort())

def build(reg):
    import contracts.joint_degree as J
    if "colsum" not in reg.specfuns: reg.specfun("colsum", [("jds", JDS), ("c", INT), ("n", INT)], INT, base="0", rec="colsum(jds, c, n - 1) + jds[n - 1][c]")
    reg.type("Edge", Edge); reg.type("Name", Name)
    reg.specfun("count", [("xs", LInt), ("v", INT), ("n", INT)], INT, base="0", rec="count(xs, v, n - 1) + (1 if xs[n - 1] == v else 0)")
    a, p, t = z3.Const("a_", IntArr), z3.Int("p_"), z3.Int("t_"); x, y = z3.Consts("x_ y_", LInt.sort()); f = z3.Const("f_", Fn.sort())
    reg.axioms += [("slice.def", z3.ForAll([a, p, t], z3.Select(SLICE(a, p), t) == z3.Select(a, p + t), patterns=[z3.Select(SLICE(a, p), t)]), "definition of the slice view"),
                   ("perm.len", z3.ForAll([x, y], z3.Implies(PERM(x, y), LInt.len(x) == LInt.len(y)), patterns=[PERM(x, y)]), "a permutation has the same length"),
                   ("perm.reflexive", z3.ForAll([x], PERM(x, x), patterns=[PERM(x, x)]), "the identity is a permutation"),
                   ("perm.index_map", z3.ForAll([x, y, p], z3.Implies(z3.And(PERM(x, y), 0 <= p, p < LInt.len(x)), z3.And(0 <= PIDX(x, y, p), PIDX(x, y, p) < LInt.len(y), LInt.at(x, p) == LInt.at(y, PIDX(x, y, p)))),
                                     patterns=[z3.MultiPattern(PERM(x, y), LInt.at(x, p))]), "a permutation re-reads the original through an index map"),
                   ("perm.index_map_injective", z3.ForAll([x, y, p, t], z3.Implies(z3.And(PERM(x, y), 0 <= p, p < t, t < LInt.len(x)), PIDX(x, y, p) != PIDX(x, y, t)),
                                     patterns=[z3.MultiPattern(PIDX(x, y, p), PIDX(x, y, t))]), "... which is injective (hence a bijection of the index range)"),
                   ("perm.multiplicities", z3.ForAll([x, y, t], z3.Implies(PERM(x, y), COUNT(x, t, LInt.len(x)) == COUNT(y, t, LInt.len(y))), patterns=[z3.MultiPattern(PERM(x, y), COUNT(x, t, LInt.len(x)))]),
                                     "M-COUNT: a permutation preserves the number of occurrences of every value (assumed consequence of bijectivity)"),
                   ("build.len", z3.ForAll([f, x], LEdge.len(BUILD(f, x)) >= 0, patterns=[BUILD(f, x)]), "a callback returns a sequence")]
    def blk(ex, fns, sizes, stubs, rec_k, rec_pos, m):
        k = z3.Select(rec_k.z, m.z); pos = z3.Select(rec_pos.z, m.z); kl = LLInt.at(stubs.z, k)
        return Val(LEdge, BUILD(LFn.at(fns.z, k), LInt.make(LInt.at(sizes.z, k), SLICE(LInt.arr(kl), pos))))
    reg.native_specfuns["blk"] = dict(smt=blk, rt=None)
    reg.native_specfuns["perm"] = dict(smt=lambda ex, a, b: Val(BOOL, PERM(a.z, b.z)), rt=lambda a, b: sorted(a) == sorted(b))
    # ---------------- idioms of this module
    def hook(ex, n, st, pc):
        if isinstance(n, ast.ListComp):
            src = ast.unparse(n).replace(" ", "")
            if src == "[list(chain.from_iterable(starmap(repeat,r)))forrinmap(enumerate,zip(*jds))]":
                jds = ex.expr(ast.Name(id="jds", ctx=ast.Load()), st, pc); T = st.env["T"].z
                out = fresh(LLInt, "stubs"); k = fresh_int("k")
                cs = ex.apply_specfun(reg.specfuns["colsum"], [jds, Val(INT, k), Val(INT, JDS.len(jds.z))]).z
                pc.append(LLInt.len(out.z) == T); pc.extend(wf(out))
                pc.append(z3.ForAll([k], z3.Implies(z3.And(0 <= k, k < T), LInt.len(LLInt.at(out.z, k)) == cs)))
                v, pp = fresh_int("v"), fresh_int("p"); N = JDS.len(jds.z); col = lambda kk: LLInt.at(out.z, kk)
                cnt = ex.apply_specfun(reg.specfuns["count"], [Val(LInt, col(k)), Val(INT, v), Val(INT, LInt.len(col(k)))]).z
                pc.append(z3.ForAll([k, v], z3.Implies(z3.And(0 <= k, k < T, 0 <= v, v < N), cnt == JD.at(JDS.at(jds.z, v), k))))
                pc.append(z3.ForAll([k, pp], z3.Implies(z3.And(0 <= k, k < T, 0 <= pp, pp < LInt.len(col(k))), z3.And(0 <= LInt.at(col(k), pp), LInt.at(col(k), pp) < N)), patterns=[LInt.at(col(k), pp)]))
                ex.assumptions.add("flatten-repeat idiom: stubs[k] = [v]*jds[v][k] for v in 0..N-1: len(stubs[k]) = colsum(k), vertex v occurs exactly jds[v][k] times, every entry is an enumerate index in 0..N-1")
                return out
            return None
        if not isinstance(n, ast.Call): return None
        src = ast.unparse(n).replace(" ", "")
        if src == "self.infinite_sequence()": return Val(INT, z3.IntVal(0))
        if src == "next(gen)":
            cur = st.env["gen"]; st.env["gen"] = Val(INT, cur.z + 1); return cur
        if src.startswith("random.shuffle("):
            root, steps = ex.path_of(n.args[0], st, pc); old = ex.read_path(st, root, steps)
            new = fresh(old.t, "shuf"); pc.append(PERM(new.z, old.z)); pc.extend(wf(new)); ex.write_path(st, root, steps, new)
            ex.rng_log.append(("shuffle", new.z)); ex.assumptions.add("random.shuffle(xs) replaces xs by an arbitrary permutation of itself (new[p] = old[pi(p)] for a bijection pi of the index range; multiplicities preserved: M-COUNT)")
            return Val(NONE, z3.BoolVal(True))
        if isinstance(n.func, ast.Subscript) and ast.unparse(n.func.value) == "self._build_functions":
            fn = ex.expr(n.func, st, pc); arg = ex.expr(n.args[0], st, pc)
            ex.assumptions.add("A-CALLBACK: build callbacks are pure functions of their argument"); return Val(LEdge, BUILD(fn.z, arg.z))
        return None
    reg.call_hooks.append(hook)
    def loop_grouper(ex, s, st, pc, k, lspec):
        it = s.iter
        if not is_call(it, "grouper", 2): return None
        seq = ex.expr(it.args[0], st, pc); size = ex.expr(it.args[1], st, pc).z; ln, arr = seq.t.len(seq.z), seq.t.arr(seq.z)
        ex.assumptions.add("iteration_utilities.grouper(xs, n) yields xs[0:n], xs[n:2n], ... (last one shorter if len % n != 0)")
        ex.oblige(f"loop{k}.grouper.size_positive", "requires@call", pc, size >= 1, s)
        def bind(state, g): state.env[s.target.id] = Val(seq.t, seq.t.make(z3.If(g["POS"] + size <= ln, size, ln - g["POS"]), SLICE(arr, g["POS"])))
        return ex.loop_generic(s, st, pc, k, lspec, {"IT": z3.IntVal(0), "POS": z3.IntVal(0)}, lambda g: g["POS"] < ln, bind,
                               lambda g: {"IT": g["IT"] + 1, "POS": g["POS"] + size}, lambda g: [g["IT"] >= 0, g["POS"] >= 0])
    reg.loop_hooks.append(loop_grouper)
    # ---------------- classes and contracts
    me = reg.module("gcmpy/network/edge_list.py")
    me.cls("LightWeightEdgeList", fields={"_edge_list": LEdge, "_topologies": LName, "_joint_degrees": JDS, "_motif_id": LInt},
           properties={"edge_list": "_edge_list", "topologies": "_topologies", "joint_degrees": "_joint_degrees", "motif_id": "_motif_id"})
    me.fn("LightWeightEdgeList.__init__", ensures={"empty": "len(self._edge_list) == 0 and len(self._topologies) == 0 and len(self._joint_degrees) == 0 and len(self._motif_id) == 0"})
    m = reg.module("gcmpy/gcm_algorithm/gcm_algorithm_fast.py")
    m.cls("GCMAlgorithmFast", fields={"_motif_sizes": LInt, "_edge_names": LName, "_build_functions": LFn})
    E = "EdgeList"; BLK = "blk(self._build_functions, self._motif_sizes, stubs, rec_k, rec_pos, {m})"; MID = f"{E}._motif_id[p]"
    COLS = {"par1": f"len({E}._edge_list) == len({E}._topologies)", "par2": f"len({E}._edge_list) == len({E}._motif_id)", "gen": "gen >= 0",
        "jds": f"(len({E}._joint_degrees) == len(jds) and forall(vj, 0, len(jds), {E}._joint_degrees[vj] == jds[vj], trigger={E}._joint_degrees[vj]))",      # entry by entry: a re-built list of the same rows is "carried through unchanged" too
        "ids": f"forall(p, 0, len({E}._motif_id), 0 <= {MID} and {MID} < gen)",
        "blk_lo": f"forall(p, 0, len({E}._edge_list), rec_start[{MID}] <= p)",
        "blk_hi": f"forall(p, 0, len({E}._edge_list), p < rec_start[{MID}] + len({BLK.format(m=MID)}))",
        "edge": f"forall(p, 0, len({E}._edge_list), {E}._edge_list[p] == {BLK.format(m=MID)}[p - rec_start[{MID}]])",
        "name": f"forall(p, 0, len({E}._edge_list), {E}._topologies[p] == self._edge_names[rec_k[{MID}]])",
        "chain0": "implies(gen > 0, rec_start[0] == 0)",
        "chain": f"forall(m, 0, gen - 1, rec_start[m + 1] == rec_start[m] + len({BLK.format(m='m')}))",
        "chainN": f"(rec_start[gen - 1] + len({BLK.format(m='gen - 1')}) == len({E}._edge_list)) if gen > 0 else (len({E}._edge_list) == 0)",
        "stubs": "len(stubs) == T", "lens": "forall(c, 0, T, len(stubs[c]) == colsum(jds, c, len(jds)))"}
    OUT = {"t_start": "forall(m, 0, gen, implies(m == 0 or rec_k[m - 1] != rec_k[m], rec_pos[m] == 0))", "t_step": "forall(m, 0, gen - 1, implies(rec_k[m + 1] == rec_k[m], rec_pos[m + 1] == rec_pos[m] + self._motif_sizes[rec_k[m]]))", "t_order": "forall(m, 0, gen - 1, rec_k[m] <= rec_k[m + 1])", "t_range": "forall(m, 0, gen, 0 <= rec_k[m] and rec_k[m] < T and rec_pos[m] >= 0)", "t_end": "forall(m, 0, gen, implies((m == gen - 1 or rec_k[m + 1] != rec_k[m]), rec_pos[m] + self._motif_sizes[rec_k[m]] == len(stubs[rec_k[m]])))", "t_all": "forall(c, 0, IT, implies(len(stubs[c]) > 0, 0 <= rec_last[c] and rec_last[c] < gen and rec_k[rec_last[c]] == c))"}
    INN = {"t_start": "forall(m, 0, gen, implies(m == 0 or rec_k[m - 1] != rec_k[m], rec_pos[m] == 0))", "t_step": "forall(m, 0, gen - 1, implies(rec_k[m + 1] == rec_k[m], rec_pos[m + 1] == rec_pos[m] + self._motif_sizes[rec_k[m]]))", "t_order": "forall(m, 0, gen - 1, rec_k[m] <= rec_k[m + 1])", "t_range": "forall(m, 0, gen, 0 <= rec_k[m] and rec_k[m] < T and rec_pos[m] >= 0)", "t_end_prev": "forall(m, 0, gen, implies(rec_k[m] < k and (m == gen - 1 or rec_k[m + 1] != rec_k[m]), rec_pos[m] + self._motif_sizes[rec_k[m]] == len(stubs[rec_k[m]])))", "t_cur": "(forall(m, 0, gen, rec_k[m] < k)) if POS == 0 else (gen > 0 and rec_k[gen - 1] == k and rec_pos[gen - 1] + self._motif_sizes[k] == POS)", "t_all": "forall(c, 0, k, implies(len(stubs[c]) > 0, 0 <= rec_last[c] and rec_last[c] < gen and rec_k[rec_last[c]] == c))"}
    ENS = {"t_start": "forall(m, 0, gen, implies(m == 0 or rec_k[m - 1] != rec_k[m], rec_pos[m] == 0))", "t_step": "forall(m, 0, gen - 1, implies(rec_k[m + 1] == rec_k[m], rec_pos[m + 1] == rec_pos[m] + self._motif_sizes[rec_k[m]]))", "t_order": "forall(m, 0, gen - 1, rec_k[m] <= rec_k[m + 1])", "t_range": "forall(m, 0, gen, 0 <= rec_k[m] and rec_k[m] < T and rec_pos[m] >= 0)", "t_end": "forall(m, 0, gen, implies((m == gen - 1 or rec_k[m + 1] != rec_k[m]), rec_pos[m] + self._motif_sizes[rec_k[m]] == len(stubs[rec_k[m]])))", "t_all": "forall(c, 0, T, implies(len(stubs[c]) > 0, 0 <= rec_last[c] and rec_last[c] < gen and rec_k[rec_last[c]] == c))"}
    m.fn("GCMAlgorithmFast.random_clustered_graph", params={"jds": JDS, "T": INT, "rec_k": ARR, "rec_pos": ARR, "rec_start": ARR, "rec_last": ARR},
      ghost=["T", "rec_k", "rec_pos", "rec_start", "rec_last"], ret=me.classes["LightWeightEdgeList"].ty,
      requires={"N": "len(jds) >= 1", "T": "T >= 0 and len(self._motif_sizes) == T and len(self._edge_names) == T and len(self._build_functions) == T",
                "rows": "forall(v, 0, len(jds), len(jds[v]) == T and forall(c, 0, T, jds[v][c] >= 0))",
                "sizes": "forall(c, 0, T, self._motif_sizes[c] >= 1)",
                "handshake": "forall(c, 0, T, colsum(jds, c, len(jds)) % self._motif_sizes[c] == 0)"},
      ensures={"columns_parallel": "len(result._edge_list) == len(result._topologies) and len(result._edge_list) == len(result._motif_id)",
               "jds_carried": "len(result._joint_degrees) == len(old(jds)) and forall(vj, 0, len(old(jds)), result._joint_degrees[vj] == old(jds)[vj], trigger=result._joint_degrees[vj])",
               **{"tiling." + k_[2:]: v_ for k_, v_ in ENS.items()},
               "slots_per_vertex": "forall(c, 0, T, forall(v, 0, len(jds), count(stubs[c], v, len(stubs[c])) == jds[v][c]))",
               "vertices_in_range": "forall(c, 0, T, forall(p, 0, len(stubs[c]), 0 <= stubs[c][p] and stubs[c][p] < len(jds)))",
               "stub_lists_are_the_column_sums": "len(stubs) == T and forall(c, 0, T, len(stubs[c]) == colsum(jds, c, len(jds)))",
               "jds_unmodified": "jds == old(jds)"},
      loops={0: dict(snap={"stubs0": "stubs"}, inv={"len": "len(stubs) == T", "lens0": "forall(c, 0, T, len(stubs0[c]) == colsum(jds, c, len(jds)))",
                     "done": "forall(c, 0, IT, perm(stubs[c], stubs0[c]))", "todo": "forall(c, IT, T, stubs[c] == stubs0[c])",
                     "canon_counts": "forall(c, 0, T, forall(v, 0, len(jds), count(stubs0[c], v, len(stubs0[c])) == jds[v][c]))",
                     "canon_range": "forall(c, 0, T, forall(p, 0, len(stubs0[c]), 0 <= stubs0[c][p] and stubs0[c][p] < len(jds)))", "jds": "jds == old(jds)"}),
             1: dict(inv={**COLS, **OUT, "reck": "forall(m, 0, gen, 0 <= rec_k[m] and rec_k[m] < IT)", "jdsin": "jds == old(jds)",
                          "slots": "forall(c, 0, T, forall(v, 0, len(jds), count(stubs[c], v, len(stubs[c])) == jds[v][c]))",
                          "vrange": "forall(c, 0, T, forall(p, 0, len(stubs[c]), 0 <= stubs[c][p] and stubs[c][p] < len(jds)))"}),
             2: dict(inv={**COLS, **INN, "reck": "forall(m, 0, gen, 0 <= rec_k[m] and rec_k[m] <= k)", "jdsin": "jds == old(jds)",
                          "slots": "forall(c, 0, T, forall(v, 0, len(jds), count(stubs[c], v, len(stubs[c])) == jds[v][c]))",
                          "vrange": "forall(c, 0, T, forall(p, 0, len(stubs[c]), 0 <= stubs[c][p] and stubs[c][p] < len(jds)))",
                          "full": "len(stubs[k]) % self._motif_sizes[k] == 0 and len(stubs[k]) >= 0 and self._motif_sizes[k] >= 1",
                          "pos": "POS <= len(stubs[k])", "posmod": "POS % self._motif_sizes[k] == 0", "k": "0 <= k and k < T"},
                     hints={"full_group": "POS + self._motif_sizes[k] <= len(stubs[k])"},
                     ghost_end=["rec_k[id] = k", "rec_pos[id] = POS", "rec_last[k] = id", f"rec_start[id] = len({E}._edge_list) - len(es)"])})
    def only_shuffles(reg_):
        d = reg_.find_def("gcmpy/gcm_algorithm/gcm_algorithm_fast.py", "GCMAlgorithmFast.random_clustered_graph")
        calls = [n for n in ast.walk(d) if isinstance(n, ast.Call) and ast.unparse(n.func).startswith("random.")]
        ok = len(calls) == 1 and ast.unparse(calls[0].func) == "random.shuffle"
        loops = [n for n in d.body if isinstance(n, ast.For)]
        first = loops[0] if loops else None
        ok = ok and first is not None and ast.unparse(first.iter) == "stubs" and any(c is calls[0] for c in ast.walk(first)) and ast.unparse(calls[0].args[0]) == ast.unparse(first.target)
        return ok, "exactly one random.* call site: random.shuffle(<loop variable>) inside `for ... in stubs` preceding the grouping loop" if ok else f"random call sites: {[ast.unparse(c)[:40] for c in calls]}"
    reg.static_checks.append(("GCMAlgorithmFast.random_clustered_graph:static.only_randomness_is_one_shuffle_per_stub_list", only_shuffles))
    def network_delegates(reg_):
        d = reg_.find_def("gcmpy/gcm_algorithm/gcm_algorithm_network.py", "GCMAlgorithmNetwork.random_clustered_graph")
        body = [ast.unparse(x).replace(" ", "") for x in d.body if not (isinstance(x, ast.Expr) and isinstance(x.value, ast.Constant))]
        want = ["params={}", "params[GCMAlgorithmNames.MOTIF_SIZES]=self._motif_sizes", "params[GCMAlgorithmNames.BUILD_FUNCTIONS]=self._build_functions", "params[GCMAlgorithmNames.EDGE_NAMES]=self._edge_names",
                "CEdgeList=GCMAlgorithmFast(params).random_clustered_graph(jds)", "returnEdgeListToNetwork.convert(CEdgeList)"]
        return body == want, "the network generator = EdgeListToNetwork.convert(GCMAlgorithmFast(same sizes, callbacks, names).random_clustered_graph(jds))" if body == want else f"body is {body}"
    def base_init(reg_):
        d = reg_.find_def("gcmpy/gcm_algorithm/gcm_algorithm.py", "GCMAlgorithm.__init__"); src = ast.unparse(d).replace(" ", "")
        ok = all(x in src for x in ("self._motif_sizes=params[GCMAlgorithmNames.MOTIF_SIZES]", "self._build_functions=params[GCMAlgorithmNames.BUILD_FUNCTIONS]", "self._edge_names=params[GCMAlgorithmNames.EDGE_NAMES]"))
        return ok, "the base constructor stores the three parameters unchanged" if ok else "base constructor has another shape"
    def dispatch(reg_):
        d = reg_.find_def("gcmpy/gcm_algorithm/gcm_algorithm_factory.py", "GCMAlgorithmFactory.resolve_algorithm"); got = {}
        def walk(node):
            if isinstance(node, ast.If):
                t = node.test
                if isinstance(t, ast.Compare) and len(t.ops) == 1 and isinstance(t.ops[0], ast.Eq) and ast.unparse(t.left) == "type" and isinstance(t.comparators[0], ast.Attribute) and ast.unparse(t.comparators[0].value) == "GCMAlgorithmTypes" \
                        and len(node.body) == 1 and isinstance(node.body[0], ast.Return) and isinstance(node.body[0].value, ast.Call) and [ast.unparse(a_) for a_ in node.body[0].value.args] == ["params"]:
                    got[t.comparators[0].attr] = ast.unparse(node.body[0].value.func)
                else: got["?"] = ast.unparse(t)[:40]
                for o in node.orelse: walk(o)
        for st_ in d.body: walk(st_)
        want = {"FAST": "GCMAlgorithmFast", "NETWORK": "GCMAlgorithmNetwork", "MOTIFS": "GCMAlgorithmCustomMotifs"}
        m2 = reg_.find_def("gcmpy/gcm_algorithm/gcm_algorithm_main.py", "GCMAlgorithmMain.load_gcm_algorithm"); src = ast.unparse(m2).replace(" ", "")
        ok2 = "GCMAlgorithmTypes(params[GCMAlgorithmNames.GCM_TYPE])" in src and "GCMAlgorithmFactory.resolve_algorithm(input_type,params)" in src and "returnloader" in src
        return (got == want and ok2), f"dispatch table {got}; entry point resolves the enum from params and returns the factory's object: {ok2}"
    reg.static_checks += [("GCMAlgorithmNetwork.random_clustered_graph:static.delegates_to_fast_then_converts", network_delegates),
                          ("GCMAlgorithm.__init__:static.stores_parameters", base_init), ("GCMAlgorithmFactory.resolve_algorithm:static.dispatch_table_and_main_entry", dispatch)]
    return ["LightWeightEdgeList.__init__", "GCMAlgorithmFast.random_clustered_graph"]
