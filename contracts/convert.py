from vf.spec import *
from contracts.nxlib import *
import contracts.nxlib as nxlib
LName = ListT(Name); LInt = ListT(INT)
def build(reg):
    nxlib.install(reg)
    mn = reg.module("gcmpy/network/network.py")
    mn.cls("Network", fields={"_G": GRAPH}, properties={"G": "_G"})
    EMPTY = "forall(x, -1, 0, True)"
    mn.fn("Network.__init__", ensures={
        "no_nodes": "forall_elem(x, Int, not (x in self._G.nodes))", "no_edges": "forall_elem(e, Pair, not (e in self._G.adj))",
        "no_attrs": "forall_elem(x, Int, not (x in self._G.jd_has)) and forall_elem(e, Pair, not (e in self._G.top_has) and not (e in self._G.mid_has))"})
    reg.type("Int", INT); reg.type("Pair", P)
    me = reg.module("gcmpy/network/edge_list.py")
    EL = me.cls("LightWeightEdgeList", fields={"_edge_list": LP, "_topologies": LName, "_joint_degrees": JDS, "_motif_id": LInt},
           properties={"edge_list": "_edge_list", "topologies": "_topologies", "joint_degrees": "_joint_degrees", "motif_id": "_motif_id"})
    m = reg.module("gcmpy/network/edge_list_to_network.py")
    m.cls("EdgeListToNetwork", fields={})
    EQ = lambda i, u, v: f"(edgelist._edge_list[{i}] == ({u}, {v}) or edgelist._edge_list[{i}] == ({v}, {u}))"
    ONCE = "forall(j, 0, len(edgelist._edge_list), implies(j != i, not (edgelist._edge_list[j] == edgelist._edge_list[i]) and not (edgelist._edge_list[j] == (edgelist._edge_list[i][1], edgelist._edge_list[i][0]))))"
    m.fn("EdgeListToNetwork.convert", params={"edgelist": EL.ty}, ret=mn.classes["Network"].ty,
      locals={"joint_degrees": DictT(INT, JD), "topologies": DictT(P, Name), "motif_ids": DictT(P, INT)},
      requires={"parallel": "len(edgelist._edge_list) == len(edgelist._topologies) and len(edgelist._edge_list) == len(edgelist._motif_id)",
                "vertices": "forall(i, 0, len(edgelist._edge_list), 0 <= edgelist._edge_list[i][0] and edgelist._edge_list[i][0] < len(edgelist._joint_degrees) and 0 <= edgelist._edge_list[i][1] and edgelist._edge_list[i][1] < len(edgelist._joint_degrees))"},
      ensures={"nodes": "forall_elem(x, Int, (x in result._G.nodes) == (0 <= x and x < len(edgelist._joint_degrees)))",
               "joint_degree": "forall(x, 0, len(edgelist._joint_degrees), (x in result._G.jd_has) and result._G.jd[x] == edgelist._joint_degrees[x])",
               "edges": "forall_elem(u, Int, forall_elem(v, Int, ((u, v) in result._G.adj) == exists(i, 0, len(edgelist._edge_list), " + EQ("i", "u", "v") + ")))",
               "attrs_once": f"forall(i, 0, len(edgelist._edge_list), implies({ONCE}, (edgelist._edge_list[i] in result._G.top_has) and result._G.top[edgelist._edge_list[i]] == edgelist._topologies[i] and (edgelist._edge_list[i] in result._G.mid_has) and result._G.mid[edgelist._edge_list[i]] == edgelist._motif_id[i]))",
               "input_unchanged": "edgelist == old(edgelist)"},
      loops={0: dict(inv={"dom": "forall_elem(x, Int, (x in joint_degrees) == (0 <= x and x < IT))",
                          "val": "forall(x, 0, IT, joint_degrees[x] == edgelist._joint_degrees[x])", "frame": "model == old_model and edgelist == old(edgelist)"},
                     snap={"old_model": "model"}),
             1: dict(inv={"dom_t": "forall_elem(e, Pair, (e in topologies) == exists(j, 0, IT, edgelist._edge_list[j] == e))",
                          "dom_m": "forall_elem(e, Pair, (e in motif_ids) == exists(j, 0, IT, edgelist._edge_list[j] == e))",
                          "last_t": "forall(j, 0, IT, implies(forall(j2, j + 1, IT, edgelist._edge_list[j2] != edgelist._edge_list[j]), topologies[edgelist._edge_list[j]] == edgelist._topologies[j]))",
                          "last_m": "forall(j, 0, IT, implies(forall(j2, j + 1, IT, edgelist._edge_list[j2] != edgelist._edge_list[j]), motif_ids[edgelist._edge_list[j]] == edgelist._motif_id[j]))",
                          "frame": "model == old_model1 and edgelist == old(edgelist)"},
                     snap={"old_model1": "model"})})
    return ["Network.__init__", "EdgeListToNetwork.convert"]
