from vf.spec import *
from contracts.nxlib import *
import contracts.nxlib as nxlib
LName = ListT(Name); LInt = ListT(INT)
def build(reg):
    nxlib.install(reg)
    mn = reg.module("gcmpy/network/network.py")
    mn.cls("Network", fields={"_G": GRAPH}, properties={"G": "_G"})
    EMPTY = "forall(x, -1, 0, True)"
    mn.fn("Network.__init__", ensures={
        "no_nodes": "forall_elem(x, Int, not (x in self._G.nodes))", "no_edges": "forall_elem(e, Pair, not (e in self._G.adj))",
        "no_attrs": "forall_elem(x, Int, not (x in self._G.jd_has)) and forall_elem(e, Pair, not (e in self._G.top_has) and not (e in self._G.mid_has))"})
    reg.type("Int", INT); reg.type("Pair", P)
    me = reg.module("gcmpy/network/edge_list.py")
    EL = me.cls("LightWeightEdgeList", fields={"_edge_list": LP, "_topologies": LName, "_joint_degrees": JDS, "_motif_id": LInt},
           properties={"edge_list": "_edge_list", "topologies": "_topologies", "joint_degrees": "_joint_degrees", "motif_id": "_motif_id"})
    me.fn("LightWeightEdgeList.__init__", ensures={"empty": "len(self._edge_list) == 0 and len(self._topologies) == 0 and len(self._joint_degrees) == 0 and len(self._motif_id) == 0"})
    m = reg.module("gcmpy/network/edge_list_to_network.py")
    m.cls("EdgeListToNetwork", fields={})
    EQ = lambda i, u, v: f"(edgelist._edge_list[{i}] == ({u}, {v}) or edgelist._edge_list[{i}] == ({v}, {u}))"
    ONCE = "forall(j, 0, len(edgelist._edge_list), implies(j != i, not (edgelist._edge_list[j] == edgelist._edge_list[i]) and not (edgelist._edge_list[j] == (edgelist._edge_list[i][1], edgelist._edge_list[i][0]))))"
    m.fn("EdgeListToNetwork.convert", params={"edgelist": EL.ty}, ret=mn.classes["Network"].ty,
      locals={"joint_degrees": DictT(INT, JD), "topologies": DictT(P, Name), "motif_ids": DictT(P, INT)},
      requires={"parallel": "len(edgelist._edge_list) == len(edgelist._topologies) and len(edgelist._edge_list) == len(edgelist._motif_id)",
                "vertices": "forall(i, 0, len(edgelist._edge_list), 0 <= edgelist._edge_list[i][0] and edgelist._edge_list[i][0] < len(edgelist._joint_degrees) and 0 <= edgelist._edge_list[i][1] and edgelist._edge_list[i][1] < len(edgelist._joint_degrees))"},
      ensures={"nodes": "forall_elem(x, Int, (x in result._G.nodes) == (0 <= x and x < len(edgelist._joint_degrees)))",
               "joint_degree": "forall(x, 0, len(edgelist._joint_degrees), (x in result._G.jd_has) and result._G.jd[x] == edgelist._joint_degrees[x])",
               "edges": "forall_elem(u, Int, forall_elem(v, Int, ((u, v) in result._G.adj) == exists(i, 0, len(edgelist._edge_list), " + EQ("i", "u", "v") + ")))",
               "attrs_once": f"forall(i, 0, len(edgelist._edge_list), implies({ONCE}, (edgelist._edge_list[i] in result._G.top_has) and result._G.top[edgelist._edge_list[i]] == edgelist._topologies[i] and (edgelist._edge_list[i] in result._G.mid_has) and result._G.mid[edgelist._edge_list[i]] == edgelist._motif_id[i]))",
               "attrs_symmetric": "forall_elem(u, Int, forall_elem(v, Int, result._G.top[(u, v)] == result._G.top[(v, u)] and result._G.mid[(u, v)] == result._G.mid[(v, u)]))",
               "all_edges_annotated": "forall_elem(e, Pair, implies(e in result._G.adj, (e in result._G.top_has) and (e in result._G.mid_has)))",
               "input_unchanged": "edgelist == old(edgelist)"},
      loops={0: dict(inv={"dom": "forall_elem(x, Int, (x in joint_degrees) == (0 <= x and x < IT))",
                          "val": "forall(x, 0, IT, joint_degrees[x] == edgelist._joint_degrees[x])", "frame": "model == old_model and edgelist == old(edgelist)"},
                     snap={"old_model": "model"}),
             1: dict(inv={"dom_t": "forall_elem(e, Pair, (e in topologies) == exists(j, 0, IT, edgelist._edge_list[j] == e))",
                          "dom_m": "forall_elem(e, Pair, (e in motif_ids) == exists(j, 0, IT, edgelist._edge_list[j] == e))",
                          "last_t": "forall(j, 0, IT, implies(forall(j2, j + 1, IT, edgelist._edge_list[j2] != edgelist._edge_list[j]), topologies[edgelist._edge_list[j]] == edgelist._topologies[j]))",
                          "last_m": "forall(j, 0, IT, implies(forall(j2, j + 1, IT, edgelist._edge_list[j2] != edgelist._edge_list[j]), motif_ids[edgelist._edge_list[j]] == edgelist._motif_id[j]))",
                          "frame": "model == old_model1 and edgelist == old(edgelist)"},
                     snap={"old_model1": "model"})})
    mr = reg.module("gcmpy/network/network_to_edge_list.py")
    mr.cls("NetworkToEdgeList", fields={})
    NET = mn.classes["Network"].ty
    ANNOT = "forall_elem(e, Pair, implies(e in network._G.adj, (e in network._G.top_has) and (e in network._G.mid_has)))"
    mr.fn("NetworkToEdgeList.convert", params={"network": NET, "ORDER": INT}, ghost=["ORDER"], ret=EL.ty,
      requires={"nodes_0_to_order": "ORDER >= 0 and forall_elem(x, Int, (x in network._G.nodes) == (0 <= x and x < ORDER))",
                "vertices_annotated": "forall(x, 0, ORDER, x in network._G.jd_has)", "edges_annotated": ANNOT},
      ensures={"joint_degrees": "len(result._joint_degrees) == ORDER and forall(x, 0, ORDER, result._joint_degrees[x] == network._G.jd[x])",
               "edge_list_is_the_edge_enumeration": "len(result._edge_list) == len(edge_seq(network._G)) and forall(q, 0, len(result._edge_list), result._edge_list[q] == edge_seq(network._G)[q])",
               "columns_parallel": "len(result._topologies) == len(result._edge_list) and len(result._motif_id) == len(result._edge_list)",
               "topologies": "forall(q, 0, len(result._edge_list), result._topologies[q] == network._G.top[result._edge_list[q]])",
               "motif_ids": "forall(q, 0, len(result._edge_list), result._motif_id[q] == network._G.mid[result._edge_list[q]])",
               "input_unchanged": "network == old(network)"})
    # ---- round trip: a lemma over the two contracts (spec-level composition, verified modularly: only the callees' contracts are used)
    reg.virtual["<lemma>/roundtrip.py"] = (
        "class RoundTrip:\n"
        "    def roundtrip(edgelist):\n"
        "        net = EdgeListToNetwork.convert(edgelist)\n"
        "        back = NetworkToEdgeList.convert(net)\n"
        "        return back\n")
    ml = reg.module("<lemma>/roundtrip.py"); ml.cls("RoundTrip", fields={})
    ml.fn("RoundTrip.roundtrip", params={"edgelist": EL.ty}, ret=EL.ty,
      call_ghosts={"NetworkToEdgeList.convert": {"ORDER": "len(edgelist._joint_degrees)"}},
      requires={"parallel": "len(edgelist._edge_list) == len(edgelist._topologies) and len(edgelist._edge_list) == len(edgelist._motif_id)",
                "vertices": "forall(i, 0, len(edgelist._edge_list), 0 <= edgelist._edge_list[i][0] and edgelist._edge_list[i][0] < len(edgelist._joint_degrees) and 0 <= edgelist._edge_list[i][1] and edgelist._edge_list[i][1] < len(edgelist._joint_degrees))"},
      ensures={"same_joint_degrees": "len(result._joint_degrees) == len(edgelist._joint_degrees) and forall(x, 0, len(edgelist._joint_degrees), result._joint_degrees[x] == edgelist._joint_degrees[x])",
               "no_edge_invented": "forall(q, 0, len(result._edge_list), exists(i, 0, len(edgelist._edge_list), " + EQ("i", "result._edge_list[q][0]", "result._edge_list[q][1]") + "))",
               "no_edge_lost": "forall(i, 0, len(edgelist._edge_list), 0 <= edge_idx(net._G, edgelist._edge_list[i][0], edgelist._edge_list[i][1]) and edge_idx(net._G, edgelist._edge_list[i][0], edgelist._edge_list[i][1]) < len(result._edge_list) and "
                               "(result._edge_list[edge_idx(net._G, edgelist._edge_list[i][0], edgelist._edge_list[i][1])] == edgelist._edge_list[i] or result._edge_list[edge_idx(net._G, edgelist._edge_list[i][0], edgelist._edge_list[i][1])] == (edgelist._edge_list[i][1], edgelist._edge_list[i][0])))",
               "each_edge_once": "forall(q, 0, len(result._edge_list), forall(q2, q + 1, len(result._edge_list), result._edge_list[q] != result._edge_list[q2] and result._edge_list[q] != (result._edge_list[q2][1], result._edge_list[q2][0])))",
               "annotations_of_single_entries_survive": f"forall(i, 0, len(edgelist._edge_list), implies({ONCE}, forall(q, 0, len(result._edge_list), implies(result._edge_list[q] == edgelist._edge_list[i] or result._edge_list[q] == (edgelist._edge_list[i][1], edgelist._edge_list[i][0]), result._topologies[q] == edgelist._topologies[i] and result._motif_id[q] == edgelist._motif_id[i]))))"})
    return ["Network.__init__", "LightWeightEdgeList.__init__", "EdgeListToNetwork.convert", "NetworkToEdgeList.convert", "RoundTrip.roundtrip"]
