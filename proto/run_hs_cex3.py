import sys, time, z3, os, tempfile, shutil
sys.path.insert(0, '/root/vf-proto')
from vf.world import World
from vf.core import *
import contracts.joint_degree as C
from vf.symexec import FnExec
B = 2
def sf_colsum_unrolled(jds, c):
    return Val(C.INT, z3.Sum([z3.If(v < C.JDS.len(jds.z), C.cell(jds.z, z3.IntVal(v), c.z), 0) for v in range(B)]))
def pat_colsums_unrolled(ex, n, st, pc):
    import ast
    if ast.unparse(n).replace(" ", "") != "list(map(sum,zip(*jds)))": return None
    jds = ex.expr(ast.Name(id="jds", ctx=ast.Load()), st, pc); T = st.env["T"].z
    out = fresh(TList(C.INT), "ntops"); t = out.t
    pc.append(t.len(out.z) == z3.If(C.JDS.len(jds.z) > 0, T, 0))
    for c in range(B):
        pc.append(z3.Implies(c < T, z3.Select(t.arr(out.z), c) == sf_colsum_unrolled(jds, Val(C.INT, z3.IntVal(c))).z))
    return out
def cex(repo, want):
    w = World(repo, 'gcmpy/joint_degree/joint_degree.py')
    w.classes, w.funcs, w.types = C.CLASSES, C.FUNCS, C.TYPES
    w.specfuns = {"colsum": sf_colsum_unrolled}; w.axioms = []; w.call_patterns = [pat_colsums_unrolled]
    w.expand_bound = B; w.expand_side = []
    ex = FnExec(w, "JointDegree.handshaking_lemma"); obs = ex.run()
    for ob in obs:
        if not any(ob.name.endswith(x) for x in want): continue
        sol = z3.Solver(); sol.set("timeout", 30000); sol.add(*ob.hyps); sol.add(*w.expand_side); sol.add(z3.Not(ob.goal))
        t = time.time(); r = sol.check(); print("   ", ob.name.split(":")[1], r, f"{time.time()-t:.2f}s", sol.reason_unknown() if r == z3.unknown else "")
        if r == z3.sat:
            m = sol.model(); st0 = ex_entry[0]
    return
src = open('/repo/gcmpy/joint_degree/joint_degree.py').read().replace("jds[j] = t", "jds[j] = tuple(t)")
muts = {"FIXED": (None, ["loop1.preserve.col","loop0.preserve.done","ensures.divisible"]),
 "plus2": (("t[i] += 1", "t[i] += 2"), ["loop1.preserve.col"]),
 "range_plus1": (("range(self._motif_sizes[i] - ntop % self._motif_sizes[i])", "range(self._motif_sizes[i] - ntop % self._motif_sizes[i] + 1)"), ["loop0.preserve.done"]),
 "cond_flip": (("if ntop % self._motif_sizes[i] != 0:", "if ntop % self._motif_sizes[i] == 0:"), ["loop0.preserve.done"]),
 "randrange_oob": (("random.randrange(0, len(jds))", "random.randrange(0, len(jds) + 1)"), ["raises.unexpected(IndexError)"]),
 "wrong_col": (("t[i] += 1", "t[0] += 1"), ["loop1.preserve.col", "loop1.preserve.others"]),
 "minus": (("t[i] += 1", "t[i] -= 1"), ["loop1.preserve.col", "loop1.preserve.ge"])}
ex_entry=[None]
for name,(m,want) in muts.items():
    s = src.replace(*m) if m else src
    d = tempfile.mkdtemp(prefix='vfm'); os.makedirs(d+'/gcmpy/joint_degree'); open(d+'/gcmpy/joint_degree/joint_degree.py','w').write(s)
    print(name); 
    try: cex(d, want)
    except NameError: pass
    shutil.rmtree(d)
