import sys, importlib, z3, time, re
sys.path.insert(0, '/root/vf-proto')
from vf2.spec import Registry
from vf2 import lib, idioms
from vf2.sym import FnExec, Theory
reg = Registry('/repo'); lib.install(reg); idioms.install(reg)
import c2.mcmc as M
M.build(reg)
th = Theory(reg); ex = FnExec(reg, "MarkovChainMonteCarloRewiring.swap_condition", th); obs = ex.run()
o = next(o for o in obs if o.name.endswith("path21.ensures.allowed.pair_in_target"))
base = len(th.hyps()); hy = o.hyps
def chk(hyps, goal, label, to=20000):
    for nm, cfg in (("ematch", {"smt.mbqi": False, "smt.auto_config": False}), ("default", {})):
        s = z3.Solver(); s.set("timeout", to)
        for k, v in cfg.items(): s.set(k, v)
        s.add(*hyps); s.add(z3.Not(goal)); t = time.time(); r = s.check()
        if r == z3.unsat: print("   ", label, "PROVED", nm, f"{time.time()-t:.2f}s"); return True
    print("   ", label, r); return False
print(len(hy), "hyps")
# drop hypotheses containing nonlinear real products / random / bottom
def has(h, pat): return pat in str(h)
keep = [h for h in hy if not (has(h, "rngf") or has(h, "bottom"))]
print("without rng/bottom hyps:", len(keep)); chk(keep, o.goal, "goal")
for i, h in enumerate(hy[base:]):
    s = re.sub(r"\s+", " ", str(h))
    if i >= 60: print(i, s[:260])
print("---- all path hyps")
for i, h in enumerate(hy[base:]):
    s = re.sub(r"\s+", " ", str(h)); print(i, s[:330])
print("GOAL", re.sub(r"\s+", " ", str(o.goal))[:700])
