import sys, importlib, json
sys.path.insert(0, '/root/vf-proto')
from vf2.spec import Registry
from vf2 import lib, idioms
from vf2.driver import verify, counter_models
from vf2.solve import ok
from vf2.reify import reify_entry
if __name__ == "__main__":
    modname = sys.argv[1]; repo = sys.argv[2] if len(sys.argv) > 2 else '/repo'
    reg = Registry(repo); lib.install(reg); idioms.install(reg)
    quals = importlib.import_module(f"c2.{modname}").build(reg)
    obs, und, th = verify(reg, quals, rlimit=2_000_000, timeout_ms=10000)
    wanted = {o.name for o in obs if not ok(o) and o.kind != "canary"}
    for B in (1, 2):
        cms = counter_models(reg, quals, wanted, B=B)
        for name, (st, model, ex) in cms.items():
            print(f"   cex B={B} {name}: {st}")
            if model is not None:
                print("      entry:", json.dumps(reify_entry(ex, model), default=str))
        wanted -= {n for n, (st, _, _) in cms.items() if st == "sat"}
        if not wanted: break
