import sys, os, tempfile, shutil, importlib.util, json
sys.path.insert(0, '/root/vf-proto')
from vf.world import World
from vf.symexec import FnExec
from vf.core import *
from vf.reify import Reifier
from vf.rt import *
import contracts.draw_set as C
src = open('/repo/gcmpy/tools/draw_set.py').read()
muts = {"forget_map_update": ("            self._edge_hashmap[last_item] = position\n", ""),
        "off_by_one": ("self._edge_hashmap[e] = len(self._edges) - 1", "self._edge_hashmap[e] = len(self._edges)"),
        "no_guard": ("        if position != len(self._edges):\n            self._edges[position] = last_item\n            self._edge_hashmap[last_item] = position",
                     "        self._edges[position] = last_item\n        self._edge_hashmap[last_item] = position")}
for name, (a, b) in muts.items():
    d = tempfile.mkdtemp(prefix='vfm'); os.makedirs(d + '/gcmpy/tools'); open(d + '/gcmpy/tools/draw_set.py', 'w').write(src.replace(a, b))
    w = World(d, 'gcmpy/tools/draw_set.py'); w.classes, w.funcs, w.types = C.CLASSES, C.FUNCS, C.TYPES
    found = None
    for q in C.FUNCS:
        ex = FnExec(w, q); obs = ex.run()
        for ob in obs:
            if ob.kind == "canary": continue
            discharge(ob)
            if ob.status == "refuted": found = (q, ex, ob); break
        if found: break
    q, ex, ob = found
    # entry state = the executor's old snapshot
    R = Reifier(ob.model); st0 = ex.entry
    selfv = R.val(st0.env["self"]); args = {k: R.val(v) for k, v in st0.env.items() if k != "self" and isinstance(v, Val)}
    rng = [ob.model.eval(r, model_completion=True).as_long() for _, r in ex.rng_log]
    # replay on the real (mutated) code under the run-time contract
    spec = importlib.util.spec_from_file_location("ds", d + "/gcmpy/tools/draw_set.py"); mod = importlib.util.module_from_spec(spec); spec.loader.exec_module(mod)
    class W2: classes = C.CLASSES; funcs = C.FUNCS; rt_specfuns = {}
    uni = {"Elem": sorted(set(selfv["_edges"]) | set(selfv["_edge_hashmap"]) | set(args.values()) | {99})}
    Checked = type("DrawSet", (mod.DrawSet,), {}); meth = q.split(".")[-1]
    setattr(Checked, meth, wrap_method(W2, mod.DrawSet, q, uni))
    obj = Checked.__new__(Checked); obj._edges = list(selfv["_edges"]); obj._edge_hashmap = dict(selfv["_edge_hashmap"])
    it = iter(rng); mod.random.choice = lambda seq: seq[next(it)]
    try:
        getattr(obj, meth)(*args.values()); outcome = "no violation on replay"
    except ContractViolation as e: outcome = f"CONFIRMED {e.clause}"
    except Exception as e: outcome = f"raised {e!r}"
    print(json.dumps(dict(mutant=name, obligation=ob.name, state=selfv, args=args, rng=rng, replay=outcome)))
    shutil.rmtree(d)
