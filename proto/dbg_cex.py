import sys, importlib, z3
sys.path.insert(0, '/root/vf-proto')
from vf2.spec import Registry
from vf2 import lib, idioms
from vf2.driver import counter_models
from vf2.types import *
reg = Registry('/repo'); lib.install(reg); idioms.install(reg)
quals = importlib.import_module("c2.joint_degree").build(reg)
name = "JointDegree.handshaking_lemma:loop1.preserve.tuples"
cms = counter_models(reg, quals, {name}, B=1)
st, m, ex = cms[name]
jds = ex.entry.env["jds"]; t = jds.t
row0 = t.at(jds.z, 0)
print("len", m.eval(t.len(jds.z)), "row0", m.eval(row0, model_completion=True))
print("kind", m.eval(t.elem.kind(row0), model_completion=True))
