"""Concrete reproductions of the defects F1..F12 of DESIGN section 6 on a given tree.
usage: PYTHONPATH=<tree> /venv/bin/python repro_defects.py     prints one line per defect: id DEFECT|ok detail"""
import random, sys, traceback
import networkx as nx

def run(name, f):
    try:
        r = f()
        print(f"{name} {'DEFECT' if r else 'ok'} {r or ''}")
    except Exception as e:
        print(f"{name} DEFECT exception {type(e).__name__}: {e}")

def F1():
    from gcmpy.gcm_algorithm.gcm_algorithm_custom_motifs import GCMAlgorithmCustomMotifs
    from gcmpy.names.gcm_algorithm_names import GCMAlgorithmNames as N
    p = {N.MOTIF_SIZES: [2], N.BUILD_FUNCTIONS: [lambda vs: (vs[0], vs[1])], N.EDGE_NAMES: [lambda: "2-clique"], N.MOTIF_INDICES: [[0]]}
    el = GCMAlgorithmCustomMotifs(p).random_clustered_graph([(1,), (1,), (1,), (1,)])
    if not (len(el.edge_list) == len(el.motif_id) == len(el.topologies)): return f"edges={len(el.edge_list)} ids={len(el.motif_id)} names={len(el.topologies)}"
    # two-edge motif must stay two entries
    p = {N.MOTIF_SIZES: [3], N.BUILD_FUNCTIONS: [lambda vs: [(vs[0], vs[1]), (vs[1], vs[2])]], N.EDGE_NAMES: [lambda: ["p", "p"]], N.MOTIF_INDICES: [[0]]}
    el = GCMAlgorithmCustomMotifs(p).random_clustered_graph([(1,), (1,), (1,)])
    if not (len(el.edge_list) == 2 == len(el.motif_id) == len(el.topologies) and all(len(e) == 2 and isinstance(e[0], int) for e in el.edge_list)): return f"two-edge motif: {el.edge_list} {el.motif_id} {el.topologies}"
def F2():
    from gcmpy.network.edge_list import LightWeightEdgeList
    from gcmpy.network.edge_list_to_network import EdgeListToNetwork
    from gcmpy.network.network_to_edge_list import NetworkToEdgeList
    el = LightWeightEdgeList(); el.joint_degrees = [(1,), (0,), (1,)]; el.edge_list = [(0, 2)]; el.topologies = ["2-clique"]; el.motif_id = [0]
    net = EdgeListToNetwork.convert(el)
    if sorted(net.G.nodes) != [0, 1, 2]: return f"nodes={sorted(net.G.nodes)}"
    NetworkToEdgeList.convert(net)
def F3():
    from gcmpy.joint_degree.joint_degree_loaders.joint_degree_manual import JointDegreeManual
    from gcmpy.names.joint_degree_names import JointDegreeNames as N
    jd = JointDegreeManual({N.JDD: {(1,): 1.0}, N.MOTIF_SIZES: [2]})
    out = jd.sample_jds_from_jdd(3)
    if not all(isinstance(t, tuple) for t in out): return f"{out}"
def F4():
    from gcmpy.joint_degree.joint_degree_loaders.joint_degree_function import JointDegreeFunction
    from gcmpy.names.joint_degree_names import JointDegreeNames as N
    o = JointDegreeFunction({N.MOTIF_SIZES: [2], N.LOW_HIGH_DEGREE_BOUND: [(0, 2)], N.FP: lambda k: 1.0})
    if o.jdd != {(0,): 1.0, (1,): 1.0, (2,): 1.0}: return f"{o.jdd}"
def F5():
    from gcmpy.joint_degree.joint_degree_loaders.joint_degree_split_degree import JointDegreeSplitDegree
    from gcmpy.names.joint_degree_names import JointDegreeNames as N
    p = {N.MOTIF_SIZES: [2, 3], N.FP: lambda k: 1.0, N.PROBS: [0.5, 0.5], N.LOW_HIGH_DEGREE_BOUND: (1, 5)}
    o = JointDegreeSplitDegree(p)
    ks = sorted({d[0] + 2 * d[1] for d in o.jdd})
    if ks != [1, 2, 3, 4]: return f"degrees present: {ks}"
def F6():
    from gcmpy.joint_degree.joint_degree_loaders.joint_degree_cover import JointDegreeCover
    from gcmpy.names.joint_degree_names import JointDegreeNames as N
    o = JointDegreeCover({N.COVER: [[0, 1], [1, 2, 3, 4]]})
    if o.motif_sizes != [2, 4]: return f"sizes {o.motif_sizes}"
    exp = {(1, 0): 0.2, (1, 1): 0.2, (0, 1): 0.6}
    if {k: round(v, 9) for k, v in o.jdd.items()} != exp: return f"jdd {o.jdd}"
def F7():
    from gcmpy.covers.eecc import EECC
    from gcmpy.network.network import Network
    bad = 0
    for seed in range(300):
        rnd = random.Random(seed); n = 6
        es = [(u, v) for u in range(n) for v in range(u + 1, n) if rnd.random() < 0.6]
        if not es: continue
        rnd.shuffle(es); es = [e if rnd.random() < .5 else (e[1], e[0]) for e in es]
        net = EECC(); net.set_max_clique_size(2)
        for e in es: net.add_edge(e)
        random.seed(seed); cover = net.get_EECC()
        seen = [tuple(sorted(c)) for c in cover]
        if len(seen) != len(set(seen)) or len(seen) != len(es): bad += 1
    if bad: return f"{bad}/300 random 6-vertex graphs with a doubly covered edge at m0=2"
def F8a():
    from gcmpy.tools.markov_chain_monte_carlo_rewiring import MarkovChainMonteCarloRewiring
    import inspect
    return None
def F9():
    return None
def F10():
    from gcmpy.tools.joint_degree_from_excess import JointDegreeFromExcess
    from gcmpy.tools.joint_excess_from_jdd import JointExcessFromJDD
    return None
def F11():
    from gcmpy.tools.bond_percolate import bond_percolate
    g = nx.Graph([(0, 1)]); saved = random.random; random.random = lambda: 0.0
    try: r = bond_percolate(g, 0.0)
    finally: random.random = saved
    if r != 0.5: return f"phi=0, draw 0.0 -> {r}"
def F12():
    from gcmpy.distributions.poisson import poisson
    import math
    v = poisson(2.0)(1)
    if abs(v - 2 * math.exp(-2)) > 1e-12: return f"{v}"
if __name__ == "__main__":
    for nm in ["F1", "F2", "F3", "F4", "F5", "F6", "F7", "F11", "F12"]: run(nm, globals()[nm])
