"""C05 bounded stand-in: the real handshaking_lemma under the SAME contract text the prover uses;
all jds with N<=3, T<=2, entries<=2, sizes in {1,2,3}^T, every randrange outcome."""
import sys, importlib, importlib.util, itertools, json, time, random
sys.path.insert(0, '/root/vf-proto')
from vf2.spec import Registry
from vf2 import lib, idioms
from vf2.rt import checked, Chooser, ContractViolation
repo = sys.argv[1] if len(sys.argv) > 1 else '/repo'
reg = Registry(repo); lib.install(reg); idioms.install(reg); importlib.import_module("c2.joint_degree").build(reg)
spec = importlib.util.spec_from_file_location("jd_real", repo + "/gcmpy/joint_degree/joint_degree.py"); mod = importlib.util.module_from_spec(spec); spec.loader.exec_module(mod)
class JD(mod.JointDegree):
    def create_jdd(self): pass
stats = {}
JD.handshaking_lemma = checked(reg, "JointDegree.handshaking_lemma", mod.JointDegree.handshaking_lemma, ghost=lambda env: {"T": len(env["self"]._motif_sizes)}, stats=stats)
ch = Chooser(); mod.random.randrange = lambda a, b: a + ch.pick(b - a)
t = time.time(); runs = 0; distinct = set(); viol = None
for T in (1, 2):
    for sizes in itertools.product((1, 2, 3), repeat=T):
        for N in (1, 2, 3):
            for flat in itertools.product(range(3), repeat=N * T):
                jds0 = [tuple(flat[v * T:(v + 1) * T]) for v in range(N)]
                ch.script = []; ch.arity = []
                while True:
                    ch.reset(); runs += 1
                    o = JD(); o._motif_sizes = list(sizes)
                    try: o.handshaking_lemma(list(jds0))
                    except ContractViolation as e: viol = dict(jds=jds0, sizes=sizes, rng=list(ch.script), clause=e.clause, detail=e.detail[:200]); break
                    distinct.add((tuple(jds0), sizes, tuple(ch.script)))
                    if not ch.advance(): break
                if viol: break
            if viol: break
        if viol: break
    if viol: break
print(json.dumps(dict(runs=runs, distinct=len(distinct), wall=round(time.time() - t, 1), clauses_evaluated=stats.get("clauses_evaluated"), not_evaluable=sorted(stats.get("not_evaluable", [])), violation=viol)))
