import sys, os, shutil, tempfile, subprocess
src = open('/repo/gcmpy/covers/mpcc.py').read()
muts = {"ascending": ("cliques = sorted(cliques, key=len, reverse=True)", "cliques = sorted(cliques, key=len)"),
        "limit_ge": ("if len(c) > max_size and max_size > 0:", "if len(c) >= max_size and max_size > 0:"),
        "skip_inverted": ("if not g.has_edge(e[0], e[1]):", "if g.has_edge(e[0], e[1]):"),
        "no_claim": ("            g.remove_edges_from(list(itertools.combinations(c, 2)))\n", ""),
        "same_id": ("        ID: int = next(clique_ID)\n", "        ID: int = 0\n"),
        "benign_no_shuffle": ("    shuffle(cliques)\n", "")}
for name, (a, b) in muts.items():
    assert a in src, name
    d = tempfile.mkdtemp(prefix='vfm'); os.makedirs(d + '/gcmpy/covers'); open(d + '/gcmpy/covers/mpcc.py', 'w').write(src.replace(a, b))
    out = subprocess.run([sys.executable, 'run2.py', 'mpcc', d], capture_output=True, text=True).stdout
    lines = [l for l in out.splitlines() if 'FAIL' in l or 'UNDECIDED' in l or 'obligations=' in l]
    print(name); [print("   ", l.strip()[:150]) for l in lines[:7]]
    shutil.rmtree(d)
