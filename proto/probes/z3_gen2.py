import time
from z3 import *
def prove(name, hyp, goal, to=20000):
    s=Solver(); s.set(timeout=to); s.add(hyp); s.add(Not(goal))
    t=time.time(); r=s.check(); print(name, 'PROVED' if r==unsat else r, f'{time.time()-t:.3f}s')
    return r
Ed=DeclareSort('Edge'); Nm=DeclareSort('Name')
size,L=Ints('size L')
nb=Function('nb',IntSort(),IntSort()); be=Function('be',IntSort(),IntSort(),Ed)
name=Const('name',Nm)
def st(s): return dict(off=Int('off'+s), m=Int('m'+s), pos=Int('pos'+s),
   edge=Array('edge'+s,IntSort(),Ed), top=Array('top'+s,IntSort(),Nm), mid=Array('mid'+s,IntSort(),IntSort()),
   gstart=Array('gstart'+s,IntSort(),IntSort()), gpos=Array('gpos'+s,IntSort(),IntSort()))
m0=Int('m0'); off0=Int('off0')
p=Int('p'); q=Int('q')
def inv_parts(S):
    gs,gp=S['gstart'],S['gpos']
    return {
     'basic': And(size>0, L>=0, S['pos']>=0, S['m']>=m0, S['off']>=off0, m0>=0, off0>=0),
     'gpos0': Implies(S['m']>m0, gp[m0]==0),
     'gposstep': ForAll([q], Implies(And(m0<=q,q+1<S['m']), gp[q+1]==gp[q]+size)),
     'gposlast': Implies(S['m']>m0, gp[S['m']-1]+size==S['pos']),
     'posempty': Implies(S['m']==m0, And(S['pos']==0, S['off']==off0)),
     'gstart0': Implies(S['m']>m0, gs[m0]==off0),
     'gstartstep': ForAll([q], Implies(And(m0<=q,q+1<S['m']), gs[q+1]==gs[q]+nb(gp[q]))),
     'gstartlast': Implies(S['m']>m0, gs[S['m']-1]+nb(gp[S['m']-1])==S['off']),
     'nbpos': ForAll([q], Implies(And(m0<=q,q<S['m']), nb(gp[q])>=0)),
     'cols': ForAll([p], Implies(And(off0<=p,p<S['off']), And(m0<=S['mid'][p], S['mid'][p]<S['m'],
            gs[S['mid'][p]]<=p, p<gs[S['mid'][p]]+nb(gp[S['mid'][p]]),
            S['edge'][p]==be(gp[S['mid'][p]], p-gs[S['mid'][p]]), S['top'][p]==name))),
    }
S=st('A'); T=st('B')
n=nb(S['pos'])
body=[n>=0, T['off']==S['off']+n, T['m']==S['m']+1, T['pos']==S['pos']+size,
  ForAll([p], Implies(p<S['off'], And(T['edge'][p]==S['edge'][p],T['top'][p]==S['top'][p],T['mid'][p]==S['mid'][p]))),
  ForAll([p], Implies(And(S['off']<=p,p<T['off']), And(T['edge'][p]==be(S['pos'],p-S['off']),T['top'][p]==name,T['mid'][p]==S['m']))),
  T['gstart']==Store(S['gstart'],S['m'],S['off']), T['gpos']==Store(S['gpos'],S['m'],S['pos'])]
hyp=list(inv_parts(S).values())+[S['pos']<L]+body
for k,g in inv_parts(T).items():
    prove('preserve.'+k, hyp, g, 30000)
# mutant: motif_id extended by n+1
body_m=list(body); body_m[1]=T['off']==S['off']+n
