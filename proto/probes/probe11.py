import random, collections, sys
import networkx as nx
from gcmpy import *
from gcmpy.names.gcm_algorithm_names import GCMAlgorithmNames as GN
from gcmpy.names.network_names import NetworkNames as NN
SIZE = int(sys.argv[1]) if len(sys.argv) > 1 else 6
def make_clean(n, seed):
    rng = random.Random(seed)
    for attempt in range(5000):
        random.seed(rng.randint(0, 10**9))
        jdd = JointDegreeManual({JointDegreeNames.JDD: {(1, 0): .3, (2, 1): .3, (1, 1): .3, (0, 2): .1}, JointDegreeNames.MOTIF_SIZES: [2, SIZE]})
        jds = [tuple(x) for x in jdd.sample_jds_from_jdd(n)]
        p = {GN.MOTIF_SIZES: [2, SIZE], GN.EDGE_NAMES: ["2-clique", "cyc"], GN.BUILD_FUNCTIONS: [clique_motif, cycle_motif]}
        el = GCMAlgorithmFast(p).random_clustered_graph(jds)
        s = set(); ok = True
        for (a, b) in el.edge_list:
            if a == b or frozenset((a, b)) in s: ok = False; break
            s.add(frozenset((a, b)))
        # motifs on distinct vertices
        groups = collections.defaultdict(set)
        for (a, b), m in zip(el.edge_list, el.motif_id): groups[m] |= {a, b}
        sizes = collections.Counter(el.motif_id)
        if ok and all(len(groups[m]) == (2 if sizes[m] == 1 else SIZE) for m in groups) and all(sum(j) > 0 for j in jds):
            return EdgeListToNetwork.convert(el)
    raise RuntimeError("no clean network")
def shape_ok(G):
    motifs = collections.defaultdict(list); bad = []
    for u, v, d in G.edges(data=True): motifs[d[NN.MOTIF_IDS]].append((u, v, d[NN.TOPOLOGY]))
    for mid, es in motifs.items():
        H = nx.Graph(); H.add_edges_from([(u, v) for u, v, _ in es])
        if es[0][2] == "2-clique": ok = len(es) == 1 and H.number_of_nodes() == 2
        else: ok = len(es) == SIZE and H.number_of_nodes() == SIZE and all(d == 2 for _, d in H.degree()) and nx.is_connected(H)
        if not ok: bad.append((mid, sorted(H.edges())))
    return bad
def target_full(G):
    J = JointExcessJointDegree({ToolsNames.NETWORK: G, ToolsNames.EDGE_NAMES: ["2-clique", "cyc"]}); e = J.get_ejks(); ej = {}
    for t in e.ejks:
        ks = e.excess_degree_keys[t]; ej[t] = {a + b: 1.0 / len(ks) ** 2 for a in ks for b in ks}
    return JointExcessJointDegreeMatrices({ToolsNames.EJKS: ej, ToolsNames.EDGE_NAMES: ["2-clique", "cyc"]})
tot = collections.Counter(); first = None
for seed in range(20):
    net = make_clean(36, seed); assert not shape_ok(net.G)
    mc = MarkovChainMonteCarloRewiring({ToolsNames.NETWORK: net, ToolsNames.EJKS: target_full(net.G), ToolsNames.CONVERGENCE_LIMIT: 150, ToolsNames.SEARCH_LIMIT: 20})
    random.seed(seed); G = mc.rewire(); bad = shape_ok(G)
    tot["runs"] += 1; tot["selfloops"] += sum(1 for u, v in G.edges() if u == v); tot["bad_motifs"] += len(bad)
    if bad and first is None: first = (seed, bad[0])
print(f"cycle length {SIZE}:", dict(tot), "first:", first)
