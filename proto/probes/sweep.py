"""Broad small-scope sweep against a (repaired) tree: direct oracles for C01-C08, C13, C14, C18."""
import itertools, random, collections, math, sys, traceback
from fractions import Fraction as Fr
import networkx as nx
from gcmpy import *
from gcmpy.names.gcm_algorithm_names import GCMAlgorithmNames as GN
from gcmpy.names.joint_degree_names import JointDegreeNames as JN
from gcmpy.names.network_names import NetworkNames as NN
from gcmpy.gcm_algorithm.gcm_algorithm_types import GCMAlgorithmTypes
issues = collections.Counter(); first = {}
def bad(key, detail):
    issues[key] += 1; first.setdefault(key, detail)
rng = random.Random(7)
# ---------------------------------------------------------------- C01/C02/C03 fast + network + custom, via a recording build callback
def rec_builders(T, shapes):
    calls = [[] for _ in range(T)]
    def mk(k, shape):
        def build(vs):
            calls[k].append(list(vs))
            if shape == "clique": return clique_motif(vs)
            if shape == "cycle": return cycle_motif(vs)
            if shape == "one": return [(vs[0], vs[-1])]
            if shape == "two": return [(vs[0], vs[-1]), (vs[-1], vs[0])]
        return build
    return calls, [mk(k, s) for k, s in enumerate(shapes)]
def check_gen(jds, sizes, shapes, algo):
    T = len(sizes); calls, builds = rec_builders(T, shapes); names = [f"t{k}" for k in range(T)]
    params = {GN.MOTIF_SIZES: sizes, GN.EDGE_NAMES: names, GN.BUILD_FUNCTIONS: builds}
    snap = [tuple(x) for x in jds]
    if algo == "fast": el = GCMAlgorithmFast(params).random_clustered_graph(jds)
    elif algo == "factory": el = GCMAlgorithmFactory.resolve_algorithm(GCMAlgorithmTypes.FAST, params).random_clustered_graph(jds)
    elif algo == "main": el = GCMAlgorithmMain.load_gcm_algorithm({**params, GN.GCM_TYPE: "fast"}).random_clustered_graph(jds)
    elif algo == "network":
        net = GCMAlgorithmNetwork(params).random_clustered_graph(jds); el = None
    if [tuple(x) for x in jds] != snap: bad("C01.jds_modified", (jds, snap))
    N = len(jds)
    for k in range(T):
        L = sum(j[k] for j in jds)
        if len(calls[k]) != L // sizes[k]: bad("C01.count", (jds, sizes, k, len(calls[k])))
        slots = collections.Counter(v for c in calls[k] for v in c)
        if any(len(c) != sizes[k] for c in calls[k]): bad("C01.groupsize", (jds, sizes, calls[k]))
        if any(slots[v] != jds[v][k] for v in range(N)) or any(not (0 <= v < N) for v in slots): bad("C01.slots", (jds, sizes, k, dict(slots)))
    if el is not None:
        if el.joint_degrees is not jds: bad("C01.jds_not_carried", 0)
        if not (len(el.edge_list) == len(el.topologies) == len(el.motif_id)): bad("C02.parallel", (jds, sizes, shapes))
        groups = collections.defaultdict(list)
        for e, t, m in zip(el.edge_list, el.topologies, el.motif_id): groups[m].append((e, t))
        exp = []
        for k in range(T):
            for c in calls[k]:
                b = {"clique": clique_motif, "cycle": cycle_motif, "one": lambda vs: [(vs[0], vs[-1])], "two": lambda vs: [(vs[0], vs[-1]), (vs[-1], vs[0])]}[shapes[k]]
                exp.append([(e, f"t{k}") for e in b(c)])
        got = [groups[m] for m in sorted(groups)]
        if [g for g in got if g] != [e for e in exp if e]: bad("C02.blocks", (jds, sizes, shapes, got, exp))
    else:
        G = net.G
        if set(G.nodes()) != set(range(N)): bad("C04.nodes_via_network", (jds, sorted(G.nodes())))
        for n in range(N):
            if tuple(G.nodes[n][NN.JOINT_DEGREE]) != tuple(jds[n]): bad("C04.jd", (jds, n))
for trial in range(1500):
    T = rng.choice([1, 2]); sizes = [rng.choice([1, 2, 3, 4]) for _ in range(T)]; N = rng.randint(1, 5)
    jds = [tuple(rng.randint(0, 2) for _ in range(T)) for _ in range(N)]
    # pad to satisfy the handshake
    jds = [list(j) for j in jds]
    for k in range(T):
        while sum(j[k] for j in jds) % sizes[k]: jds[rng.randrange(N)][k] += 1
    jds = [tuple(j) for j in jds]
    shapes = [rng.choice(["clique", "cycle", "one", "two"]) for _ in range(T)]
    for algo in ("fast", "factory", "main", "network"):
        try: check_gen(list(jds), sizes, shapes, algo)
        except Exception as e: bad("C01.exception." + type(e).__name__, (jds, sizes, shapes, algo, repr(e)))
# custom motifs: single-orbit and a two-orbit motif
def check_custom(jds, sizes, indices, builders, namers):
    calls = [[] for _ in indices]
    def wrap(j, f):
        def g(vs): calls[j].append(list(vs)); return f(vs)
        return g
    p = {GN.MOTIF_SIZES: sizes, GN.EDGE_NAMES: namers, GN.BUILD_FUNCTIONS: [wrap(j, f) for j, f in enumerate(builders)], GN.MOTIF_INDICES: indices}
    el = GCMAlgorithmCustomMotifs(p).random_clustered_graph(jds)
    if not (len(el.edge_list) == len(el.topologies) == len(el.motif_id)): bad("C02.custom.parallel", (jds, len(el.edge_list), len(el.topologies), len(el.motif_id)))
    if any(not (isinstance(e, tuple) and len(e) == 2 and all(isinstance(x, int) for x in e)) for e in el.edge_list): bad("C02.custom.edge_is_pair", el.edge_list)
    for j, idxs in enumerate(indices):
        k0 = idxs[0]
        if len(calls[j]) != sum(x[k0] for x in jds) // sizes[k0]: bad("C01.custom.count", (jds, j, len(calls[j])))
        off = 0
        for k in idxs:
            slots = collections.Counter(v for c in calls[j] for v in c[off:off + sizes[k]]); off += sizes[k]
            if any(slots[v] != jds[v][k] for v in range(len(jds))): bad("C01.custom.slots", (jds, j, k, dict(slots)))
    groups = collections.defaultdict(list)
    for e, t, m in zip(el.edge_list, el.topologies, el.motif_id): groups[m].append((e, t))
    exp = []
    for j in range(len(indices)):
        for c in calls[j]:
            es = builders[j](c); nm = namers[j]()
            if len(es) == 2 and not isinstance(es[0], (tuple, list)): es, nm = [es], [nm]
            exp.append(list(zip(es, nm)))
    if [groups[m] for m in sorted(groups)] != exp: bad("C02.custom.blocks", (jds, [groups[m] for m in sorted(groups)], exp))
two = lambda vs: (vs[0], vs[1]); two_n = lambda: "2c"
path = lambda vs: [(vs[0], vs[1]), (vs[1], vs[2])]; path_n = lambda: ["pa", "pb"]
dia = lambda vs: ((vs[0], vs[1]), (vs[1], vs[2]), (vs[2], vs[3]), (vs[3], vs[1]), (vs[0], vs[2])); dia_n = lambda: ("o", "o", "o", "o", "i")
for trial in range(400):
    N = rng.randint(2, 6)
    jds = [[rng.randint(0, 2), rng.randint(0, 1), rng.randint(0, 1), rng.randint(0, 1)] for _ in range(N)]
    sizes = [2, 3, 2, 2]; indices = [[0], [1], [2, 3]]
    for k in (0, 1):
        while sum(j[k] for j in jds) % sizes[k]: jds[rng.randrange(N)][k] += 1
    # the two diamond orbits need the same number of chunks
    while sum(j[2] for j in jds) % 2: jds[rng.randrange(N)][2] += 1
    while sum(j[3] for j in jds) != sum(j[2] for j in jds): 
        if sum(j[3] for j in jds) < sum(j[2] for j in jds): jds[rng.randrange(N)][3] += 1
        else: jds[rng.randrange(N)][2] += 1
    if sum(j[2] for j in jds) % 2: continue
    try: check_custom([tuple(j) for j in jds], sizes, indices, [two, path, dia], [two_n, path_n, dia_n])
    except Exception as e: bad("C01.custom.exception." + type(e).__name__, (jds, repr(e)))
# ---------------------------------------------------------------- C05
for trial in range(600):
    T = rng.choice([1, 2]); sizes = [rng.choice([1, 2, 3]) for _ in range(T)]; N = rng.randint(1, 5)
    keys = list({tuple(rng.randint(0, 3) for _ in range(T)) for _ in range(rng.randint(1, 3))})
    d = JointDegreeManual({JN.JDD: {k: rng.random() + 0.1 for k in keys}, JN.MOTIF_SIZES: sizes})
    real_choices = random.choices; drawn = {}
    def spy(population, weights, k): r = real_choices(population=population, weights=weights, k=k); drawn["d"] = list(r); drawn["pw"] = (list(population), list(weights)); return r
    random.choices = spy
    try: out = d.sample_jds_from_jdd(N)
    finally: random.choices = real_choices
    base = drawn["d"]
    if drawn["pw"][0] != list(d.jdd.keys()) or drawn["pw"][1] != list(d.jdd.values()): bad("C05.alignment", drawn["pw"])
    if len(out) != N: bad("C05.len", (out, N))
    if any(not isinstance(x, tuple) for x in out): bad("C05.tuple", out)
    for k in range(T):
        s0 = sum(x[k] for x in base); s1 = sum(x[k] for x in out); need = (-s0) % sizes[k]
        if s1 - s0 != need: bad("C05.minimal", (base, out, sizes))
    if any(o[k] < b[k] for o, b in zip(out, base) for k in range(T)): bad("C05.removed", (base, out))
    try: JointDegreeEmpirical({JN.MOTIF_SIZES: sizes, JN.JDS: out})
    except Exception as e: bad("C05.usable", repr(e))
# ---------------------------------------------------------------- C06/C07/C08 with exact fractions
def close(a, b): return abs(a - b) <= 1e-12 * max(1, abs(a), abs(b))
f1 = lambda k: Fr(1, k + 1); f2 = lambda k: Fr(k + 1, 7)
mg = JointDegreeMarginal({JN.MOTIF_SIZES: [2, 3], JN.ARR_FP: [f1, f2], JN.LOW_HIGH_DEGREE_BOUND: [(0, 3), (1, 4)]})
tot = sum(f1(a) * f2(b) for a in range(0, 3) for b in range(1, 4))
for a in range(0, 3):
    for b in range(1, 4):
        if not close(float(mg.jdd[(a, b)]), float(f1(a) * f2(b) / tot)): bad("C06.marginal", ((a, b), mg.jdd[(a, b)]))
if set(mg.jdd) != {(a, b) for a in range(0, 3) for b in range(1, 4)}: bad("C06.marginal.support", sorted(mg.jdd))
fn = JointDegreeFunction({JN.MOTIF_SIZES: [2, 3], JN.FP: lambda jd: Fr(1, 1 + sum(jd)), JN.LOW_HIGH_DEGREE_BOUND: [(0, 2), (1, 2)]})
if fn.jdd != {(a, b): Fr(1, 1 + a + b) for a in range(0, 3) for b in range(1, 3)}: bad("C06.function", fn.jdd)
emp = JointDegreeEmpirical({JN.MOTIF_SIZES: [2], JN.JDS: [(1,), (1,), (2,), (0,)]})
if emp.jdd != {(1,): 0.5, (2,): 0.25, (0,): 0.25}: bad("C06.empirical", emp.jdd)
for typ, cls, params in [("manual", JointDegreeManual, {JN.JDD: {(1,): 0.5, (2,): 0.5}, JN.MOTIF_SIZES: [2]}),
                         ("empirical", JointDegreeEmpirical, {JN.MOTIF_SIZES: [2], JN.JDS: [(1,), (2,)]}),
                         ("function", JointDegreeFunction, {JN.MOTIF_SIZES: [2], JN.FP: lambda jd: 0.25, JN.LOW_HIGH_DEGREE_BOUND: [(0, 3)]}),
                         ("marginal", JointDegreeMarginal, {JN.MOTIF_SIZES: [2], JN.ARR_FP: [f1], JN.LOW_HIGH_DEGREE_BOUND: [(0, 3)]}),
                         ("split_degree", JointDegreeSplitDegree, {JN.FP: f1, JN.PROBS: [Fr(1, 2), Fr(1, 3)], JN.MOTIF_SIZES: [2, 3], JN.LOW_HIGH_DEGREE_BOUND: (1, 5)}),
                         ("delta", JointDegreeDelta, {JN.TARGET_K: 3, JN.FP: f1, JN.PROBS: [Fr(1, 2), Fr(1, 3)], JN.MOTIF_SIZES: [2, 3], JN.LOW_HIGH_DEGREE_BOUND: (1, 6)}),
                         ("cover", JointDegreeCover, {JN.COVER: [[0, 1], [1, 2, 3], [0, 2]]})]:
    try:
        a = cls(dict(params)).jdd; b = JointDegreeDistribution.load_joint_degree({**params, JN.JOINT_DEGREE_TYPE: typ}).jdd
        if a != b: bad("C06.dispatch." + typ, (a, b))
    except Exception as e: bad("C06.dispatch.exception." + typ, repr(e))
for probs in ([Fr(1, 2), Fr(1, 3)], [Fr(1, 2), Fr(1, 3), Fr(1, 5)]):
    sd = JointDegreeSplitDegree({JN.FP: f1, JN.PROBS: probs, JN.MOTIF_SIZES: list(range(2, 2 + len(probs))), JN.LOW_HIGH_DEGREE_BOUND: (1, 7)})
    Z = sum(f1(k) for k in range(1, 7))
    if not close(float(sum(sd.jdd.values())), 1.0): bad("C07.sum", sum(sd.jdd.values()))
    for k in range(1, 7):
        keys = [d for d in sd.jdd if sum((i + 1) * x for i, x in enumerate(d)) == k]
        want = [d for d in itertools.product(range(k + 1), repeat=len(probs)) if sum((i + 1) * x for i, x in enumerate(d)) == k]
        if sorted(keys) != sorted(want): bad("C07.splits", (k, sorted(keys)))
        if not close(float(sum(sd.jdd[d] for d in keys)), float(f1(k) / Z)): bad("C07.mass", (k, sum(sd.jdd[d] for d in keys)))
        w = {d: math.prod(probs[i] ** ((i + 1) * x) for i, x in enumerate(d)) for d in keys}
        if any(not close(float(sd.jdd[d] * sum(w.values())), float(w[d] * f1(k) / Z)) for d in keys): bad("C07.within", k)
    dl = JointDegreeDelta({JN.TARGET_K: 4, JN.FP: f1, JN.PROBS: probs, JN.MOTIF_SIZES: list(range(2, 2 + len(probs))), JN.LOW_HIGH_DEGREE_BOUND: (1, 7)})
    for k in range(1, 7):
        if k != 4 and not close(float(dl.jdd.get((k,) + (0,) * (len(probs) - 1), -1)), float(f1(k) / Z)): bad("C07.delta.pure", (k, dl.jdd))
    if not close(float(sum(v for d, v in dl.jdd.items() if sum((i + 1) * x for i, x in enumerate(d)) == 4)), float(f1(4) / Z)): bad("C07.delta.target", dl.jdd)
for cover in ([[0, 1], [1, 2, 3, 4]], [[1, 2], [2, 3], [1, 2, 3, 4, 5]], [[0, 1, 2], [2, 3, 4], [0, 4]], [[1, 2], [3, 4, 5, 6], [2, 3]]):
    try:
        c = JointDegreeCover({JN.COVER: cover}); sizes = sorted({len(x) for x in cover})
        if c.motif_sizes != sizes: bad("C08.sizes", (cover, c.motif_sizes))
        vs = sorted({v for x in cover for v in x}); rows = [tuple(sum(1 for x in cover if v in x and len(x) == s) for s in sizes) for v in vs]
        if c.jdd != {r: rows.count(r) / len(rows) for r in set(rows)}: bad("C08.jdd", (cover, c.jdd, rows))
    except Exception as e: bad("C08.exception", (cover, repr(e)))
# ---------------------------------------------------------------- C13/C14 on generated clean networks
def clean_net(seed, N=12):
    r = random.Random(seed)
    for _ in range(2000):
        random.seed(r.randint(0, 10**9))
        jd = JointDegreeManual({JN.JDD: {(1, 0): .3, (2, 1): .3, (1, 1): .2, (0, 1): .1, (0, 0): .1}, JN.MOTIF_SIZES: [2, 3]})
        jds = jd.sample_jds_from_jdd(N)
        el = GCMAlgorithmFast({GN.MOTIF_SIZES: [2, 3], GN.EDGE_NAMES: ["a", "b"], GN.BUILD_FUNCTIONS: [clique_motif, clique_motif]}).random_clustered_graph(jds)
        s = set()
        if all(x != y and not (frozenset((x, y)) in s or s.add(frozenset((x, y)))) for x, y in el.edge_list): return EdgeListToNetwork.convert(el), jds
    raise RuntimeError
for seed in range(40):
    net, jds = clean_net(seed); G = net.G; names = ["a", "b"]
    J = JointExcessJointDegree({ToolsNames.NETWORK: G, ToolsNames.EDGE_NAMES: names})
    e1 = J.get_ejks().ejks; e1 = {t: dict(v) for t, v in e1.items()}; e2 = J.get_ejks().ejks
    if e1 != {t: dict(v) for t, v in e2.items()}: bad("C13.repeat", seed)
    for i, t in enumerate(names):
        ends = collections.Counter(); E = 0
        for u, v, d in G.edges(data=True):
            if d[NN.TOPOLOGY] != t: continue
            E += 1
            ex = lambda n: tuple(x - (1 if k == i else 0) for k, x in enumerate(G.nodes[n][NN.JOINT_DEGREE]))
            ends[ex(u) + ex(v)] += 1; ends[ex(v) + ex(u)] += 1
        want = {k: Fr(c, 2 * E) for k, c in ends.items()}
        got = e2.get(t, {})
        if set(got) != set(want) or any(not close(got[k], float(want[k])) for k in want): bad("C13.exact", (seed, t))
        if E and not close(sum(got.values()), 1.0): bad("C13.sum", (seed, t, sum(got.values())))
    # C14: excess from jdd vs row sums
    P = JointDegreeDistributionFromNetwork.get_joint_degree_distribution(G)
    cnt = collections.Counter(tuple(x) for x in jds)
    if any(not close(P[k], cnt[k] / len(jds)) for k in cnt) or set(P) != set(cnt): bad("C14.hist", seed)
    qs = JointExcessfromJDD.get_joint_excess_distributions(P)
    rows = JointExcessFromEjk.get_excess_joint_distributions(J.get_ejks())
    for i, t in enumerate(names):
        if set(qs[i]) != set(rows[t]) or any(not close(qs[i][k], rows[t][k]) for k in qs[i]): bad("C14.rowsum_vs_excess", (seed, t, qs[i], rows[t]))
    inv = JointDegreeFromExcess.get_joint_degree_distribution(JointExcessfromJDD.convert_list_qks_to_dict(qs, ["x-blue", "y"]), ["x-blue", "y"]) if any(all(c > 0 for c in k) for k in P) else None
    if inv is not None:
        Z = sum(v for k, v in P.items() if any(k))
        if set(inv) != {k for k in P if any(k)} or any(not close(inv[k], P[k] / Z) for k in inv): bad("C14.inverse", (seed, inv, P))
# ---------------------------------------------------------------- C18
real_random = random.random
for M in range(1, 5):
    star = nx.star_graph(M)
    for pattern in itertools.product([0.0, 0.3, 0.7, 0.999], repeat=M):
        for phi in (0.0, 0.3, 0.5, 1.0):
            it = iter(pattern); random.random = lambda: next(it)
            before = (sorted(star.nodes()), sorted(star.edges()))
            S = bond_percolate(star, phi); random.random = real_random
            kept = sum(1 for r in pattern if r < phi)
            if (sorted(star.nodes()), sorted(star.edges())) != before: bad("C18.input_modified", 0)
            if not close(S, (kept + 1) / (M + 1)): bad("C18.value", (M, pattern, phi, S, kept))
random.random = real_random
print("issues:", dict(issues))
for k, v in first.items(): print("  ", k, "->", str(v)[:300])
