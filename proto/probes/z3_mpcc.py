import time
from z3 import *
def prove(name, hyp, goal, to=30000):
    last=None
    for cfg in ({"smt.mbqi":False,"smt.auto_config":False},{}):
        s=Solver(); s.set(timeout=to)
        for k,v in cfg.items(): s.set(k,v)
        s.add(hyp); s.add(Not(goal)); t=time.time(); r=s.check(); last=r
        if r==unsat: print(name,'PROVED',f'{time.time()-t:.3f}s',"ematch" if cfg else "default"); return r
    print(name,last); return last
mem=Function('mem',IntSort(),IntSort(),BoolSort())        # mem(j,u): vertex u in clique j
size=Function('size',IntSort(),IntSort())
E=Function('E',IntSort(),IntSort(),BoolSort())            # input graph edges (symmetric, loop-free)
i,j,j2,u,v,n=Ints('i j j2 u v n')
pair=lambda j_,u_,v_: And(u_!=v_, mem(j_,u_), mem(j_,v_))
def mk(s): return dict(acc=Function('acc'+s,IntSort(),BoolSort()), cl=Function('cl'+s,IntSort(),IntSort(),BoolSort()), own=Function('own'+s,IntSort(),IntSort(),IntSort()))
lib=[ForAll([u,v],E(u,v)==E(v,u)), ForAll([u],Not(E(u,u))),
     ForAll([j,u,v],Implies(And(0<=j,j<n,pair(j,u,v)),E(u,v))),                  # every listed set is a clique of G
     ForAll([j,j2],Implies(And(0<=j,j<=j2,j2<n),size(j)>=size(j2)))]             # sorted by size, descending
def inv(S,i_):
    acc,cl,own=S['acc'],S['cl'],S['own']
    return {
     'rng': And(0<=i_,i_<=n),
     'claimed_def': ForAll([u,v], cl(u,v)==Exists([j],And(0<=j,j<i_,acc(j),pair(j,u,v)))),
     'owner': ForAll([u,v], Implies(cl(u,v), And(0<=own(u,v),own(u,v)<i_,acc(own(u,v)),pair(own(u,v),u,v)))),
     'disjoint': ForAll([j,j2,u,v], Implies(And(0<=j,j<j2,j2<i_,acc(j),acc(j2),pair(j,u,v)),Not(pair(j2,u,v)))),
     'greedy': ForAll([j], Implies(And(0<=j,j<i_), Or(acc(j), Exists([u,v],And(pair(j,u,v),cl(u,v),size(own(u,v))>=size(j)))))),
    }
S=mk('0'); T=mk('1')
skip=Exists([u,v],And(pair(i,u,v),S['cl'](u,v)))        # inner loop summary: some pair of c_i not in g any more
H=lib+list(inv(S,i).values())+[i<n]
# branch accept (not skip)
acc_b=[Not(skip), ForAll([j],T['acc'](j)==Or(S['acc'](j),j==i)),
       ForAll([u,v],T['cl'](u,v)==Or(S['cl'](u,v),pair(i,u,v))),
       ForAll([u,v],T['own'](u,v)==If(S['cl'](u,v),S['own'](u,v),i))]
for k,g in inv(T,i+1).items(): prove('mpcc.accept.'+k, H+acc_b, g)
# branch skip
skip_b=[skip, ForAll([j],T['acc'](j)==And(S['acc'](j),j!=i)), ForAll([u,v],T['cl'](u,v)==S['cl'](u,v)), ForAll([u,v],T['own'](u,v)==S['own'](u,v))]
for k,g in inv(T,i+1).items(): prove('mpcc.skip.'+k, H+skip_b, g)
# exit: every edge claimed, provided every edge {u,v} appears as a 2-clique in the list (enumerate_all_cliques contract)
two=ForAll([u,v],Implies(E(u,v),Exists([j],And(0<=j,j<n,mem(j,u),mem(j,v),ForAll([j2],Implies(mem(j,j2),Or(j2==u,j2==v)))))))
prove('mpcc.exit.all_edges_claimed', lib+list(inv(S,n).values())+[two], ForAll([u,v],Implies(E(u,v),S['cl'](u,v))), 60000)
