import time
from z3 import *
def prove(name, hyp, goal, to=20000):
    s=Solver(); s.set(timeout=to); s.add(hyp); s.add(Not(goal))
    t=time.time(); r=s.check(); print(name, 'PROVED' if r==unsat else r, f'{time.time()-t:.3f}s')
    return r
Pair=DeclareSort('Pair'); Nm=DeclareSort('Nm')
el=Array('el',IntSort(),Pair); names=Array('names',IntSort(),Nm)
i,j,j2,n=Ints('i j j2 n'); e=Const('e',Pair)
def inv(dom,val,i):
    return [And(0<=i,i<=n),
      ForAll([j], Implies(And(0<=j,j<i), dom[el[j]])),
      ForAll([e], Implies(dom[e], Exists([j], And(0<=j,j<i,el[j]==e)))),
      # last-writer-wins: val[e] = names[last index of e]
      ForAll([j], Implies(And(0<=j,j<i, ForAll([j2], Implies(And(j<j2,j2<i), el[j2]!=el[j]))), val[el[j]]==names[j]))]
dom=Array('dom',Pair,BoolSort()); val=Array('val',Pair,Nm)
dom2=Store(dom,el[i],True); val2=Store(val,el[i],names[i])
H=inv(dom,val,i)+[i<n]
for k,g in enumerate(inv(dom2,val2,i+1)):
    prove(f'c04.dict.preserve.{k}', H, g)
# post: pair occurring once at index j -> val = names[j]
post=ForAll([j], Implies(And(0<=j,j<n, ForAll([j2], Implies(And(0<=j2,j2<n,j2!=j), el[j2]!=el[j]))), val[el[j]]==names[j]))
prove('c04.dict.post', inv(dom,val,n), post)
