import time
from z3 import *
def prove(name, hyp, goal, to=20000):
    s=Solver(); s.set(timeout=to); s.add(hyp); s.add(Not(goal))
    t=time.time(); r=s.check(); print(name, 'PROVED' if r==unsat else r, f'{time.time()-t:.3f}s')
    return r
A=ArraySort(IntSort(),IntSort())
S=Function('S',A,IntSort(),IntSort())
a=Const('a',A); n,j,x=Ints('n j x')
b=Const('b',A)
defS=[ForAll([b,n], Implies(n<=0, S(b,n)==0), patterns=[S(b,n)]),
      ForAll([b,n], Implies(n>0, S(b,n)==S(b,n-1)+b[n-1]), patterns=[S(b,n)])]
# Lemma L1 (update outside range): j>=n -> S(store(a,j,x),n)==S(a,n), by induction on n
P=lambda n_: Implies(And(j>=n_), S(Store(a,j,x),n_)==S(a,n_))
prove('L1.base', defS, P(IntVal(0)))
prove('L1.step', defS+[n>=0,P(n)], P(n+1))
L1=ForAll([b,j,x,n], Implies(j>=n, S(Store(b,j,x),n)==S(b,n)), patterns=[S(Store(b,j,x),n)])
# Lemma L2 (update inside): 0<=j<n -> S(store(a,j,x),n)==S(a,n)-a[j]+x
Q=lambda n_: Implies(And(0<=j,j<n_), S(Store(a,j,x),n_)==S(a,n_)-a[j]+x)
prove('L2.base', defS, Q(IntVal(0)))
prove('L2.step', defS+[L1,n>=0,Q(n)], Q(n+1))
# real-valued map-sum with products: C12 product nonzero
top,w1,w2=Reals('top w1 w2')
prove('prod.nz', [top*w1*w2!=0], And(top!=0,w1!=0,w2!=0))
prove('prod.pos', [top>0,w1>=0,w2>=0,top*w1*w2!=0], And(w1>0,w2>0, top*w1*w2>0))
# C14: (P/A)/(Z/A) == P/Z
Pk,Ai,Z=Reals('Pk Ai Z')
prove('inv.single', [Ai>0,Z>0], (Pk/Ai)/(Z/Ai)==Pk/Z)
Zr,Zi,Pc=Reals('Zr Zi Pc')
prove('inv.scale', [Zr>0,Zi>0,Pc>0], (Pk/Zi)*((Pc/Zr)/(Pc/Zi))==Pk/Zr)
# C13 : h = 0.5/Ne ; 2*h*Ne == 1
h,Ne=Reals('h Ne')
prove('ejk.mass', [Ne>0,h==0.5/Ne], 2*h*Ne==1)
