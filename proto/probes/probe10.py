import itertools, collections, random
from gcmpy import *
from gcmpy.names.gcm_algorithm_names import GCMAlgorithmNames as GN
from gcmpy.message_passing.number_connected_graphs import Q, QQ
import gcmpy.gcm_algorithm.gcm_algorithm_fast as F
# C03: enumerate all permutations via patched shuffle
jds=[(1,),(1,),(1,),(1,)]
p={GN.MOTIF_SIZES:[2],GN.EDGE_NAMES:["2c"],GN.BUILD_FUNCTIONS:[clique_motif]}
cnt=collections.Counter()
real=random.shuffle
for perm in itertools.permutations(range(4)):
    def sh(lst, perm=perm):
        cp=list(lst)
        for i,pi in enumerate(perm): lst[i]=cp[pi]
    random.shuffle=sh
    el=GCMAlgorithmFast(p).random_clustered_graph(jds)
    cnt[frozenset(frozenset(e) for e in el.edge_list)]+=1
random.shuffle=real
print(sorted(cnt.values()))
# C16 Q vs QQ
bad=0
for n in range(1,7):
    for k in range(0,n*(n-1)//2+1):
        if Q(n,k)!=QQ(n,k): bad+=1; print("Q!=QQ",n,k,Q(n,k),QQ(n,k))
print("Q/QQ mismatches n<=6:",bad)
