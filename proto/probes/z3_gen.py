import time
from z3 import *
def prove(name, hyp, goal, to=20000):
    s=Solver(); s.set(timeout=to); s.add(hyp); s.add(Not(goal))
    t=time.time(); r=s.check(); print(name, 'PROVED' if r==unsat else r, f'{time.time()-t:.3f}s')
    if r==sat: print(s.model())
# nonlinear sanity
cnt,pos,size,L=Ints('cnt pos size L')
prove('nl.step', [size>0, cnt*size==pos], (cnt+1)*size==pos+size)
prove('nl.div', [size>0, cnt*size==L, cnt>=0], cnt==L/size)
prove('nl.mod', [size>0, L%size==0, cnt*size==pos, pos<L, pos>=0], pos+size<=L)

# inner loop of fast generator for one topology k.
# state: off (shared column length), cols edge/top/mid arrays, m (motif counter), pos (stub position), cnt groups
V=DeclareSort('Vtx'); Ed=DeclareSort('Edge'); Nm=DeclareSort('Name')
kl=Array('kl',IntSort(),IntSort())   # shuffled stub list for this topology (vertex ids as ints)
# build callback: abstract: number of edges nb(pos) and edge content be(pos,t) as functions of the group start (since group = kl[pos:pos+size])
# faithful: build applied to the slice; slice determined by (kl,pos,size) -> model as UF of pos for fixed kl,size
nb=Function('nb',IntSort(),IntSort()); be=Function('be',IntSort(),IntSort(),Ed)
name=Const('name',Nm)
def st(s): return dict(off=Int('off'+s), m=Int('m'+s), pos=Int('pos'+s), cnt=Int('cnt'+s),
   edge=Array('edge'+s,IntSort(),Ed), top=Array('top'+s,IntSort(),Nm), mid=Array('mid'+s,IntSort(),IntSort()),
   gstart=Array('gstart'+s,IntSort(),IntSort()), gpos=Array('gpos'+s,IntSort(),IntSort()))
# ghost: gstart[m] = column offset where motif m starts; gpos[m] = stub position of motif m
m0=Int('m0'); off0=Int('off0')  # values at loop entry (motifs/offset contributed by earlier topologies)
p=Int('p'); q=Int('q')
def inv(S):
    return And(size>0, L>=0, L%size==0, S['pos']>=0, S['pos']<=L, S['cnt']*size==S['pos'], S['m']==m0+S['cnt'], S['cnt']>=0,
      S['off']>=off0, m0>=0, off0>=0,
      ForAll([q], Implies(And(m0<=q,q<S['m']), And(off0<=S['gstart'][q], S['gstart'][q]+nb(S['gpos'][q])<=S['off'], S['gpos'][q]==(q-m0)*size))),
      ForAll([q], Implies(And(m0<=q,q+1<S['m']), S['gstart'][q+1]==S['gstart'][q]+nb(S['gpos'][q]))),
      Implies(S['m']>m0, And(S['gstart'][m0]==off0, S['gstart'][S['m']-1]+nb(S['gpos'][S['m']-1])==S['off'])),
      Implies(S['m']==m0, S['off']==off0),
      ForAll([p], Implies(And(off0<=p,p<S['off']), And(m0<=S['mid'][p], S['mid'][p]<S['m'],
            S['gstart'][S['mid'][p]]<=p, p<S['gstart'][S['mid'][p]]+nb(S['gpos'][S['mid'][p]]),
            S['edge'][p]==be(S['gpos'][S['mid'][p]], p-S['gstart'][S['mid'][p]]), S['top'][p]==name))))
S=st('A')
# body: es = build(kl[pos:pos+size]) -> n=nb(pos) >=0 ; extend three columns by n; id=m; m+=1; pos+=size; cnt+=1
n=nb(S['pos'])
T=st('B')
t=Int('t')
body=[n>=0, T['off']==S['off']+n, T['m']==S['m']+1, T['pos']==S['pos']+size, T['cnt']==S['cnt']+1,
  ForAll([p], Implies(p<S['off'], And(T['edge'][p]==S['edge'][p],T['top'][p]==S['top'][p],T['mid'][p]==S['mid'][p]))),
  ForAll([p], Implies(And(S['off']<=p,p<T['off']), And(T['edge'][p]==be(S['pos'],p-S['off']),T['top'][p]==name,T['mid'][p]==S['m']))),
  T['gstart']==Store(S['gstart'],S['m'],S['off']), T['gpos']==Store(S['gpos'],S['m'],S['pos'])]
prove('gen.inner.preserve', [inv(S), S['pos']<L]+body, inv(T), 60000)
