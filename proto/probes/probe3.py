import random, itertools, collections
import networkx as nx
exec(open('/tmp/scratch/probe2.py').read().split("import sys")[0])
fails = collections.Counter(); first={}
rng = random.Random(5)
tot=0
for trial in range(3000):
    n = rng.randint(4,10)
    p = rng.choice([0.3,0.5,0.7,0.9])
    G = nx.gnp_random_graph(n,p,seed=rng.randint(0,10**9))
    G.remove_nodes_from(list(nx.isolates(G)))
    es = list(G.edges()); rng.shuffle(es)
    es = [e if rng.random()<0.5 else (e[1],e[0]) for e in es]
    if not es: continue
    for m0 in (2,3,4):
        tot+=1
        r = check(es,m0,trial)
        if r:
            k=(m0,r.split()[0]); fails[k]+=1
            if k not in first or len(es)<len(first[k][0]): first[k]=(es,m0,trial,r)
print(tot, dict(fails))
for k,v in first.items(): print(k, v)
