import itertools, sys
import networkx as nx
sys.path.insert(0,'/tmp/scratch')
from poly import Poly
from gcmpy.message_passing.equations.automated_equation import AutomatedEquation
from gcmpy.message_passing.equations.clique_equation import clique_equation
from gcmpy.message_passing.equations.chordless_cycle_equation import chordless_cycle_equation

def brute(G, root, p, u):
    es=list(G.edges()); tot=Poly.const(0)
    for mask in range(1<<len(es)):
        H=nx.Graph(); H.add_nodes_from(G.nodes())
        w=Poly.const(1)
        for i,e in enumerate(es):
            if mask>>i&1: H.add_edge(*e); w=w*p
            else: w=w*(1-p)
        comp=nx.node_connected_component(H,root)
        for n in comp:
            if n!=root: w=w*u[n]
        tot=tot+w
    return tot

p=Poly.var('p')
AE=AutomatedEquation()
cnt=0;bad=0
from networkx.generators.atlas import graph_atlas_g
for G in graph_atlas_g():
    if G.number_of_nodes()<2 or G.number_of_nodes()>5 or not nx.is_connected(G): continue
    for root in G.nodes():
        H=nx.Graph(name=f"g{cnt}"); H.add_edges_from(G.edges())
        u={n:Poly.var(f'u{n}') for n in H.nodes()}
        nx.set_node_attributes(H,u,"u")
        got=AE.automated_equation(H,p,root)
        exp=brute(H,root,p,u)
        cnt+=1
        if not (got==exp): bad+=1; print("MISMATCH",list(G.edges()),root)
print("automated",cnt,bad)
for tau in range(2,7):
    Hs=[Poly.var(f'h{i}') for i in range(tau-1)]
    got=clique_equation(tau,p,Hs)
    K=nx.complete_graph(tau); u={i+1:Hs[i] for i in range(tau-1)}; u[0]=Poly.const(1)
    exp=brute(K,0,p,u) if tau<=5 else None
    print("clique",tau, got==exp if exp is not None else "skip")
uu=Poly.var('u')
for n in range(3,8):
    got=chordless_cycle_equation(n,uu,p)
    C=nx.cycle_graph(n); exp=brute(C,0,p,{i:uu for i in range(n)})
    print("cycle",n,got==exp)
