import re
src = open('/repo/gcmpy/covers/eecc.py').read()
assert "set(tuple(row) for row in C)" in src
src2 = src.replace("set(tuple(row) for row in C)", "set(tuple(sorted(row)) for row in C)")
import gcmpy.covers.eecc as m
exec(compile(src2, '/repo/gcmpy/covers/eecc.py', 'exec'), m.__dict__)
import gcmpy.covers
gcmpy.covers.eecc.EECC = m.EECC
code = open('/tmp/scratch/probe3.py').read().replace("from gcmpy.covers.eecc import EECC","EECC = m.EECC")
code2 = open('/tmp/scratch/probe2.py').read().split("import sys")[0].replace("from gcmpy.covers.eecc import EECC","EECC = m.EECC")
exec(code2)
exec(code.split("\n",3)[3].replace("range(3000)","range(6000)"))
