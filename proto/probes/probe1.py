import random, traceback
import networkx as nx
from gcmpy import *
from gcmpy.names.gcm_algorithm_names import GCMAlgorithmNames as GN
from gcmpy.names.joint_degree_names import JointDegreeNames as JN

def section(s): print("\n=== "+s)

section("C02 custom motifs bare edge")
def two(vs): return (vs[0], vs[1])
def two_names(): return "2-clique"
p={GN.MOTIF_SIZES:[2],GN.EDGE_NAMES:[two_names],GN.BUILD_FUNCTIONS:[two],GN.MOTIF_INDICES:[[0]]}
el=GCMAlgorithmCustomMotifs(p).random_clustered_graph([(1,),(1,),(1,),(1,)])
print(el.edge_list, el.topologies, el.motif_id)
def path3(vs): return [(vs[0],vs[1]),(vs[1],vs[2])]
def path3_names(): return ["pa","pb"]
p={GN.MOTIF_SIZES:[3],GN.EDGE_NAMES:[path3_names],GN.BUILD_FUNCTIONS:[path3],GN.MOTIF_INDICES:[[0]]}
el=GCMAlgorithmCustomMotifs(p).random_clustered_graph([(1,),(1,),(1,)])
print(el.edge_list, el.topologies, el.motif_id)

section("C02 fast bare edge")
p={GN.MOTIF_SIZES:[2],GN.EDGE_NAMES:["2c"],GN.BUILD_FUNCTIONS:[two]}
el=GCMAlgorithmFast(p).random_clustered_graph([(1,),(1,)])
print(el.edge_list, el.topologies, el.motif_id)

section("C04 zero-degree vertices")
p={GN.MOTIF_SIZES:[2],GN.EDGE_NAMES:["2c"],GN.BUILD_FUNCTIONS:[clique_motif]}
net=GCMAlgorithmNetwork(p).random_clustered_graph([(1,),(0,),(1,)])
print(sorted(net.G.nodes(data=True)), list(net.G.edges(data=True)))
try:
    print(NetworkToEdgeList.convert(net).joint_degrees)
except Exception as e: print("reverse raised", repr(e))

section("C05 handshake returns lists")
jd=JointDegreeManual({JN.JDD:{(1,):1.0}, JN.MOTIF_SIZES:[2]})
random.seed(1); print(jd.sample_jds_from_jdd(3))

section("C06 function loader")
try:
    JointDegreeFunction({JN.MOTIF_SIZES:[2],JN.FP:lambda jd:1.0,JN.LOW_HIGH_DEGREE_BOUND:[(0,2)]})
except Exception as e: print("raised", repr(e))
section("C19 poisson")
try: print(poisson(2.0)(1))
except Exception as e: print("raised", repr(e))

section("C07 split degree")
sd=JointDegreeSplitDegree({JN.FP:lambda k: 1.0/(k+1), JN.PROBS:[0.5,0.5], JN.MOTIF_SIZES:[2,3], JN.LOW_HIGH_DEGREE_BOUND:(1,5)})
print(sd.jdd)
dl=JointDegreeDelta({JN.TARGET_K:3, JN.FP:lambda k: 1.0/(k+1), JN.PROBS:[0.5,0.5], JN.MOTIF_SIZES:[2,3], JN.LOW_HIGH_DEGREE_BOUND:(1,6)})
print(dl.jdd)

section("C08 cover loader")
try:
    c=JointDegreeCover({JN.COVER:[[0,1],[1,2,3]]}); print(c.jdd, c.motif_sizes)
except Exception as e: print("raised", repr(e))

section("C13 repeated get_ejks")
p={GN.MOTIF_SIZES:[2],GN.EDGE_NAMES:["2c"],GN.BUILD_FUNCTIONS:[clique_motif]}
net=GCMAlgorithmNetwork(p).random_clustered_graph([(1,),(1,),(1,),(1,)])
J=JointExcessJointDegree({ToolsNames.NETWORK:net.G, ToolsNames.EDGE_NAMES:["2c"]})
print(J.get_ejks().ejks); print(J.get_ejks().ejks)

section("C14 inversion with other names")
jdd={(1,0):0.25,(2,1):0.5,(0,1):0.25}
qks=JointExcessfromJDD.get_joint_excess_distributions(jdd)
for names in (["2-clique","3-clique"],["a","b"]):
    try:
        print(JointDegreeFromExcess.get_joint_degree_distribution(JointExcessfromJDD.convert_list_qks_to_dict(qks,names),names))
    except Exception as e: print(names,"raised",repr(e))

section("C11 default convergence limit")
try:
    MarkovChainMonteCarloRewiring({ToolsNames.NETWORK:net, ToolsNames.EJKS:JointExcessJointDegreeMatrices()})
except Exception as e: print("raised", repr(e)[:200])
