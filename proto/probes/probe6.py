import gcmpy.tools.markov_chain_monte_carlo_rewiring as M
src = open(M.__file__).read()
a = "self.append_proposal_edges(G, u0, e0, (u0, self.get_other_vertex(v0, e1)))"
b = "self.append_proposal_edges(G, v0, e1, (v0, self.get_other_vertex(u0, e0)))"
assert a in src and b in src
src = src.replace(a, "self.append_proposal_edges(G, u0, e1, (u0, self.get_other_vertex(v0, e1)))")
src = src.replace(b, "self.append_proposal_edges(G, v0, e0, (v0, self.get_other_vertex(u0, e0)))")
c = "                if G.has_edge(u0, v1) or G.has_edge(v0, u1):"
assert c in src
src = src.replace(c, "                if u0 == v1 or v0 == u1 or G.has_edge(u0, v1) or G.has_edge(v0, u1):")
exec(compile(src, M.__file__, 'exec'), M.__dict__)
import gcmpy
gcmpy.MarkovChainMonteCarloRewiring = M.MarkovChainMonteCarloRewiring
exec(open('/tmp/scratch/probe5.py').read())
