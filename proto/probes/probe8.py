import random, itertools, collections, ast
import networkx as nx
from gcmpy.covers.mpcc import MPCC
def check(G0, max_size, seed):
    random.seed(seed)
    G = G0.copy()
    R = MPCC(G, max_size)
    if R is not G: return "not same object"
    if set(R.nodes())!=set(G0.nodes()) or {frozenset(e) for e in R.edges()}!={frozenset(e) for e in G0.edges()}: return "graph changed"
    groups = collections.defaultdict(set)
    for u,v,d in R.edges(data=True):
        if 'clique' not in d: return f"unlabelled {u,v}"
        groups[d['clique']].add(frozenset((u,v)))
    ids=set(); cover=[]
    for lab, es in groups.items():
        size, members, ID = lab.split('-')
        members = ast.literal_eval(members)
        if int(size)!=len(members): return "size mismatch"
        if max_size>0 and len(members)>max_size: return "limit"
        if es != {frozenset(p) for p in itertools.combinations(members,2)}: return f"label edges mismatch {lab} {es}"
        if ID in ids: return "dup id"
        ids.add(ID); cover.append(members)
    edge_owner = {}
    for c in cover:
        for p in itertools.combinations(c,2): edge_owner[frozenset(p)] = len(c)
    for K in nx.enumerate_all_cliques(G0):
        if len(K)<2: continue
        if max_size>0 and len(K)>max_size: continue
        if not any(edge_owner[frozenset(p)]>=len(K) for p in itertools.combinations(K,2)): return f"greedy-maximal fails {K}"
    return None
from networkx.generators.atlas import graph_atlas_g
bad=collections.Counter(); tot=0
for G in graph_atlas_g():
    if G.number_of_nodes()>6 or G.number_of_edges()==0: continue
    for ms in (0,2,3,4):
        for seed in range(2):
            tot+=1
            r=check(G,ms,seed)
            if r: bad[r.split()[0]]+=1; print(list(G.edges()),ms,r) if bad[r.split()[0]]<3 else None
print(tot,dict(bad))
