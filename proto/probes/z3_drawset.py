import time
from z3 import *
E = DeclareSort('Elem')
def state(s):
    return dict(n=Int(f'n{s}'), ed=Array(f'ed{s}', IntSort(), E), pres=Array(f'pr{s}', E, BoolSort()), idx=Array(f'ix{s}', E, IntSort()))
def inv(S):
    i=Int('i'); e=Const('e',E)
    return And(S['n']>=0,
        ForAll([i], Implies(And(0<=i,i<S['n']), And(S['pres'][S['ed'][i]], S['idx'][S['ed'][i]]==i))),
        ForAll([e], Implies(S['pres'][e], And(0<=S['idx'][e], S['idx'][e]<S['n'], S['ed'][S['idx'][e]]==e))))
def prove(name, hyp, goal):
    s=Solver(); s.set(timeout=10000); s.add(hyp); s.add(Not(goal))
    t=time.time(); r=s.check(); print(name, 'PROVED' if r==unsat else r, f'{time.time()-t:.3f}s')
    if r==sat: print(s.model())
S=state(0); x=Const('x',E)
# add: if x in hashmap: return ; edges.append(x); hashmap[x]=len(edges)-1
n1=S['n']+1; ed1=Store(S['ed'],S['n'],x); pres1=Store(S['pres'],x,True); idx1=Store(S['idx'],x,n1-1)
S1=dict(n=n1,ed=ed1,pres=pres1,idx=idx1)
e=Const('e',E)
prove('add.absent.inv', [inv(S), Not(S['pres'][x])], inv(S1))
prove('add.absent.view', [inv(S), Not(S['pres'][x])], ForAll([e], S1['pres'][e]==Or(S['pres'][e], e==x)))
prove('add.absent.len', [inv(S), Not(S['pres'][x])], S1['n']==S['n']+1)
# remove present: position = hashmap.pop(x); last = edges.pop(); if position != len(edges): edges[position]=last; hashmap[last]=position
pos=S['idx'][x]; pres_a=Store(S['pres'],x,False); n2=S['n']-1; last=S['ed'][n2]
ed_b=If(pos!=n2, Store(S['ed'],pos,last), S['ed']); pres_b=If(pos!=n2, Store(pres_a,last,True), pres_a); idx_b=If(pos!=n2, Store(S['idx'],last,pos), S['idx'])
S2=dict(n=n2,ed=ed_b,pres=pres_b,idx=idx_b)
prove('remove.present.inv', [inv(S), S['pres'][x]], inv(S2))
prove('remove.present.view', [inv(S), S['pres'][x]], ForAll([e], S2['pres'][e]==And(S['pres'][e], e!=x)))
prove('remove.pop_nonempty', [inv(S), S['pres'][x]], S['n']>0)
# mutated: drop "if position != len" guard => always store
S3=dict(n=n2,ed=Store(S['ed'],pos,last),pres=Store(pres_a,last,True),idx=Store(S['idx'],last,pos))
prove('MUT remove.noguard.view', [inv(S), S['pres'][x]], ForAll([e], S3['pres'][e]==And(S['pres'][e], e!=x)))
# draw: random.choice(edges) -> ed[k], 0<=k<n ; result is member; every member drawable
k=Int('k')
prove('draw.member', [inv(S), 0<=k, k<S['n']], S['pres'][S['ed'][k]])
prove('draw.all', [inv(S), S['pres'][x]], Exists([k], And(0<=k,k<S['n'],S['ed'][k]==x)))
# iteration yields each member exactly once: ed injective on [0,n)
i,j=Ints('i j')
prove('iter.once', [inv(S), 0<=i,i<j,j<S['n']], S['ed'][i]!=S['ed'][j])
