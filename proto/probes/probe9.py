import random, itertools, collections
import networkx as nx
from gcmpy.message_passing.message_passing import MessagePassing

def label_net(motifs):
    """motifs: list of (vertices list, edges list)"""
    G=nx.Graph()
    for ID,(vs,es) in enumerate(motifs):
        for (a,b) in es:
            G.add_edge(a,b,CoverLabel=f"{len(vs)}-{vs}-{es}-{ID}".replace(" ",""))
    return G

def brute_expect(vs, es, root, phi, u):
    tot=0.0
    for mask in range(1<<len(es)):
        H=nx.Graph(); H.add_nodes_from(vs); w=1.0
        for i,e in enumerate(es):
            if mask>>i&1: H.add_edge(*e); w*=phi
            else: w*=(1-phi)
        for n in nx.node_connected_component(H,root):
            if n!=root: w*=u[n]
        tot+=w
    return tot

def reference(motifs, phi, iters, G):
    member=collections.defaultdict(list)
    for ID,(vs,es) in enumerate(motifs):
        for v in vs: member[v].append(ID)
    H={(v,ID):0.5 for ID,(vs,es) in enumerate(motifs) for v in vs}
    # same sweep order as implementation: edges of G, endpoints i then j
    for _ in range(iters):
        for i,j,d in G.edges(data=True):
            ID=int(d['CoverLabel'].split('-')[-1]); vs,es=motifs[ID]
            for focal in (i,j):
                u={}
                for x in vs:
                    if x==focal: continue
                    pr=1.0
                    for ID2 in member[x]:
                        if ID2!=ID: pr*=H[(x,ID2)]
                    u[x]=pr
                H[(focal,ID)]=brute_expect(vs,es,focal,phi,u)
    s=0.0
    for v in G.nodes():
        pr=1.0
        for ID in member[v]: pr*=H[(v,ID)]
        s+=pr
    return 1-s/G.order()

tri=lambda a,b,c:([a,b,c],[(a,b),(a,c),(b,c)])
edge=lambda a,b:([a,b],[(a,b)])
sq=lambda a,b,c,d:([a,b,c,d],[(a,b),(b,c),(c,d),(d,a)])
dia=lambda a,b,c,d:([a,b,c,d],[(a,b),(b,c),(c,d),(d,a),(a,c)])
nets=[
 [tri(0,1,2),tri(2,3,4),edge(4,5),edge(0,6)],
 [sq(0,1,2,3),tri(3,4,5),edge(5,6),dia(6,7,8,9),edge(1,10)],
 [edge(0,1),edge(1,2),edge(2,3),tri(3,4,5),tri(5,6,0)],
]
for motifs in nets:
    G=label_net(motifs)
    mp=MessagePassing(G,iterations=25)
    prev=-1
    vals=[]
    for phi in [0,0.1,0.3,0.5,0.7,0.9,1.0]:
        got=mp.theoretical(phi); ref=reference(motifs,phi,25,G)
        vals.append(got)
        print(phi, got, ref, abs(got-ref)<1e-12)
    # history independence
    mp2=MessagePassing(G,iterations=25)
    print("hist", [mp2.theoretical(p) for p in [1.0,0.5,0.1,0.5]][-1]==vals[3], vals==sorted(vals), all(0<=v<=1 for v in vals))
