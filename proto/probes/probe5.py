import random, itertools, collections, sys
import networkx as nx
from gcmpy import *
from gcmpy.names.gcm_algorithm_names import GCMAlgorithmNames as GN
from gcmpy.names.network_names import NetworkNames as NN
import gcmpy.tools.markov_chain_monte_carlo_rewiring as M

def make_clean(n, seed):
    rng = random.Random(seed)
    # sample jds until clean network
    for attempt in range(1000):
        random.seed(rng.randint(0,10**9))
        jdd = JointDegreeManual({JointDegreeNames.JDD:{(1,0):.2,(2,1):.3,(1,1):.3,(3,0):.1,(0,2):.1}, JointDegreeNames.MOTIF_SIZES:[2,3]})
        jds = [tuple(x) for x in jdd.sample_jds_from_jdd(n)]
        p={GN.MOTIF_SIZES:[2,3],GN.EDGE_NAMES:["2-clique","3-clique"],GN.BUILD_FUNCTIONS:[clique_motif,clique_motif]}
        el = GCMAlgorithmFast(p).random_clustered_graph(jds)
        # clean: no self loops, no multi-edges
        s=set(); ok=True
        for (a,b) in el.edge_list:
            if a==b or frozenset((a,b)) in s: ok=False;break
            s.add(frozenset((a,b)))
        if ok and all(sum(jd)>0 for jd in jds):
            return EdgeListToNetwork.convert(el)
    raise RuntimeError

def struct(G):
    selfloops = sum(1 for u,v in G.edges() if u==v)
    motifs = collections.defaultdict(list)
    for u,v,d in G.edges(data=True): motifs[d[NN.MOTIF_IDS]].append((u,v,d[NN.TOPOLOGY]))
    bad=0
    for mid, es in motifs.items():
        top = es[0][2]
        vs = {x for e in es for x in e[:2]}
        if top=="2-clique": ok = len(es)==1 and len(vs)==2
        else: ok = len(es)==3 and len(vs)==3
        if not ok: bad+=1
    # per-vertex per-topology degrees
    deg = collections.Counter()
    for u,v,d in G.edges(data=True):
        deg[(u,d[NN.TOPOLOGY])]+=1; deg[(v,d[NN.TOPOLOGY])]+=1
    return selfloops, bad, deg

def target_full(G):
    J=JointExcessJointDegree({ToolsNames.NETWORK:G, ToolsNames.EDGE_NAMES:["2-clique","3-clique"]})
    e=J.get_ejks()
    # full support uniform target over keys
    ej={}
    for t in e.ejks:
        ks=e.excess_degree_keys[t]
        ej[t]={a+b:1.0/len(ks)**2 for a in ks for b in ks}
    return JointExcessJointDegreeMatrices({ToolsNames.EJKS:ej, ToolsNames.EDGE_NAMES:["2-clique","3-clique"]})

tot=collections.Counter()
for seed in range(30):
    net = make_clean(40, seed)
    s0 = struct(net.G)
    tgt = target_full(net.G)
    mc = MarkovChainMonteCarloRewiring({ToolsNames.NETWORK:net, ToolsNames.EJKS:tgt, ToolsNames.CONVERGENCE_LIMIT:100, ToolsNames.SEARCH_LIMIT:20})
    random.seed(seed)
    try:
        G = mc.rewire()
    except Exception as e:
        tot['raise:'+type(e).__name__]+=1; continue
    s1 = struct(G)
    tot['selfloops']+=s1[0]; tot['badmotifs']+=s1[1]; tot['degchanged']+= (s0[2]!=s1[2]); tot['runs']+=1
    tot['edges_changed'] += G.number_of_edges()!=net.G.number_of_edges()
print(dict(tot))
