import time
from z3 import *
def prove(name, hyp, goal, to=20000):
    s=Solver(); s.set(timeout=to); s.add(hyp); s.add(Not(goal))
    t=time.time(); r=s.check(); print(name, 'PROVED' if r==unsat else r, f'{time.time()-t:.3f}s'); return r
# omega: r = tau-kappa-1 ; summation=sum_{v=1..r}(tau-v) ; return summation - 0.5 r (r-1)
tau,kap,r,v=Ints('tau kappa r v'); s=Real('s')
inv=lambda v_,s_: And(1<=v_, v_<=r+1, 2*s_==2*(v_-1)*tau-(v_-1)*v_)
prove('omega.entry',[r==tau-kap-1,r>=0,tau>=2], inv(IntVal(1),RealVal(0)))
prove('omega.preserve',[r==tau-kap-1,r>=0,inv(v,s),v<r+1], inv(v+1,s+ToReal(tau-v)))
prove('omega.post',[r==tau-kap-1,r>=0,inv(v,s),Not(v<r+1)], s-0.5*ToReal(r)*ToReal(r-1)==ToReal((tau-kap-1)*(kap+1)))
# C05: inner loop count = size - c%size when c%size!=0 ; final divisible and minimal
c,size=Ints('c size')
d=If(c%size!=0, size-c%size, 0)
prove('c05.div',[size>=1,c>=0],(c+d)%size==0)
prove('c05.min',[size>=1,c>=0],And(0<=d,d<size))
# C07 completeness step: valid row d of length T with W=R, last=i  => 0<=i<=R div T
# W(d,T)=W(d,T-1)+T*d[T-1], W>=0 lemma
W=Function('W',ArraySort(IntSort(),IntSort()),IntSort(),IntSort())
dd=Const('dd',ArraySort(IntSort(),IntSort())); T,R,n=Ints('T R n')
b=Const('b',ArraySort(IntSort(),IntSort()))
defW=[ForAll([b,n],Implies(n<=0,W(b,n)==0),patterns=[W(b,n)]),ForAll([b,n],Implies(n>0,W(b,n)==W(b,n-1)+n*b[n-1]),patterns=[W(b,n)])]
nonneg=lambda n_: Implies(ForAll([v],Implies(And(0<=v,v<n_),dd[v]>=0)), W(dd,n_)>=0)
prove('c07.Wnonneg.base',defW,nonneg(IntVal(0)))
prove('c07.Wnonneg.step',defW+[n>=0,nonneg(n)],nonneg(n+1))
LW=ForAll([b,n],Implies(ForAll([v],Implies(And(0<=v,v<n),b[v]>=0)),W(b,n)>=0),patterns=[W(b,n)])
prove('c07.complete.bound',defW+[LW,T>=2,R>=0,ForAll([v],Implies(And(0<=v,v<T),dd[v]>=0)),W(dd,T)==R], And(dd[T-1]>=0, T*dd[T-1]<=R, W(dd,T-1)==R-T*dd[T-1]),60000)
i=Int('i')
prove('c07.range', [T>=2,R>=0,i>=0,T*i<=R], i<=R/T)
