import time
from z3 import *
def prove(name, hyp, goal, to=30000):
    res=None
    for cfg in ({"smt.mbqi":False,"smt.auto_config":False},{}):
        s=Solver(); s.set(timeout=to)
        for k,v in cfg.items(): s.set(k,v)
        s.add(hyp); s.add(Not(goal)); t=time.time(); r=s.check()
        if r==unsat: print(name,'PROVED',f'{time.time()-t:.3f}s',"ematch" if cfg else "default"); return r
        res=r
    print(name,res); return res
Nm=DeclareSort('Nm')
# edge list: arrays of endpoints
U=Array('U',IntSort(),IntSort()); V=Array('V',IntSort(),IntSort()); names=Array('names',IntSort(),Nm)
n,N=Ints('n N'); i,j,u,v,x=Ints('i j u v x')
# graph after add_edges_from on empty graph (library contract):
nodes=Function('nodes',IntSort(),BoolSort()); adj=Function('adj',IntSort(),IntSort(),BoolSort())
LIB_add=[ForAll([u,v], adj(u,v)==Exists([i],And(0<=i,i<n,Or(And(U[i]==u,V[i]==v),And(U[i]==v,V[i]==u))))),
         ForAll([x], nodes(x)==Exists([i],And(0<=i,i<n,Or(U[i]==x,V[i]==x))))]
# dict topologies after the zip loop (loop postcondition, proved separately as in z3_c04.py): keyed by ordered pair
dom=Function('dom',IntSort(),IntSort(),BoolSort()); val=Function('val',IntSort(),IntSort(),Nm)
LOOP=[ForAll([u,v], dom(u,v)==Exists([i],And(0<=i,i<n,U[i]==u,V[i]==v))),
      ForAll([i], Implies(And(0<=i,i<n, ForAll([j],Implies(And(i<j,j<n),Not(And(U[j]==U[i],V[j]==V[i]))))), val(U[i],V[i])==names[i]))]
# set_edge_attributes contract: attribute of unordered pair
eat=Function('eat',IntSort(),IntSort(),Nm); has=Function('has',IntSort(),IntSort(),BoolSort())
LIB_set=[ForAll([u,v], has(u,v)==And(adj(u,v),Or(dom(u,v),dom(v,u)))),
         ForAll([u,v], Implies(has(u,v), Or(And(dom(u,v),eat(u,v)==val(u,v)),And(dom(v,u),eat(u,v)==val(v,u))))),
         ForAll([u,v], eat(u,v)==eat(v,u))]
pre=[n>=0, ForAll([i],Implies(And(0<=i,i<n),And(0<=U[i],U[i]<N,0<=V[i],V[i]<N)))]
H=pre+LIB_add+LOOP+LIB_set
# post 1: edge exists iff pair occurs
prove('c04.adj', H, ForAll([u,v], adj(u,v)==Exists([i],And(0<=i,i<n,Or(And(U[i]==u,V[i]==v),And(U[i]==v,V[i]==u))))))
# post 2: pair occurring once (as unordered pair) carries that entry's name
once=lambda i_: ForAll([j],Implies(And(0<=j,j<n,j!=i_), Not(Or(And(U[j]==U[i_],V[j]==V[i_]),And(U[j]==V[i_],V[j]==U[i_])))))
prove('c04.attr_once', H+[0<=i,i<n,once(i)], And(has(U[i],V[i]), eat(U[i],V[i])==names[i]))
# post 3 (pinned tree): nodes == 0..N-1  -- must FAIL without add_nodes_from
s=Solver(); s.add(H); s.add(N>=1); s.add(Not(ForAll([x],nodes(x)==And(0<=x,x<N)))); s.set(timeout=20000); print('c04.nodes(pinned)', s.check())
# with the fix: nodes' = nodes ∪ range(N)
nodes2=Function('nodes2',IntSort(),BoolSort())
FIX=[ForAll([x],nodes2(x)==Or(nodes(x),And(0<=x,x<N)))]
prove('c04.nodes(fixed)', H+FIX, ForAll([x],nodes2(x)==And(0<=x,x<N)))
