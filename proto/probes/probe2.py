import random, itertools, collections
import networkx as nx
from gcmpy.covers.eecc import EECC
import gcmpy.covers.eecc as eecc_mod

def check(edges, m0, seed):
    random.seed(seed)
    g = EECC(); g.set_max_clique_size(m0); g.add_edges_from(edges)
    G0 = g.G.copy()
    try:
        cover = g.get_EECC()
    except Exception as e:
        return "raise "+repr(e)
    cnt = collections.Counter()
    for c in cover:
        if not (2 <= len(c) <= m0): return f"size {c}"
        if len(set(c)) != len(c): return f"dupvert {c}"
        for a,b in itertools.combinations(c,2):
            if not G0.has_edge(a,b): return f"notclique {c}"
            cnt[frozenset((a,b))]+=1
    for e in G0.edges():
        if cnt[frozenset(e)] != 1: return f"edge {e} covered {cnt[frozenset(e)]} cover={cover}"
    if g.has_edges(): return "edges left"
    # intact maximal cliques
    mc = [sorted(c) for c in nx.find_cliques(G0)]
    for K in mc:
        if len(K) <= m0:
            shares = any(len(set(K)&set(K2))>=2 for K2 in mc if K2 is not K)
            if not shares and sorted(K) not in [sorted(c) for c in cover]:
                return f"maximal {K} not intact"
    return None

def all_graphs(n):
    pairs = list(itertools.combinations(range(n),2))
    for mask in range(1, 1<<len(pairs)):
        es = [pairs[i] for i in range(len(pairs)) if mask>>i&1]
        if len({v for e in es for v in e}) != n: continue
        yield es

import sys
fails = collections.Counter(); first={}
tot=0
for n in range(2,6):
    for es in all_graphs(n):
        for m0 in range(2,n+2):
            for seed in range(3):
                tot+=1
                r = check(es,m0,seed)
                if r:
                    k=(n,m0,r.split()[0])
                    fails[k]+=1
                    first.setdefault(k,(es,m0,seed,r))
print(tot, dict(fails))
for k,v in first.items(): print(k, v)
