import sys, time, z3, multiprocessing as mp, subprocess, tempfile, os
sys.path.insert(0, '/root/vf-proto')
from vf.world import World
from vf.symexec import FnExec
def work(args):
    name, smt, opts = args
    s = z3.Solver(); s.set("timeout", 60000); s.set("rlimit", 20_000_000)
    for k, v in opts.items(): s.set(k, v)
    s.from_string(smt); t = time.time(); r = s.check()
    return name, str(r), time.time() - t
if __name__ == "__main__":
    import contracts.gen_fast as C
    w = World('/repo', 'gcmpy/gcm_algorithm/gcm_algorithm_fast.py')
    w.classes, w.funcs, w.types, w.specfuns = C.CLASSES, C.FUNCS, C.TYPES, C.SPECFUNS
    w.axioms = list(C.AXIOMS); w.call_patterns = C.PATTERNS; w.loop_patterns = C.LOOP_PATTERNS
    t = time.time(); ex = FnExec(w, "GCMAlgorithmFast.random_clustered_graph"); obs = [o for o in ex.run() if o.kind != "canary"]
    print(f"generated {len(obs)} obligations in {time.time()-t:.2f}s")
    t = time.time(); jobs = [(o.name, o.smt2(), {"smt.mbqi": False, "smt.auto_config": False}) for o in obs]
    print(f"serialised in {time.time()-t:.2f}s, {sum(len(j[1]) for j in jobs)//1024} KiB")
    t = time.time()
    with mp.Pool(16) as p: res = p.map(work, jobs)
    print(f"pool: {time.time()-t:.2f}s", {r: sum(1 for x in res if x[1] == r) for r in set(x[1] for x in res)}, "slowest", max(res, key=lambda x: x[2])[::2])
    # cvc5 on the slowest and on a few others
    slow = max(res, key=lambda x: x[2])[0]
    for o in obs:
        if o.name == slow or o.name.endswith("ensures.columns_parallel") or o.name.endswith("loop2.preserve.par2"):
            f = tempfile.NamedTemporaryFile("w", suffix=".smt2", delete=False); f.write("(set-logic ALL)\n" + o.smt2()); f.close()
            t = time.time(); out = subprocess.run(["cvc5", "--tlimit=60000", f.name], capture_output=True, text=True); os.unlink(f.name)
            print("cvc5", o.name.split(":")[1], out.stdout.strip()[:40], out.stderr.strip()[:120], f"{time.time()-t:.2f}s")
