import sys, importlib
sys.path.insert(0, '/root/vf-proto')
from vf2.spec import Registry
from vf2 import lib, idioms
from vf2.driver import verify
if __name__ == "__main__":
    modname, qual = sys.argv[1], sys.argv[2]; repo = sys.argv[3] if len(sys.argv) > 3 else '/repo'
    reg = Registry(repo); lib.install(reg); idioms.install(reg)
    importlib.import_module(f"c2.{modname}").build(reg)
    verify(reg, [qual], rlimit=8_000_000, timeout_ms=30000)
