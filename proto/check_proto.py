"""End-to-end prototype of `./check C20 --tier quick`: proof obligations + bounded stand-in + evidence + VIOLATION/replay."""
import sys, os, json, time, hashlib, ast, importlib, importlib.util, subprocess
sys.path.insert(0, '/root/vf-proto')
from vf2.spec import Registry
from vf2 import lib, idioms
from vf2.driver import verify, counter_models
from vf2.solve import ok
from vf2.reify import reify_entry
def main():
    pid, repo, outdir = "C20", os.environ.get("VF_REPO", "/repo"), sys.argv[1]
    tier = os.environ.get("VERIF_TIER", "quick"); seed = int(os.environ.get("VERIF_SEED", "0")); t0 = time.time()
    reg = Registry(repo); lib.install(reg); idioms.install(reg)
    quals = importlib.import_module("c2.draw_set").build(reg)
    obs, undecided, th = verify(reg, quals, verbose=False, rlimit=5_000_000, timeout_ms=20000)
    real = [o for o in obs if o.kind != "canary"]; canaries = [o for o in obs if o.kind == "canary"]
    violations = []
    failed = [o for o in real if not ok(o)]
    vacuous = [o for o in canaries if not ok(o)]
    if failed:
        cms = counter_models(reg, quals, {o.name for o in failed if o.status == "unknown"}, B=2)
        for o in failed:
            model_entry = None
            if o.status == "refuted":
                # re-solve in process to get the model object
                import z3
                s = z3.Solver(); s.add(*o.hyps); s.add(z3.Not(o.goal))
                if s.check() == z3.sat:
                    from vf2.sym import FnExec
                    # entry state of a fresh executor is not the same symbols; use the counter-model path instead
                    cm = counter_models(reg, quals, {o.name}, B=2).get(o.name)
                    if cm and cm[0] == "sat": model_entry = reify_entry(cm[2], cm[1])
            elif o.name in cms and cms[o.name][0] == "sat":
                model_entry = reify_entry(cms[o.name][2], cms[o.name][1])
            if o.status == "refuted" or model_entry is not None:
                violations.append((o, model_entry))
    # bounded stand-in (small slice here): the harness prototyped in bounded_drawset.py
    b = subprocess.run([sys.executable, "bounded_drawset.py", repo, "3"], capture_output=True, text=True, env={**os.environ, "PYTHONPATH": repo})
    bres = json.loads(b.stdout.strip().splitlines()[-1])
    os.makedirs(f"{outdir}/evidence", exist_ok=True); os.makedirs(f"{outdir}/replays/{pid}", exist_ok=True)
    lines = []
    for o, entry in violations:
        h = hashlib.sha256(o.name.encode()).hexdigest()[:10]; path = f"{outdir}/replays/{pid}/{h}.json"
        confirmed = bres["violation"]
        json.dump(dict(property=pid, obligation=o.name, line=o.loc, solver_status=o.status, model_entry=entry, concrete_failing_history=confirmed, smt2=o.smt2()[:2000]), open(path, "w"), indent=1, default=str)
        lines.append(f"VIOLATION property={pid} replay={path}" + ("" if (entry is not None or confirmed) else " no-failing-input-found"))
    if bres["violation"] and not violations:
        path = f"{outdir}/replays/{pid}/bounded.json"; json.dump(dict(property=pid, obligation="bounded", concrete_failing_history=bres["violation"]), open(path, "w"), indent=1)
        lines.append(f"VIOLATION property={pid} replay={path}")
    proved_all = not failed and not undecided and not vacuous
    fns = []
    for q in quals:
        m, _ = reg.fn(q); d = reg.find_def(m.relpath, q)
        fns.append(dict(function=q, file=m.relpath, lines=[d.lineno, d.end_lineno], ast_sha256=hashlib.sha256(ast.dump(d).encode()).hexdigest()[:16]))
    by = {}
    for o in real: by[o.backend or "none"] = by.get(o.backend or "none", 0) + 1
    ev = dict(property_id=pid, tier=tier, seed=seed, level="proof" if proved_all else "other", wall_s=round(time.time() - t0, 2), violations=len(lines),
      coverage=dict(obligations=len(real), discharged=sum(1 for o in real if ok(o)), checker_cmd="check_proto.py (z3 5.1 E-matching config, cvc5 1.0.3, z3 default)",
        trusted_base=["vf2 VC generator", "z3", "cvc5", "assumed library contracts: " + "; ".join(sorted(th.assumptions))],
        functions_under_contract=fns, backends=by, solver_seconds=round(sum(o.secs for o in real), 2), canaries=len(canaries), canaries_vacuous=len(vacuous),
        undecided=[o.name for o in real if o.status == "unknown"] + [q for q, _ in undecided],
        samples=[o.name for o in real[:5]], explanation="proof obligations over the real DrawSet source; bounded stand-in: histories of <=3 operations over 3 elements with all draw outcomes",
        evaluations=bres["runs"], distinct_nontrivial=bres["distinct"], rule="every operation history up to the bound; distinct = distinct (history, rng script)", exhaustive=True),
      assumptions=sorted(th.assumptions) + ["A-HASH: __eq__/__hash__ consistent", "M-CARD, M-SIM meta-lemmas"])
    json.dump(ev, open(f"{outdir}/evidence/{pid}.json", "w"), indent=1)
    for l in lines: print(l)
    print(f"{pid}: obligations={len(real)} discharged={ev['coverage']['discharged']} bounded_runs={bres['runs']} level={ev['level']} wall={ev['wall_s']}s")
    sys.exit(1 if lines else 0)
if __name__ == "__main__": main()
