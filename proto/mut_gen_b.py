import sys, os, shutil, tempfile, subprocess
src = open('/repo/gcmpy/gcm_algorithm/gcm_algorithm_fast.py').read()
muts = {
 "ids_plus1": ("EdgeList.motif_id.extend([id] * len(es))", "EdgeList.motif_id.extend([id] * (len(es) + 1))"),
 "name0": ("EdgeList.topologies.extend([self._edge_names[k]] * len(es))", "EdgeList.topologies.extend([self._edge_names[0]] * len(es))"),
 "size0": ("grouper(k_list, self._motif_sizes[k])", "grouper(k_list, self._motif_sizes[0])"),
 "names_short": ("[self._edge_names[k]] * len(es)", "[self._edge_names[k]] * (len(es) - 1)"),
 "benign_reorder": ("                # record the motif id\n                id = next(gen)\n                EdgeList.motif_id.extend([id] * len(es))\n", ""),
}
for name,(a,b) in [(k,v) for k,v in muts.items() if k=="benign_reorder"]:
    assert a in src, name
    s = src.replace(a,b)
    if name == "benign_reorder":
        s = s.replace("                EdgeList.edge_list.extend(es)\n", "                id = next(gen)\n                EdgeList.motif_id.extend([id] * len(es))\n                EdgeList.edge_list.extend(es)\n")
    d = tempfile.mkdtemp(prefix='vfm'); os.makedirs(d+'/gcmpy/gcm_algorithm'); open(d+'/gcmpy/gcm_algorithm/gcm_algorithm_fast.py','w').write(s)
    out = subprocess.run([sys.executable,'run_gen.py',d],capture_output=True,text=True)
    lines = out.stdout.strip().splitlines()
    fails=[l.strip() for l in lines if l.strip().startswith('FAIL') and 'canary' not in l]
    print(name, '->', lines[-1] if lines else out.stderr[-300:]); [print('     ',f) for f in fails[:6]]
    shutil.rmtree(d)
