import ast, z3
from vf.core import *
from vf.symexec import INT, NONE, BOOL
import contracts.joint_degree as JDm
JD, JDS, CS = JDm.JD, JDm.JDS, JDm.CS
Edge, Name, Fn = TElem("Edge"), TElem("Name"), TElem("Fn")
LInt, LEdge, LName, LFn = TList(INT), TList(Edge), TList(Name), TList(Fn)
LLInt = TList(LInt)
ARR = TArr(INT, INT)
TYPES = {"Edge": Edge, "Name": Name}
CLASSES = {
 "GCMAlgorithmFast": dict(fields={"_motif_sizes": LInt, "_edge_names": LName, "_build_functions": LFn}, inv=[]),
 "LightWeightEdgeList": dict(fields={"_edge_list": LEdge, "_topologies": LName, "_joint_degrees": JDS, "_motif_id": LInt},
     properties={"edge_list": "_edge_list", "topologies": "_topologies", "joint_degrees": "_joint_degrees", "motif_id": "_motif_id"}, inv=[]),
}
IntArr = z3.ArraySort(z3.IntSort(), z3.IntSort())
SLICE = z3.Function("slice", IntArr, z3.IntSort(), IntArr)
BUILD = z3.Function("build", Fn.sort(), LInt.sort(), LEdge.sort())
PERM = z3.Function("perm", LInt.sort(), LInt.sort(), z3.BoolSort())
_a = z3.Const("a_", IntArr); _p, _t = z3.Ints("p_ t_"); _x, _y = z3.Consts("x_ y_", LInt.sort()); _f = z3.Const("f_", Fn.sort())
AXIOMS = list(JDm.AXIOMS) + [
  z3.ForAll([_a, _p, _t], z3.Select(SLICE(_a, _p), _t) == z3.Select(_a, _p + _t), patterns=[z3.Select(SLICE(_a, _p), _t)]),
  z3.ForAll([_x, _y], z3.Implies(PERM(_x, _y), LInt.len(_x) == LInt.len(_y)), patterns=[PERM(_x, _y)]),
  z3.ForAll([_f, _x], LEdge.len(BUILD(_f, _x)) >= 0, patterns=[BUILD(_f, _x)]),
]
def sf_blk(fns, sizes, stubs, rec_k, rec_pos, m):
    k = z3.Select(rec_k.z, m.z); pos = z3.Select(rec_pos.z, m.z)
    kl = z3.Select(LLInt.arr(stubs.z), k)
    arg = LInt.mk(z3.Select(LInt.arr(sizes.z), k), SLICE(LInt.arr(kl), pos))
    return Val(LEdge, BUILD(z3.Select(LFn.arr(fns.z), k), arg))
def sf_perm(a, b): return Val(BOOL, PERM(a.z, b.z))
SPECFUNS = {"blk": sf_blk, "perm": sf_perm, "colsum": JDm.sf_colsum}

# ------------------------------------------------------------------ call patterns (library idioms)
STUBS_SRC = "[list(chain.from_iterable(starmap(repeat,r)))forrinmap(enumerate,zip(*jds))]"
def pat(ex, n, st, pc):
    src = ast.unparse(n).replace(" ", "")
    if src == STUBS_SRC:
        jds = ex.expr(ast.Name(id="jds", ctx=ast.Load()), st, pc); T = st.env["T"].z
        out = fresh(LLInt, "stubs"); k = z3.Int("k!st")
        pc.append(z3.And(LLInt.len(out.z) == T,
                  z3.ForAll([k], z3.Implies(z3.And(0 <= k, k < T), LInt.len(z3.Select(LLInt.arr(out.z), k)) == CS(jds.z, k, JDS.len(jds.z))))))
        ex.assumptions.add("flatten-repeat idiom: stubs[k] has sum_v jds[v][k] entries (content: canon(k))")
        pc.extend(ex.wf(out))
        return out
    if src == "LightWeightEdgeList()":
        def empty(t): return Val(t, t.mk(z3.IntVal(0), z3.Const(f"e!{next(ex.loop_counter)}", t.arr(fresh(t).z).sort())))
        return Val(TObj("LightWeightEdgeList"), {"_edge_list": empty(LEdge), "_topologies": empty(LName), "_joint_degrees": empty(JDS), "_motif_id": empty(LInt)})
    if src == "self.infinite_sequence()":
        return Val(INT, z3.IntVal(0))          # generator state = number of values already produced (contract: i-th next() returns i)
    if src == "next(gen)":
        cur = st.env["gen"]; st.env["gen"] = Val(INT, cur.z + 1); return cur
    if src.startswith("random.shuffle("):
        root, steps = ex.path_of(n.args[0], st, pc); old = ex.read_path(st, root, steps)
        new = fresh(old.t, "shuf"); pc.append(PERM(new.z, old.z)); pc.extend(ex.wf(new)); ex.write_path(st, root, steps, new)
        ex.rng_log.append(("shuffle", new.z)); ex.assumptions.add("random.shuffle replaces the list by an arbitrary permutation of itself")
        return Val(NONE, z3.BoolVal(True))
    if isinstance(n.func, ast.Subscript) and ast.unparse(n.func.value) == "self._build_functions":
        fn = ex.expr(n.func, st, pc); arg = ex.expr(n.args[0], st, pc)
        ex.assumptions.add("A-CALLBACK: build callbacks are pure functions of their argument")
        return Val(LEdge, BUILD(fn.z, arg.z))
    return None
PATTERNS = [pat]

def loop_grouper(ex, s, st, pc, k, lspec):
    it = s.iter
    if not (isinstance(it, ast.Call) and isinstance(it.func, ast.Name) and it.func.id == "grouper"): return None
    seq = ex.expr(it.args[0], st, pc); size = ex.expr(it.args[1], st, pc).z
    ln, arr = seq.t.len(seq.z), seq.t.arr(seq.z)
    ex.assumptions.add("iteration_utilities.grouper(xs, n) yields xs[0:n], xs[n:2n], ... (last one shorter if len % n != 0); n >= 1")
    ex.oblige(f"loop{k}.grouper.size_positive", "requires@call", pc, size >= 1, s)
    def bind(state, g):
        p = g["POS"]
        state.env[s.target.id] = Val(seq.t, seq.t.mk(z3.If(p + size <= ln, size, ln - p), SLICE(arr, p)))
    return ex.loop_generic(s, st, pc, k, lspec, {"IT": z3.IntVal(0), "POS": z3.IntVal(0)}, lambda g: g["POS"] < ln, bind,
                           lambda g: {"IT": g["IT"] + 1, "POS": g["POS"] + size}, lambda g: [g["IT"] >= 0, g["POS"] >= 0])
LOOP_PATTERNS = [loop_grouper]

# ------------------------------------------------------------------ contract
E = "EdgeList"
BLK = "blk(self._build_functions, self._motif_sizes, stubs, rec_k, rec_pos, {m})"
MID = f"{E}._motif_id[p]"
COLS = [
 ("par1", f"len({E}._edge_list) == len({E}._topologies)"),
 ("par2", f"len({E}._edge_list) == len({E}._motif_id)"),
 ("gen", "gen >= 0"),
 ("jds", f"{E}._joint_degrees == jds"),
 ("ids", f"forall(p, 0, len({E}._motif_id), 0 <= {MID} and {MID} < gen)"),
 ("blk_lo", f"forall(p, 0, len({E}._edge_list), rec_start[{MID}] <= p)"),
 ("blk_hi", f"forall(p, 0, len({E}._edge_list), p < rec_start[{MID}] + len({BLK.format(m=MID)}))"),
 ("edge", f"forall(p, 0, len({E}._edge_list), {E}._edge_list[p] == {BLK.format(m=MID)}[p - rec_start[{MID}]])"),
 ("name", f"forall(p, 0, len({E}._edge_list), {E}._topologies[p] == self._edge_names[rec_k[{MID}]])"),
 ("chain0", f"implies(gen > 0, rec_start[0] == 0)"),
 ("chain", f"forall(m, 0, gen - 1, rec_start[m + 1] == rec_start[m] + len({BLK.format(m='m')}))"),
 ("chainN", f"(rec_start[gen - 1] + len({BLK.format(m='gen - 1')}) == len({E}._edge_list)) if gen > 0 else (len({E}._edge_list) == 0)"),
 ("stubs", "len(stubs) == T"),
]
FUNCS = {"GCMAlgorithmFast.random_clustered_graph": dict(
  params={"jds": JDS, "T": INT}, ghost=["T", "rec_k", "rec_pos", "rec_start"],
  locals={},
  requires=[("N", "len(jds) >= 1"), ("T", "T >= 0 and len(self._motif_sizes) == T and len(self._edge_names) == T and len(self._build_functions) == T"),
            ("rows", "forall(v, 0, len(jds), len(jds[v]) == T and forall(c, 0, T, jds[v][c] >= 0))"),
            ("sizes", "forall(c, 0, T, self._motif_sizes[c] >= 1)"),
            ("handshake", "forall(c, 0, T, colsum(jds, c) % self._motif_sizes[c] == 0)")],
  ensures=[("columns_parallel", "len(result._edge_list) == len(result._topologies) and len(result._edge_list) == len(result._motif_id)"),
           ("jds_carried", "result._joint_degrees == old(jds)")],
  loops={
   0: dict(snap={"stubs0": "stubs"},
           inv=[("len", "len(stubs) == T"),
                ("lens0", "forall(c, 0, T, len(stubs0[c]) == colsum(jds, c))"),
                ("done", "forall(c, 0, IT, perm(stubs[c], stubs0[c]))"),
                ("todo", "forall(c, IT, T, stubs[c] == stubs0[c])")]),
   1: dict(inv=COLS + [("lens", "forall(c, 0, T, len(stubs[c]) == colsum(jds, c))"), ("reck", "forall(m, 0, gen, 0 <= rec_k[m] and rec_k[m] < IT)")]),
   2: dict(inv=COLS + [("reck", "forall(m, 0, gen, 0 <= rec_k[m] and rec_k[m] <= k)"),
                       ("lens", "forall(c, 0, T, len(stubs[c]) == colsum(jds, c))"),
                       ("full", "len(stubs[k]) % self._motif_sizes[k] == 0 and len(stubs[k]) >= 0 and self._motif_sizes[k] >= 1"),
                       ("pos", "POS <= len(stubs[k])"), ("posmod", "POS % self._motif_sizes[k] == 0"), ("k", "0 <= k and k < T")],
           hints=[("full_group", "POS + self._motif_sizes[k] <= len(stubs[k])")],
           ghost_end=["rec_k[id] = k", "rec_pos[id] = POS", f"rec_start[id] = len({E}._edge_list) - len(es)"]),
  })}
GHOST_TYPES = {"rec_k": ARR, "rec_pos": ARR, "rec_start": ARR}
FUNCS["GCMAlgorithmFast.random_clustered_graph"]["params"].update(GHOST_TYPES)
