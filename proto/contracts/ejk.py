import ast, z3
from vf.core import *
from vf.symexec import INT, REAL, BOOL, NONE
Name = TElem("Name")
JD = TList(INT, tagged=True)
Key = TPair(JD, JD)
Edge = TPair(INT, INT)
LEdge = TList(Edge); LName = TList(Name)
G = TOpaque("Graph")
TYPES = {"Name": Name, "Key": Key}
CLASSES = {"JointExcessJointDegree": dict(fields={"_G": G, "_num_edges": TDict(Name, INT), "_topology_names": LName}, inv=[])}
# ---- library view of a (read-only) nx.Graph
ES_len = z3.Function("es_len", G.sort(), z3.IntSort())
ES = z3.Function("es", G.sort(), z3.IntSort(), Edge.sort())
ETOP = z3.Function("etop", G.sort(), z3.IntSort(), z3.IntSort(), Name.sort())
NJD = z3.Function("njd", G.sort(), z3.IntSort(), JD.sort())
g_ = z3.Const("g_", G.sort()); t_ = z3.Const("t_", Name.sort()); i_, idx_ = z3.Ints("i_ idx_"); k_ = z3.Const("k_", Key.sort()); h_ = z3.Real("h_")
def eu(g, i): return Edge.fst(ES(g, i))
def evv(g, i): return Edge.snd(ES(g, i))
def top_at(g, i): return ETOP(g, eu(g, i), evv(g, i))
def dec(jd, idx): return JD.mk(JD.len(jd), z3.Store(JD.arr(jd), idx, z3.Select(JD.arr(jd), idx) - 1), z3.BoolVal(True))
def k1(g, i, idx): return Key.mk(dec(NJD(g, eu(g, i)), idx), dec(NJD(g, evv(g, i)), idx))
def k2(g, i, idx): return Key.mk(dec(NJD(g, evv(g, i)), idx), dec(NJD(g, eu(g, i)), idx))
CNT = z3.Function("cnt", G.sort(), Name.sort(), z3.IntSort(), z3.IntSort())
WR = z3.Function("wr", G.sort(), z3.IntSort(), Name.sort(), z3.RealSort(), Key.sort(), z3.IntSort(), z3.RealSort())
AXIOMS = [
 z3.ForAll([g_], ES_len(g_) >= 0, patterns=[ES_len(g_)]),
 z3.ForAll([g_, t_, i_], z3.Implies(i_ <= 0, CNT(g_, t_, i_) == 0), patterns=[CNT(g_, t_, i_)]),
 z3.ForAll([g_, t_, i_], z3.Implies(i_ > 0, CNT(g_, t_, i_) == CNT(g_, t_, i_ - 1) + z3.If(top_at(g_, i_ - 1) == t_, 1, 0)), patterns=[CNT(g_, t_, i_)]),
 z3.ForAll([g_, idx_, t_, h_, k_, i_], z3.Implies(i_ <= 0, WR(g_, idx_, t_, h_, k_, i_) == 0), patterns=[WR(g_, idx_, t_, h_, k_, i_)]),
 z3.ForAll([g_, idx_, t_, h_, k_, i_], z3.Implies(i_ > 0, WR(g_, idx_, t_, h_, k_, i_) == WR(g_, idx_, t_, h_, k_, i_ - 1) +
      z3.If(top_at(g_, i_ - 1) == t_, z3.If(k_ == k1(g_, i_ - 1, idx_), h_, 0) + z3.If(k_ == k2(g_, i_ - 1, idx_), h_, 0), 0)), patterns=[WR(g_, idx_, t_, h_, k_, i_)]),
]
gg = z3.Const("gg", G.sort()); tt = z3.Const("tt", Name.sort()); nn, jj = z3.Ints("nn jj")
def Lpos(n): return z3.Implies(z3.And(0 <= jj, jj < n, top_at(gg, jj) == tt), CNT(gg, tt, n) >= 1)
def Lnn(n): return CNT(gg, tt, n) >= 0
LEMMAS = [
 dict(name="cnt_nonneg", base=Lnn(z3.IntVal(0)), step=z3.Implies(z3.And(nn >= 0, Lnn(nn)), Lnn(nn + 1)),
      stmt=z3.ForAll([gg, tt, nn], z3.Implies(nn >= 0, Lnn(nn)), patterns=[CNT(gg, tt, nn)])),
 dict(name="cnt_positive", base=Lpos(z3.IntVal(0)), step=z3.Implies(z3.And(nn >= 0, Lpos(nn)), Lpos(nn + 1)),
      stmt=z3.ForAll([gg, tt, nn, jj], z3.Implies(nn >= 0, Lpos(nn)), patterns=[z3.MultiPattern(CNT(gg, tt, nn), top_at(gg, jj))])),
]
def sf_cnt(g, t, i): return Val(INT, CNT(g.z, t.z, i.z))
def sf_wr(g, idx, t, h, k, i): return Val(REAL, WR(g.z, idx.z, t.z, h.z, k.z, i.z))
def sf_nedges(g): return Val(INT, ES_len(g.z))
def sf_jd_u(g, j): return Val(JD, NJD(g.z, eu(g.z, j.z)))
def sf_jd_v(g, j): return Val(JD, NJD(g.z, evv(g.z, j.z)))
SPECFUNS = {"cnt": sf_cnt, "wr": sf_wr, "nedges": sf_nedges, "jd_u": sf_jd_u, "jd_v": sf_jd_v}

def pat(ex, n, st, pc):
    src = ast.unparse(n).replace(" ", "")
    if src == "self._G.edges[e][NetworkNames.TOPOLOGY]":
        g = ex.expr(ast.parse("self._G", mode="eval").body, st, pc); e = ex.expr(ast.Name(id="e", ctx=ast.Load()), st, pc)
        ex.assumptions.add("G.edges[(u,v)]['topology'] is the edge's annotation (requires the edge and the annotation to exist)")
        return Val(Name, ETOP(g.z, Edge.fst(e.z), Edge.snd(e.z)))
    for var in ("u", "v"):
        if src == f"self._G.nodes[{var}][NetworkNames.JOINT_DEGREE]":
            g = ex.expr(ast.parse("self._G", mode="eval").body, st, pc); x = ex.expr(ast.Name(id=var, ctx=ast.Load()), st, pc)
            ex.assumptions.add("G.nodes[n]['joint_degree'] is the vertex annotation (requires it to exist)")
            return Val(JD, NJD(g.z, x.z))
    return None
def pat_sub(ex, n, st, pc): return None
PATTERNS = [pat]
def loop_edges(ex, s, st, pc, k, lspec):
    if ast.unparse(s.iter).replace(" ", "") != "self._G.edges()": return None
    g = ex.expr(ast.parse("self._G", mode="eval").body, st, pc)
    ex.assumptions.add("G.edges() enumerates each edge of the (unmodified) graph once, in a fixed order")
    def bind(state, gh): state.env[s.target.id] = Val(Edge, ES(g.z, gh["IT"]))
    hi = ES_len(g.z)
    return ex.loop_generic(s, st, pc, k, lspec, {"IT": z3.IntVal(0)}, lambda gh: gh["IT"] < hi, bind, lambda gh: {"IT": gh["IT"] + 1},
                           lambda gh: [0 <= gh["IT"], gh["IT"] <= hi])
LOOP_PATTERNS = [loop_edges]

VALIDG = ("forall(j, 0, nedges(self._G), True)")
FUNCS = {
 "JointExcessJointDegree.count_edge_types": dict(params={}, requires=[],
    ensures=[("counts_are_a_function_of_the_graph", "forall_elem(t, Name, self._num_edges.get(t, 0) == cnt(self._G, t, nedges(self._G)))"),
             ("graph_unchanged", "self._G == old(self._G)")],
    loops={0: dict(snap={"ne0": "self._num_edges"},
                   inv=[("acc", "forall_elem(t, Name, self._num_edges.get(t, 0) == cnt(self._G, t, IT) + ne0.get(t, 0))"),
                        ("g", "self._G == old(self._G)")])}),
 "JointExcessJointDegree.get_ejk": dict(params={"i": INT, "name": Name, "T": INT}, ghost=["T"], locals={"ejk": TDict(Key, REAL)},
    requires=[("i", "0 <= i and i < T"),
              ("annot", "forall(j, 0, nedges(self._G), len(jd_u(self._G, j)) == T and len(jd_v(self._G, j)) == T)"),
              ("counts", "forall_elem(t, Name, self._num_edges.get(t, 0) == cnt(self._G, t, nedges(self._G)))"),
              ("counts_dom", "forall_elem(t, Name, (t in self._num_edges) == (cnt(self._G, t, nedges(self._G)) > 0))")],
    ensures=[("exact", "forall_elem(key, Key, result.get(key, 0.0) == wr(self._G, i, name, 0.5 / self._num_edges[name], key, nedges(self._G)))"),
             ("graph_unchanged", "self._G == old(self._G)")],
    loops={0: dict(inv=[("acc", "forall_elem(key, Key, ejk.get(key, 0.0) == wr(self._G, i, name, 0.5 / self._num_edges[name], key, IT))"),
                        ("frame", "self._G == old(self._G) and self._num_edges == old(self._num_edges)")])}),
}
