import ast, z3
from vf.core import *
INT = TInt()
JD = TList(INT, tagged=True)      # joint degree tuple (or list) of ints
JDS = TList(JD)
SIZES = TList(INT)
TYPES = {}
CLASSES = {"JointDegree": dict(fields={"_motif_sizes": SIZES}, inv=[])}

# ---- spec function colsum(jds, c, n) = sum_{v<n} jds[v][c]
CS = z3.Function("colsum", JDS.sort(), z3.IntSort(), z3.IntSort(), z3.IntSort())
def cell(j, v, c): return z3.Select(JD.arr(z3.Select(JDS.arr(j), v)), c)
_j = z3.Const("j_", JDS.sort()); _c, _n, _v, _x = z3.Ints("c_ n_ v_ x_"); _r = z3.Const("r_", JD.sort())
AXIOMS = [
  z3.ForAll([_j, _c, _n], z3.Implies(_n <= 0, CS(_j, _c, _n) == 0), patterns=[CS(_j, _c, _n)]),
  z3.ForAll([_j, _c, _n], z3.Implies(_n > 0, CS(_j, _c, _n) == CS(_j, _c, _n - 1) + cell(_j, _n - 1, _c)), patterns=[CS(_j, _c, _n)]),
]
def upd(j, v, r): return JDS.mk(JDS.len(j), z3.Store(JDS.arr(j), v, r))
jj = z3.Const("jj", JDS.sort()); vv, cc, nn = z3.Ints("vv cc nn"); rr = z3.Const("rr", JD.sort())
def L_stmt(n): return CS(upd(jj, vv, rr), cc, n) == CS(jj, cc, n) + z3.If(z3.And(0 <= vv, vv < n), z3.Select(JD.arr(rr), cc) - cell(jj, vv, cc), 0)
LEMMAS = [dict(name="colsum_update",
   base=L_stmt(z3.IntVal(0)),
   step=z3.Implies(z3.And(nn >= 0, L_stmt(nn)), L_stmt(nn + 1)),
   stmt=z3.ForAll([jj, vv, rr, cc, nn], z3.Implies(nn >= 0, L_stmt(nn)), patterns=[CS(upd(jj, vv, rr), cc, nn)]))]

def sf_colsum(jds, c): return Val(INT, CS(jds.z, c.z, JDS.len(jds.z)))
SPECFUNS = {"colsum": sf_colsum}

# ---- library idiom: list(map(sum, zip(*jds)))  -> column sums
def pat_colsums(ex, n, st, pc):
    try:
        if ast.unparse(n).replace(" ", "") != "list(map(sum,zip(*jds)))": return None
    except Exception: return None
    jds = ex.expr(ast.Name(id="jds", ctx=ast.Load()), st, pc)
    T = st.env["T"].z
    out = fresh(TList(INT), "ntops")
    t = out.t; c = z3.Int("c!cs")
    pc.append(z3.And(t.len(out.z) == z3.If(JDS.len(jds.z) > 0, T, 0),
                     z3.ForAll([c], z3.Implies(z3.And(0 <= c, c < T), z3.Select(t.arr(out.z), c) == CS(jds.z, c, JDS.len(jds.z))))))
    ex.assumptions.add("list(map(sum, zip(*rows))) yields the column sums of equal-length rows")
    return out
PATTERNS = [pat_colsums]

ROWS = "forall(v, 0, len(jds), len(jds[v]) == T and forall(c, 0, T, jds[v][c] >= 0))"
D = "(0 if colsum(old(jds), c) % self._motif_sizes[c] == 0 else self._motif_sizes[c] - colsum(old(jds), c) % self._motif_sizes[c])"
FUNCS = {"JointDegree.handshaking_lemma": dict(
  params={"jds": JDS, "T": INT},          # T: ghost (number of topologies)
  ghost=["T"],
  requires=[("N", "len(jds) >= 1"), ("T", "T >= 0 and len(self._motif_sizes) == T"), ("rows", ROWS),
            ("sizes", "forall(c, 0, T, self._motif_sizes[c] >= 1)"),
            ("tuples", "forall(v, 0, len(jds), is_tuple(jds[v]))")],
  ensures=[("len", "len(result) == len(old(jds))"),
           ("never_removed", "forall(v, 0, len(result), forall(c, 0, T, result[v][c] >= old(jds)[v][c]))"),
           ("minimal_padding", f"forall(c, 0, T, colsum(result, c) == colsum(old(jds), c) + {D})"),
           ("divisible", "forall(c, 0, T, colsum(result, c) % self._motif_sizes[c] == 0)"),
           ("rows_are_tuples", "forall(v, 0, len(result), is_tuple(result[v]))")],
  loops={0: dict(inv=[("len", "len(jds) == len(old(jds))"),
                      ("rowlen", "forall(v, 0, len(jds), len(jds[v]) == T)"),
                      ("done", f"forall(c, 0, IT, colsum(jds, c) == colsum(old(jds), c) + {D})"),
                      ("todo", "forall(c, IT, T, colsum(jds, c) == colsum(old(jds), c))"),
                      ("ge", "forall(v, 0, len(jds), forall(c, 0, T, jds[v][c] >= old(jds)[v][c]))"),
                      ("tuples", "forall(v, 0, len(jds), is_tuple(jds[v]))")]),
         1: dict(inv=[("len", "len(jds) == len(old(jds))"),
                      ("rowlen", "forall(v, 0, len(jds), len(jds[v]) == T)"),
                      ("col", "colsum(jds, i) == colsum(old(jds), i) + IT"),
                      ("others", "forall(c, 0, T, implies(c != i, (colsum(jds, c) == colsum(old(jds), c)) if c > i else (colsum(jds, c) == colsum(old(jds), c) + " + D + ")))"),
                      ("ge", "forall(v, 0, len(jds), forall(c, 0, T, jds[v][c] >= old(jds)[v][c]))"),
                      ("tuples", "forall(v, 0, len(jds), is_tuple(jds[v]))")])},
)}
