from vf.core import *
Elem = TElem("Elem")
TYPES = {"Elem": Elem}
CLASSES = {"DrawSet": dict(
    fields={"_edge_hashmap": TDict(Elem, TInt()), "_edges": TList(Elem)},
    inv=[("I1", "forall(i, 0, len(self._edges), self._edges[i] in self._edge_hashmap and self._edge_hashmap[self._edges[i]] == i)"),
         ("I2", "forall_elem(x, Elem, implies(x in self._edge_hashmap, 0 <= self._edge_hashmap[x] and self._edge_hashmap[x] < len(self._edges) and self._edges[self._edge_hashmap[x]] == x))"),
         ("I0", "len(self._edges) >= 0")])}
UNCHANGED = [("frame.map", "forall_elem(x, Elem, (x in self._edge_hashmap) == (x in old(self._edge_hashmap)))"),
             ("frame.len", "len(self._edges) == len(old(self._edges))"),
             ("frame.seq", "forall(i, 0, len(self._edges), self._edges[i] == old(self._edges)[i])")]
INV = [("inv", "inv(self)")]
FUNCS = {
 "DrawSet.__init__": dict(params={}, requires=[], ensures=INV + [("empty", "forall_elem(x, Elem, not (x in self._edge_hashmap))"), ("len0", "len(self._edges) == 0")]),
 "DrawSet.__contains__": dict(params={"e": Elem}, requires=INV, ensures=INV + UNCHANGED + [("member", "result == (e in self._edge_hashmap)")]),
 "DrawSet.__len__": dict(params={}, requires=INV, ensures=INV + UNCHANGED + [("len", "result == len(self._edges)")]),
 "DrawSet.__iter__": dict(params={}, requires=INV, ensures=INV + UNCHANGED + [
     ("iter.is_edges", "len(result) == len(self._edges) and forall(i, 0, len(result), result[i] == self._edges[i])"),
     ("iter.members", "forall(i, 0, len(result), result[i] in self._edge_hashmap)"),
     ("iter.once", "forall(i, 0, len(result), forall(j, 0, len(result), implies(i != j, result[i] != result[j])))"),
     ("iter.all", "forall_elem(x, Elem, implies(x in self._edge_hashmap, exists(i, 0, len(result), result[i] == x)))")]),
 "DrawSet.add": dict(params={"e": Elem}, requires=INV, ensures=INV + [
     ("view", "forall_elem(x, Elem, (x in self._edge_hashmap) == ((x in old(self._edge_hashmap)) or x == e))"),
     ("len", "len(self._edges) == len(old(self._edges)) + (0 if e in old(self._edge_hashmap) else 1)"),
     ("noop_if_present", "implies(e in old(self._edge_hashmap), forall(i, 0, len(self._edges), self._edges[i] == old(self._edges)[i]))")]),
 "DrawSet.remove": dict(params={"e": Elem}, requires=INV, ensures=INV + [
     ("was_present", "e in old(self._edge_hashmap)"),
     ("view", "forall_elem(x, Elem, (x in self._edge_hashmap) == ((x in old(self._edge_hashmap)) and x != e))"),
     ("len", "len(self._edges) == len(old(self._edges)) - 1")],
   raises={"KeyError": dict(when="not (e in self._edge_hashmap)", ensures=INV + UNCHANGED)}),
 "DrawSet.draw": dict(params={}, requires=INV, ensures=INV + UNCHANGED + [("member", "result in self._edge_hashmap")],
   raises={"IndexError": dict(when="len(self._edges) == 0", ensures=INV + UNCHANGED)}),
}
