"""Bounded stand-in / replay harness for C20: all histories of <= L ops over a 3-element universe,
all draw outcomes, real DrawSet wrapped with the SAME contract text used by the prover, plus a model set."""
import sys, importlib.util, itertools, random, time, json
sys.path.insert(0, '/root/vf-proto')
from vf.rt import *
import contracts.draw_set as C
repo = sys.argv[1] if len(sys.argv) > 1 else '/repo'
L = int(sys.argv[2]) if len(sys.argv) > 2 else 4
spec = importlib.util.spec_from_file_location("draw_set_real", repo + "/gcmpy/tools/draw_set.py")
mod = importlib.util.module_from_spec(spec); spec.loader.exec_module(mod)
class W: classes = C.CLASSES; funcs = C.FUNCS; rt_specfuns = {}
U = [0, 1, 2]; universe = {"Elem": U}
Checked = type("DrawSet", (mod.DrawSet,), {})      # same class name so inv() finds the class contract
for q in C.FUNCS:
    setattr(Checked, q.split(".")[-1], wrap_method(W, mod.DrawSet, q, universe))
ops = [("add", x) for x in U] + [("remove", x) for x in U] + [("draw", None), ("contains", 1), ("len", None), ("iter", None)]
ch = Chooser(); mod.random.choice = lambda seq: seq[ch.pick(len(seq))]
t = time.time(); runs = 0; viol = None; distinct = set()
for n in range(1, L + 1):
    for hist in itertools.product(ops, repeat=n):
        ch.script = []; ch.arity = []
        while True:
            ch.reset(); runs += 1
            d = Checked(); model = set()
            try:
                for op, x in hist:
                    if op == "add": d.add(x); model.add(x)
                    elif op == "remove":
                        try: d.remove(x); assert x in model; model.discard(x)
                        except KeyError: assert x not in model
                    elif op == "draw":
                        try: r = d.draw(); assert r in model
                        except IndexError: assert not model
                    elif op == "contains": assert (x in d) == (x in model)
                    elif op == "len": assert len(d) == len(model)
                    elif op == "iter": assert sorted(iter(d)) == sorted(model)
                    assert set(d._edge_hashmap) == model
                distinct.add((hist, tuple(ch.script)))
            except (ContractViolation, AssertionError, IndexError, KeyError) as ex:
                viol = dict(history=[list(h) for h in hist], rng=list(ch.script), error=repr(ex)); break
            if not ch.advance(): break
        if viol: break
    if viol: break
print(json.dumps(dict(L=L, runs=runs, distinct=len(distinct), wall=round(time.time() - t, 2), violation=viol)))
