import sys, time, z3
sys.path.insert(0, '/root/vf-proto')
from vf.world import World
from vf.core import *
import contracts.joint_degree as C
w = World('/repo', 'gcmpy/joint_degree/joint_degree.py')
w.classes, w.funcs, w.types, w.specfuns = C.CLASSES, C.FUNCS, C.TYPES, C.SPECFUNS
B=3
# expand colsum axioms finitely too
w.axioms = list(C.AXIOMS); w.call_patterns = C.PATTERNS
w.expand_bound = B; w.expand_side = []
from vf.symexec import FnExec
ex = FnExec(w, "JointDegree.handshaking_lemma"); obs = ex.run()
side = w.expand_side
for ob in obs:
    if ob.name.endswith("loop1.preserve.tuples") or ob.name.endswith("ensures.divisible"):
        ob.hyps = ob.hyps + side
        t=time.time(); discharge(ob, timeout_ms=60000); print(ob.name, ob.status, f"{time.time()-t:.2f}s")
        if ob.model is not None:
            m = ob.model
            for d in m.decls():
                if any(k in d.name() for k in ("jds","rng","T!","_motif","it")): print("   ", d.name(), "=", m[d])
