import sys, time, z3
sys.path.insert(0, '/root/vf-proto')
from vf.world import World
from vf.core import *
import contracts.joint_degree as C
from vf.symexec import FnExec
def build(B, axioms):
    w = World('/repo', 'gcmpy/joint_degree/joint_degree.py')
    w.classes, w.funcs, w.types, w.specfuns = C.CLASSES, C.FUNCS, C.TYPES, C.SPECFUNS
    w.axioms = axioms; w.call_patterns = C.PATTERNS; w.expand_bound = B; w.expand_side = []
    ex = FnExec(w, "JointDegree.handshaking_lemma"); obs = ex.run()
    return w, ex, obs
def has_quant(f):
    seen=set(); st=[f]
    while st:
        x=st.pop()
        if x.get_id() in seen: continue
        seen.add(x.get_id())
        if z3.is_quantifier(x): return True
        st.extend(x.children())
    return False
for label, axioms in (("with CS axioms", list(C.AXIOMS)), ("no axioms", [])):
    w, ex, obs = build(3, axioms)
    ob = next(o for o in obs if o.name.endswith("loop1.preserve.tuples"))
    ob.hyps = ob.hyps + w.expand_side
    print(label, "quantified hyps:", sum(has_quant(h) for h in ob.hyps), "of", len(ob.hyps))
    sol = z3.Solver(); sol.set("timeout", 60000); sol.add(*ob.hyps); sol.add(z3.Not(ob.goal))
    t=time.time(); r = sol.check(); print("  ", r, f"{time.time()-t:.2f}s", sol.reason_unknown() if r==z3.unknown else "")
    if r == z3.sat:
        m = sol.model()
        for d in sorted(m.decls(), key=lambda d: d.name()):
            if d.name().split("!")[0] in ("jds","T","_motif_sizes","rng","it1","it0","ntops","t","j","i"): print("     ", d.name(), "=", m[d])
