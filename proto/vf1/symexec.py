"""Prototype symbolic executor over real function ASTs with sidecar contracts."""
import ast, itertools
import z3
from .core import *

INT, REAL, BOOL, NONE = TInt(), TReal(), TBool(), TNone()

def zand(xs):
    xs = [x for x in xs if not z3.is_true(x)]
    return z3.And(*xs) if len(xs) > 1 else (xs[0] if xs else z3.BoolVal(True))

def py_floordiv(a, d):
    q = a / d; r = a % d
    return z3.If(d > 0, q, z3.If(r == 0, q, q - 1))
def py_mod(a, d):
    r = a % d
    return z3.If(d > 0, r, z3.If(r == 0, r, r + d))

class FnExec:
    def __init__(self, world, qualname):
        self.w = world
        self.qual = qualname
        self.spec = world.funcs[qualname]
        self.fn = world.find_function(qualname)
        self.obligations = []
        self.loop_counter = itertools.count()
        self.rng_log = []          # ghost RNG outcomes (name, z3 const) for replay
        self.assumptions = set()
        self.cls = qualname.split(".")[0] if "." in qualname else None
        self.loop_ids = {}
        def walk(n):
            for c in ast.iter_child_nodes(n):
                if isinstance(c, (ast.For, ast.While)): self.loop_ids[id(c)] = len(self.loop_ids)
                walk(c)
        walk(self.fn)

    # ------------------------------------------------------------------ helpers
    def oblige(self, name, kind, pc, goal, node=None):
        loc = getattr(node, "lineno", None)
        self.obligations.append(Obligation(f"{self.qual}:{name}", kind, self.w.axioms + list(pc), goal, loc))

    def class_inv(self, objval, state, pc):
        cls = objval.t.cls
        out = []
        for nm, e in self.w.classes[cls].get("inv", []):
            st = state.copy(); st.env["self"] = objval
            out.append((nm, self.spec_expr(e, st, pc).z))
        return out

    # ------------------------------------------------------------------ lvalues
    def path_of(self, node, state, pc):
        """node -> (root name, steps) for Name / Attribute / Subscript chains; emits index obligations"""
        if isinstance(node, ast.Name):
            v = state.env[node.id]
            if isinstance(v, Ref): return v.root, list(v.steps)
            return node.id, []
        if isinstance(node, ast.Attribute):
            root, steps = self.path_of(node.value, state, pc)
            base = self.read_path(state, root, steps)
            fld = self.resolve_field(base, node.attr)
            return root, steps + [("field", fld)]
        if isinstance(node, ast.Subscript):
            root, steps = self.path_of(node.value, state, pc)
            idx = self.expr(node.slice, state, pc)
            return root, steps + [("index", idx)]
        raise Unsupported(f"lvalue {ast.dump(node)[:60]}")

    def resolve_field(self, base, attr):
        if not isinstance(base.t, TObj): raise Unsupported(f"attribute {attr} on {base.t}")
        cls = self.w.classes[base.t.cls]
        return cls.get("properties", {}).get(attr, attr)

    def read_path(self, state, root, steps):
        v = state.env[root]
        if isinstance(v, Ref): return self.read_path(state, v.root, v.steps + steps)
        for kind, x in steps:
            if kind == "field":
                if x not in v.z: raise Unsupported(f"field {x} undefined")
                v = v.z[x]
            else:
                if isinstance(v.t, TList): v = Val(v.t.elem, z3.Select(v.t.arr(v.z), x.z))
                elif isinstance(v.t, TDict): v = Val(v.t.v, z3.Select(v.t.val(v.z), x.z))
                elif isinstance(v.t, TArr): v = Val(v.t.v, z3.Select(v.z, x.z))
                else: raise Unsupported("index on " + repr(v.t))
        return v

    def write_path(self, state, root, steps, newv):
        cur = state.env.get(root)
        if isinstance(cur, Ref): return self.write_path(state, cur.root, cur.steps + steps, newv)
        state.env[root] = self._write(cur, steps, newv)

    def _write(self, cur, steps, newv):
        if not steps: return newv
        (kind, x), rest = steps[0], steps[1:]
        if kind == "field":
            d = dict(cur.z); d[x] = self._write(cur.z.get(x), rest, newv); return Val(cur.t, d)
        if isinstance(cur.t, TList):
            inner = Val(cur.t.elem, z3.Select(cur.t.arr(cur.z), x.z))
            nv = self._write(inner, rest, newv)
            args = [cur.t.len(cur.z), z3.Store(cur.t.arr(cur.z), x.z, nv.z)]
            if cur.t.tagged: args.append(cur.t.kind(cur.z))
            return Val(cur.t, cur.t.mk(*args))
        if isinstance(cur.t, TDict):
            inner = Val(cur.t.v, z3.Select(cur.t.val(cur.z), x.z))
            nv = self._write(inner, rest, newv)
            return Val(cur.t, cur.t.mk(z3.Store(cur.t.dom(cur.z), x.z, True), z3.Store(cur.t.val(cur.z), x.z, nv.z)))
        if isinstance(cur.t, TArr):
            inner = Val(cur.t.v, z3.Select(cur.z, x.z)); nv = self._write(inner, rest, newv)
            return Val(cur.t, z3.Store(cur.z, x.z, nv.z))
        raise Unsupported("write into " + repr(cur.t))

    # ------------------------------------------------------------------ expressions (code mode)
    # returns Val; may append obligations; exceptional branches are returned through self._exc
    def expr(self, node, state, pc):
        if isinstance(node, (ast.Call, ast.ListComp, ast.Subscript)):
            for pat in self.w.call_patterns:
                r = pat(self, node, state, pc)
                if r is not None: return r
        m = getattr(self, "e_" + type(node).__name__, None)
        if m is None: raise Unsupported(f"expr {type(node).__name__} line {getattr(node,'lineno','?')}")
        return m(node, state, pc)

    def e_Constant(self, n, st, pc):
        c = n.value
        if isinstance(c, bool): return Val(BOOL, z3.BoolVal(c))
        if isinstance(c, int): return Val(INT, z3.IntVal(c))
        if isinstance(c, float): return Val(REAL, z3.RealVal(repr(c)))
        if c is None: return Val(NONE, z3.BoolVal(True))
        raise Unsupported(f"constant {c!r}")

    def e_Name(self, n, st, pc):
        if n.id not in st.env:
            if n.id in self.w.elem_consts: return self.w.elem_consts[n.id]
            raise Unsupported(f"unknown name {n.id}")
        v = st.env[n.id]
        if isinstance(v, Ref): return self.read_path(st, v.root, v.steps)
        return v

    def e_Attribute(self, n, st, pc):
        root, steps = self.path_of(n, st, pc)
        base_steps = steps[:-1]
        base = self.read_path(st, root, base_steps)
        fld = steps[-1][1]
        if fld not in base.z:
            self.oblige(f"safe.defined({fld})@{n.lineno}", "safe.defined", pc, z3.BoolVal(False), n)
            raise Unsupported(f"field {fld} not definitely assigned")
        return base.z[fld]

    def e_Subscript(self, n, st, pc):
        base = self.expr(n.value, st, pc)
        idx = self.expr(n.slice, st, pc)
        if isinstance(base.t, TList):
            if self.mode == "code":
                self.branch_exc(pc, z3.Not(z3.And(idx.z >= 0, idx.z < base.t.len(base.z))), "IndexError", n)
            return Val(base.t.elem, z3.Select(base.t.arr(base.z), idx.z))
        if isinstance(base.t, TDict):
            if self.mode == "code":
                self.branch_exc(pc, z3.Not(z3.Select(base.t.dom(base.z), idx.z)), "KeyError", n)
            return Val(base.t.v, z3.Select(base.t.val(base.z), idx.z))
        if isinstance(base.t, TArr): return Val(base.t.v, z3.Select(base.z, idx.z))
        raise Unsupported("subscript on " + repr(base.t))

    def e_BinOp(self, n, st, pc):
        a = self.expr(n.left, st, pc); b = self.expr(n.right, st, pc)
        op = type(n.op).__name__
        if isinstance(a.t, (TInt, TReal)) and isinstance(b.t, (TInt, TReal)):
            real = isinstance(a.t, TReal) or isinstance(b.t, TReal) or op == "Div"
            az = z3.ToReal(a.z) if real and isinstance(a.t, TInt) else a.z
            bz = z3.ToReal(b.z) if real and isinstance(b.t, TInt) else b.z
            t = REAL if real else INT
            if op == "Add": return Val(t, az + bz)
            if op == "Sub": return Val(t, az - bz)
            if op == "Mult": return Val(t, az * bz)
            if op == "Div":
                if self.mode == "code": self.branch_exc(pc, bz == 0, "ZeroDivisionError", n)
                return Val(REAL, az / bz)
            if op == "FloorDiv" and not real:
                if self.mode == "code": self.branch_exc(pc, bz == 0, "ZeroDivisionError", n)
                return Val(INT, py_floordiv(az, bz))
            if op == "Mod" and not real:
                if self.mode == "code": self.branch_exc(pc, bz == 0, "ZeroDivisionError", n)
                return Val(INT, py_mod(az, bz))
        if op == "Add" and isinstance(a.t, TList) and a.t.tagged and isinstance(b.t, TList) and b.t.tagged:
            kt = self.w.types["Key"]          # L-CAT: concatenation of two equal-length tuples is an injective pairing
            self.assumptions.add("L-CAT: a + b on equal-length joint-degree tuples modelled as the pair (a, b)")
            return Val(kt, kt.mk(a.z, b.z))
        if op == "Mult" and isinstance(a.t, TList) and isinstance(b.t, TInt):
            out = fresh(a.t, "rep"); q = z3.Int(f"rep!{next(self.loop_counter)}")
            pc.append(z3.And(a.t.len(out.z) == z3.If(b.z > 0, b.z * a.t.len(a.z), 0)))
            if z3.is_int_value(z3.simplify(a.t.len(a.z))) and z3.simplify(a.t.len(a.z)).as_long() == 1:
                pc.append(z3.ForAll([q], z3.Implies(z3.And(0 <= q, q < b.z), z3.Select(a.t.arr(out.z), q) == z3.Select(a.t.arr(a.z), 0))))
            else: raise Unsupported("list * int with len != 1")
            return out
        raise Unsupported(f"binop {op} on {a.t},{b.t}")

    def e_UnaryOp(self, n, st, pc):
        a = self.expr(n.operand, st, pc)
        if isinstance(n.op, ast.Not): return Val(BOOL, z3.Not(a.z))
        if isinstance(n.op, ast.USub): return Val(a.t, -a.z)
        raise Unsupported("unary")

    def e_BoolOp(self, n, st, pc):
        vals = []; cur_pc = list(pc)
        for v in n.values:
            x = self.expr(v, st, cur_pc); vals.append(x.z)
            cur_pc = cur_pc + [x.z if isinstance(n.op, ast.And) else z3.Not(x.z)]
        return Val(BOOL, z3.And(*vals) if isinstance(n.op, ast.And) else z3.Or(*vals))

    def e_Compare(self, n, st, pc):
        left = self.expr(n.left, st, pc); res = []
        for op, rn in zip(n.ops, n.comparators):
            right = self.expr(rn, st, pc); o = type(op).__name__
            if o in ("In", "NotIn"):
                if isinstance(right.t, TDict): z = z3.Select(right.t.dom(right.z), left.z)
                elif isinstance(right.t, TList):
                    i = z3.Int(f"in!{next(self.loop_counter)}")
                    z = z3.Exists([i], z3.And(0 <= i, i < right.t.len(right.z), z3.Select(right.t.arr(right.z), i) == left.z))
                else: raise Unsupported("in on " + repr(right.t))
                res.append(z if o == "In" else z3.Not(z))
            else:
                az, bz = left.z, right.z
                if isinstance(left.t, TInt) and isinstance(right.t, TReal): az = z3.ToReal(az)
                if isinstance(left.t, TReal) and isinstance(right.t, TInt): bz = z3.ToReal(bz)
                import operator as _op
                f = {"Eq": _op.eq, "NotEq": _op.ne, "Lt": _op.lt, "LtE": _op.le, "Gt": _op.gt, "GtE": _op.ge, "Is": _op.eq, "IsNot": _op.ne}[o]
                res.append(f(az, bz))
            left = right
        return Val(BOOL, zand(res))

    def e_List(self, n, st, pc):
        els = [self.expr(e, st, pc) for e in n.elts]
        if not els: raise Unsupported("empty list literal outside assignment")
        t = TList(els[0].t); arr = z3.Const(f"lit!{next(self.loop_counter)}", z3.ArraySort(z3.IntSort(), els[0].t.sort()))
        for k, e in enumerate(els): arr = z3.Store(arr, k, e.z)
        return Val(t, t.mk(z3.IntVal(len(els)), arr))

    def e_IfExp(self, n, st, pc):
        c = self.expr(n.test, st, pc)
        a = self.expr(n.body, st, pc + [c.z]); b = self.expr(n.orelse, st, pc + [z3.Not(c.z)])
        return Val(a.t, z3.If(c.z, a.z, b.z))

    def e_Call(self, n, st, pc):
        f = n.func
        # ---- spec-only forms
        if isinstance(f, ast.Name):
            nm = f.id
            if nm == "len":
                a = self.expr(n.args[0], st, pc)
                if isinstance(a.t, TList): return Val(INT, a.t.len(a.z))
                raise Unsupported("len of " + repr(a.t))
            if nm in ("list", "tuple") and len(n.args) == 1:
                a = self.expr(n.args[0], st, pc)
                if isinstance(a.t, TList) and a.t.tagged:
                    return Val(a.t, a.t.mk(a.t.len(a.z), a.t.arr(a.z), z3.BoolVal(nm == "tuple")))
                if isinstance(a.t, TList): return a
                raise Unsupported(f"{nm}() of {a.t}")
            if nm == "iter" and len(n.args) == 1:
                return self.expr(n.args[0], st, pc)      # iterator over a list == the list value (enumeration order)
            if self.mode == "spec": return self.spec_call(nm, n, st, pc)
            raise Unsupported(f"call {nm}")
        if isinstance(f, ast.Attribute):
            # random.*
            if isinstance(f.value, ast.Name) and f.value.id == "random":
                return self.lib_random(f.attr, n, st, pc)
            # method on container / object
            try:
                root, steps = self.path_of(f.value, st, pc)
                recv = self.read_path(st, root, steps)
            except Unsupported:
                if f.attr not in ("get",): raise
                root, steps = None, None; recv = self.expr(f.value, st, pc)     # pure method on a value
            args = [self.expr(a, st, pc) for a in n.args]
            if isinstance(recv.t, TList): return self.lib_list(f.attr, recv, args, st, root, steps, pc, n)
            if isinstance(recv.t, TDict): return self.lib_dict(f.attr, recv, args, st, root, steps, pc, n)
            raise Unsupported(f"method {f.attr} on {recv.t}")
        raise Unsupported("call form")

    # ------------------------------------------------------------------ exceptional branching
    # An operation that may raise splits the current path: the normal continuation gets Not(cond) added to pc
    # (the caller's pc list is mutated in place so subsequent statements see it), the exceptional path is queued.
    def branch_exc(self, pc, cond, exc, node):
        self.pending_exc.append((list(pc) + [cond], exc, node))
        pc.append(z3.Not(cond))

    # ------------------------------------------------------------------ library: list / dict / random
    def lib_list(self, meth, recv, args, st, root, steps, pc, n):
        t = recv.t; ln, arr = t.len(recv.z), t.arr(recv.z)
        extra = [t.kind(recv.z)] if t.tagged else []
        if meth == "append":
            self.write_path(st, root, steps, Val(t, t.mk(ln + 1, z3.Store(arr, ln, args[0].z), *extra))); return Val(NONE, z3.BoolVal(True))
        if meth == "pop" and not args:
            self.branch_exc(pc, ln == 0, "IndexError", n)
            self.write_path(st, root, steps, Val(t, t.mk(ln - 1, arr, *extra)))
            return Val(t.elem, z3.Select(arr, ln - 1))
        if meth == "extend":
            o = args[0]; n2 = o.t.len(o.z); q = z3.Int(f"ext!{next(self.loop_counter)}")
            na = z3.Const(f"exta!{next(self.loop_counter)}", arr.sort())
            pc.append(z3.ForAll([q], z3.Select(na, q) == z3.If(z3.And(q >= ln, q < ln + n2), z3.Select(o.t.arr(o.z), q - ln), z3.Select(arr, q))))
            pc.append(n2 >= 0)
            self.write_path(st, root, steps, Val(t, t.mk(ln + n2, na, *extra))); return Val(NONE, z3.BoolVal(True))
        raise Unsupported(f"list.{meth}")

    def lib_dict(self, meth, recv, args, st, root, steps, pc, n):
        t = recv.t; dom, val = t.dom(recv.z), t.val(recv.z)
        if meth == "pop" and len(args) == 1:
            k = args[0].z
            self.branch_exc(pc, z3.Not(z3.Select(dom, k)), "KeyError", n)
            self.write_path(st, root, steps, Val(t, t.mk(z3.Store(dom, k, False), val)))
            return Val(t.v, z3.Select(val, k))
        if meth == "get" and len(args) == 2:
            k = args[0].z
            return Val(t.v, z3.If(z3.Select(dom, k), z3.Select(val, k), args[1].z))
        raise Unsupported(f"dict.{meth}")

    def lib_random(self, meth, n, st, pc):
        args = [self.expr(a, st, pc) for a in n.args]
        r = z3.Int(f"rng!{len(self.rng_log)}")
        if meth == "choice":
            a = args[0]
            self.branch_exc(pc, a.t.len(a.z) == 0, "IndexError", n)
            pc.append(z3.And(0 <= r, r < a.t.len(a.z)))
            self.rng_log.append(("choice", r)); self.assumptions.add("random.choice returns seq[r], 0<=r<len, every r admissible")
            return Val(a.t.elem, z3.Select(a.t.arr(a.z), r))
        if meth == "randrange":
            lo, hi = args[0].z, args[1].z
            self.branch_exc(pc, lo >= hi, "ValueError", n)
            pc.append(z3.And(lo <= r, r < hi))
            self.rng_log.append(("randrange", r)); self.assumptions.add("random.randrange(a,b) returns r, a<=r<b")
            return Val(INT, r)
        raise Unsupported(f"random.{meth}")

    # ------------------------------------------------------------------ spec expressions
    def spec_expr(self, src, st, pc):
        saved = self.mode; self.mode = "spec"
        try:
            return self.expr(ast.parse(src, mode="eval").body, st, list(pc))
        finally:
            self.mode = saved

    def spec_call(self, nm, n, st, pc):
        if nm == "old":
            return self.expr(n.args[0], st.old, pc)
        if nm == "implies":
            a = self.expr(n.args[0], st, pc); b = self.expr(n.args[1], st, pc); return Val(BOOL, z3.Implies(a.z, b.z))
        if nm in ("forall", "exists"):
            var = n.args[0].id; lo = self.expr(n.args[1], st, pc).z; hi = self.expr(n.args[2], st, pc).z
            i = z3.Int(f"{var}!q{next(self.loop_counter)}")
            s2 = st.copy(); s2.env[var] = Val(INT, i)
            if st.old is not None: s2.old = st.old.copy(); s2.old.env[var] = Val(INT, i)
            body = self.expr(n.args[3], s2, pc).z
            rng = z3.And(lo <= i, i < hi)
            B = getattr(self.w, "expand_bound", None)
            if B is not None:
                # finite expansion: exact whenever hi - lo <= B and lo >= 0 (recorded as a side assumption of the cex search)
                self.w.expand_side.append(z3.And(lo >= 0, hi <= B))
                insts = [z3.substitute(z3.Implies(rng, body) if nm == "forall" else z3.And(rng, body), (i, z3.IntVal(k))) for k in range(B)]
                return Val(BOOL, z3.And(*insts) if nm == "forall" else z3.Or(*insts))
            return Val(BOOL, z3.ForAll([i], z3.Implies(rng, body)) if nm == "forall" else z3.Exists([i], z3.And(rng, body)))
        if nm == "forall_elem":            # forall_elem(x, TypeName, P)
            var = n.args[0].id; t = self.w.types[n.args[1].id]
            x = z3.Const(f"{var}!q{next(self.loop_counter)}", t.sort())
            s2 = st.copy(); s2.env[var] = Val(t, x)
            if st.old is not None: s2.old = st.old.copy(); s2.old.env[var] = Val(t, x)
            return Val(BOOL, z3.ForAll([x], self.expr(n.args[2], s2, pc).z))
        if nm == "inv":
            o = self.expr(n.args[0], st, pc)
            return Val(BOOL, zand([z for _, z in self.class_inv(o, st, pc)]))
        if nm == "is_tuple":
            a = self.expr(n.args[0], st, pc); return Val(BOOL, a.t.kind(a.z))
        if nm in self.w.specfuns:
            args = [self.expr(a, st, pc) for a in n.args]
            return self.w.specfuns[nm](*args)
        raise Unsupported(f"spec call {nm}")

    # ------------------------------------------------------------------ statements
    def block(self, stmts, st, pc):
        """returns list of Outcome"""
        outs = [Outcome("normal", st, list(pc))]
        for s in stmts:
            nxt = []
            for o in outs:
                if o.kind != "normal": nxt.append(o); continue
                nxt.extend(self.stmt(s, o.state, o.pc))
            outs = nxt
        return outs

    def stmt(self, s, st, pc):
        self.pending_exc = []
        m = getattr(self, "s_" + type(s).__name__, None)
        if m is None: raise Unsupported(f"stmt {type(s).__name__} line {s.lineno}")
        pre_state = st.copy()
        outs = m(s, st, pc)
        # exceptional branches raised while evaluating this statement: state = state before the statement
        # (sound for our targets only if the raising sub-expression precedes any mutation in the statement: checked
        # by construction for single-call statements)
        for epc, exc, node in self.pending_exc:
            outs.append(Outcome("raise", pre_state, epc, exc=exc))
        self.pending_exc = []
        return outs

    def s_Pass(self, s, st, pc): return [Outcome("normal", st, pc)]
    def s_Expr(self, s, st, pc):
        if isinstance(s.value, ast.Constant): return [Outcome("normal", st, pc)]
        self.expr(s.value, st, pc); return [Outcome("normal", st, pc)]
    def s_Return(self, s, st, pc):
        v = self.expr(s.value, st, pc) if s.value is not None else Val(NONE, z3.BoolVal(True))
        return [Outcome("return", st, pc, value=v)]
    def s_Raise(self, s, st, pc):
        exc = s.exc.func.id if isinstance(s.exc, ast.Call) else getattr(s.exc, "id", "Exception")
        return [Outcome("raise", st, pc, exc=exc)]

    def s_AnnAssign(self, s, st, pc):
        if s.value is None: return [Outcome("normal", st, pc)]
        return self.s_Assign(ast.Assign(targets=[s.target], value=s.value, lineno=s.lineno), st, pc)

    def s_Assign(self, s, st, pc):
        v = self.rhs(s.value, st, pc, s)
        for tgt in s.targets: self.assign(tgt, v, st, pc)
        return [Outcome("normal", st, pc)]

    def rhs(self, node, st, pc, s):
        # typed empty literals need the declared type of the target
        if isinstance(node, ast.Dict) and not node.keys or isinstance(node, ast.List) and not node.elts:
            t = self.declared_type(s.targets[0] if hasattr(s, "targets") else s.target, st)
            if isinstance(t, TDict):
                return Val(t, t.mk(z3.K(t.k.sort(), z3.BoolVal(False)), z3.Const(f"dv!{next(self.loop_counter)}", z3.ArraySort(t.k.sort(), t.v.sort()))))
            if isinstance(t, TList):
                extra = [z3.BoolVal(False)] if t.tagged else []
                return Val(t, t.mk(z3.IntVal(0), z3.Const(f"la!{next(self.loop_counter)}", z3.ArraySort(z3.IntSort(), t.elem.sort())), *extra))
        return self.expr(node, st, pc)

    def declared_type(self, tgt, st):
        if isinstance(tgt, ast.Attribute) and isinstance(tgt.value, ast.Name) and tgt.value.id == "self":
            return self.w.classes[self.cls]["fields"][tgt.attr]
        if isinstance(tgt, ast.Name): return self.spec.get("locals", {}).get(tgt.id)
        raise Unsupported("declared type")

    def assign(self, tgt, v, st, pc):
        if isinstance(tgt, ast.Name):
            cur = st.env.get(tgt.id)
            if isinstance(cur, Ref): st.env[tgt.id] = v     # rebinding a loop alias
            else: st.env[tgt.id] = v
            return
        if isinstance(tgt, ast.Tuple) and isinstance(v.t, TPair) and len(tgt.elts) == 2:
            self.assign(tgt.elts[0], Val(v.t.a, v.t.fst(v.z)), st, pc); self.assign(tgt.elts[1], Val(v.t.b, v.t.snd(v.z)), st, pc); return
        if isinstance(tgt, ast.Attribute):
            root, steps = self.path_of(tgt.value, st, pc)
            base = self.read_path(st, root, steps)
            fld = self.resolve_field(base, tgt.attr)
            self.write_path(st, root, steps + [("field", fld)], v); return
        if isinstance(tgt, ast.Subscript):
            root, steps = self.path_of(tgt.value, st, pc)
            cont = self.read_path(st, root, steps)
            idx = self.expr(tgt.slice, st, pc)
            if isinstance(cont.t, TList):
                self.branch_exc(pc, z3.Not(z3.And(idx.z >= 0, idx.z < cont.t.len(cont.z))), "IndexError", tgt)
            self.write_path(st, root, steps + [("index", idx)], v); return
        raise Unsupported("assign target")

    def s_AugAssign(self, s, st, pc):
        cur = ast.BinOp(left=self._load(s.target), op=s.op, right=s.value, lineno=s.lineno)
        v = self.expr(cur, st, pc); self.assign(s.target, v, st, pc)
        return [Outcome("normal", st, pc)]
    def _load(self, t):
        import copy
        t2 = copy.deepcopy(t)
        for n in ast.walk(t2):
            if hasattr(n, "ctx"): n.ctx = ast.Load()
        return t2

    def s_If(self, s, st, pc):
        c = self.expr(s.test, st, pc)
        outs = []
        outs += self.block(s.body, st.copy(), pc + [c.z])
        outs += self.block(s.orelse, st.copy(), pc + [z3.Not(c.z)]) if s.orelse else [Outcome("normal", st.copy(), pc + [z3.Not(c.z)])]
        return outs

    # ------------------------------------------------------------------ loops
    def assigned_roots(self, body):
        names = set()
        for n in ast.walk(ast.Module(body=body, type_ignores=[])):
            if isinstance(n, (ast.Assign, ast.AugAssign, ast.AnnAssign)):
                for t in (n.targets if isinstance(n, ast.Assign) else [n.target]):
                    while isinstance(t, (ast.Attribute, ast.Subscript)): t = t.value
                    if isinstance(t, ast.Name): names.add(t.id)
                    if isinstance(t, ast.Tuple):
                        for e in t.elts:
                            if isinstance(e, ast.Name): names.add(e.id)
            if isinstance(n, ast.For):
                for e in ast.walk(n.target):
                    if isinstance(e, ast.Name): names.add(e.id)
            if isinstance(n, ast.Call) and isinstance(n.func, ast.Attribute) and n.func.attr in ("append", "pop", "extend", "add", "remove"):
                t = n.func.value
                while isinstance(t, (ast.Attribute, ast.Subscript)): t = t.value
                if isinstance(t, ast.Name): names.add(t.id)
        return names

    def wf(self, v, depth=0):
        """type invariants of a well-typed Python value: list lengths are non-negative (recursively)"""
        if isinstance(v.t, TObj):
            out = []
            for x in v.z.values(): out += self.wf(x, depth)
            return out
        if isinstance(v.t, TList):
            out = [v.t.len(v.z) >= 0]
            if isinstance(v.t.elem, TList) and depth < 2:
                i = z3.Int(f"wf!{next(self.loop_counter)}")
                inner = self.wf(Val(v.t.elem, z3.Select(v.t.arr(v.z), i)), depth + 1)
                out.append(z3.ForAll([i], z3.Implies(z3.And(0 <= i, i < v.t.len(v.z)), z3.And(*inner))))
            return out
        return []

    def havoc(self, st, names):
        for nm in names:
            v = st.env.get(nm)
            if v is None: continue
            if isinstance(v, Ref): continue
            st.env[nm] = self.fresh_like(v, nm)
    def fresh_like(self, v, hint):
        if isinstance(v.t, TObj): return Val(v.t, {k: self.fresh_like(x, k) for k, x in v.z.items()})
        return fresh(v.t, hint)

    def s_For(self, s, st, pc):
        k = self.loop_ids[id(s)]
        lspec = self.spec["loops"][k]
        it = s.iter
        if isinstance(it, ast.Call) and isinstance(it.func, ast.Name) and it.func.id == "range":
            a = [self.expr(x, st, pc).z for x in it.args]
            lo, hi = (z3.IntVal(0), a[0]) if len(a) == 1 else (a[0], a[1])
            def bind(state, g): self.assign(s.target, Val(INT, g["IT"]), state, [])
        elif isinstance(it, ast.Call) and isinstance(it.func, ast.Name) and it.func.id == "enumerate":
            root, steps = self.path_of(it.args[0], st, pc)
            seq = self.read_path(st, root, steps); lo, hi = z3.IntVal(0), seq.t.len(seq.z)
            def bind(state, g):
                self.assign(s.target.elts[0], Val(INT, g["IT"]), state, [])
                state.env[s.target.elts[1].id] = Ref(root, steps + [("index", Val(INT, g["IT"]))])
        elif isinstance(it, (ast.Name, ast.Attribute)):
            root, steps = self.path_of(it, st, pc)
            seq = self.read_path(st, root, steps)
            if not isinstance(seq.t, TList): raise Unsupported("for over " + repr(seq.t))
            lo, hi = z3.IntVal(0), seq.t.len(seq.z)
            def bind(state, g): state.env[s.target.id] = Ref(root, steps + [("index", Val(INT, g["IT"]))])
        else:
            for lp in self.w.loop_patterns:
                r = lp(self, s, st, pc, k, lspec)
                if r is not None: return r
            raise Unsupported("for over " + ast.unparse(it))
        top = z3.If(hi > lo, hi, lo)
        return self.loop_generic(s, st, pc, k, lspec, {"IT": lo}, lambda g: g["IT"] < hi, bind,
                                 lambda g: {"IT": g["IT"] + 1}, lambda g: [lo <= g["IT"], g["IT"] <= top])

    def loop_generic(self, s, st, pc, k, lspec, ghosts0, guard, bind, advance, implicit):
        for nm, e in lspec.get("snap", {}).items():
            st.env[nm] = self.spec_expr(e, st, [])
        mods = self.assigned_roots(s.body) | {n.id for n in ast.walk(s.target) if isinstance(n, ast.Name)}
        for g in lspec.get("ghost_end", []):
            mods |= self.assigned_roots(ast.parse(g).body)
        def invs(state, g):
            s2 = state.copy()
            for nm, z in g.items(): s2.env[nm] = Val(INT, z)
            return [(nm, self.spec_expr(e, s2, []).z) for nm, e in lspec["inv"]]
        for nm, z in invs(st, ghosts0): self.oblige(f"loop{k}.entry.{nm}", "inv.entry", pc, z, s)
        # arbitrary iteration
        st_h = st.copy(); self.havoc(st_h, mods)
        wf_h = [c for nm in mods if isinstance(st_h.env.get(nm), Val) for c in self.wf(st_h.env[nm])]
        g = {nm: z3.Int(f"{nm}{k}!{next(self.loop_counter)}") for nm in ghosts0}
        pc_h = pc + wf_h + implicit(g) + [guard(g)] + [z for _, z in invs(st_h, g)]
        st_b = st_h.copy(); bind(st_b, g)
        for nm, z in g.items(): st_b.env[nm] = Val(INT, z)
        for hi_, (nm, e) in enumerate(lspec.get("hints", [])):
            hz = self.spec_expr(e, st_b, []).z
            self.oblige(f"loop{k}.hint.{nm}", "hint", pc_h, hz, s)
            pc_h = pc_h + [hz]
        outs = []
        for o in self.block(s.body, st_b, pc_h):
            if o.kind in ("normal", "continue"):
                for gs in lspec.get("ghost_end", []):
                    for stmt_ in ast.parse(gs).body:
                        saved = self.mode; self.mode = "spec"
                        try: self.s_Assign(stmt_, o.state, o.pc)
                        finally: self.mode = saved
                g2 = advance(g)
                for nm, z in invs(o.state, g2): self.oblige(f"loop{k}.preserve.{nm}", "inv.preserve", o.pc, z, s)
            elif o.kind == "break": outs.append(Outcome("normal", o.state, o.pc))
            else: outs.append(o)
        # exit
        st_e = st.copy(); self.havoc(st_e, mods)
        ge = {nm: z3.Int(f"{nm}x{k}!{next(self.loop_counter)}") for nm in ghosts0}
        wf_e = [c for nm in mods if isinstance(st_e.env.get(nm), Val) for c in self.wf(st_e.env[nm])]
        pc_e = pc + wf_e + implicit(ge) + [z3.Not(guard(ge))] + [z for _, z in invs(st_e, ge)]
        for nm in list(st_e.env):
            if isinstance(st_e.env[nm], Ref) : pass
        outs.append(Outcome("normal", st_e, pc_e))
        return outs

    # ------------------------------------------------------------------ driver
    def run(self):
        self.mode = "code"
        self.loop_counter_fn = itertools.count()
        st = State()
        params = self.spec.get("params", {})
        for a in self.fn.args.args:
            if a.arg == "self":
                if self.fn.name == "__init__": st.env["self"] = Val(TObj(self.cls), {})
                else: st.env["self"] = Val(TObj(self.cls), {f: fresh(t, f) for f, t in self.w.classes[self.cls]["fields"].items()})
            else:
                st.env[a.arg] = fresh(params[a.arg], a.arg)
        for g in self.spec.get("ghost", []):
            st.env[g] = fresh(params[g], g)
        st.old = st.copy(); self.entry = st.old
        pc = []
        for v in st.env.values():
            if isinstance(v, Val): pc += self.wf(v)
        for nm, e in self.spec.get("requires", []):
            pc.append(self.spec_expr(e, st, []).z)
        self.oblige_canary(pc)
        outs = self.block(self.fn.body, st, pc)
        for o in outs:
            if o.kind in ("normal", "return"):
                s2 = o.state.copy()
                s2.env["result"] = o.value if o.value is not None else Val(NONE, z3.BoolVal(True))
                for nm, e in self.spec.get("ensures", []):
                    self.oblige(f"ensures.{nm}", "ensures", o.pc, self.spec_expr(e, s2, []).z, self.fn)
            elif o.kind == "raise":
                rs = self.spec.get("raises", {}).get(o.exc)
                if rs is None:
                    self.oblige(f"raises.unexpected({o.exc})", "raises", o.pc, z3.BoolVal(False), self.fn)
                else:
                    s2 = o.state.copy()
                    self.oblige(f"raises.{o.exc}.when", "raises", o.pc, self.spec_expr(rs["when"], st.old, []).z, self.fn)
                    for nm, e in rs.get("ensures", []):
                        self.oblige(f"raises.{o.exc}.{nm}", "raises", o.pc, self.spec_expr(e, s2, []).z, self.fn)
        return self.obligations

    def oblige_canary(self, pc):
        ob = Obligation(f"{self.qual}:canary.requires_satisfiable", "canary", self.w.axioms + list(pc), z3.BoolVal(False), self.fn.lineno)
        self.obligations.append(ob)
