"""z3 model -> concrete Python values for the entry state of a function (prototype)."""
import z3
from .core import *
class Reifier:
    def __init__(s, model): s.m = model; s.elem_ids = {}
    def elem(s, zv):
        k = str(s.m.eval(zv, model_completion=True))
        if k not in s.elem_ids: s.elem_ids[k] = len(s.elem_ids)
        return s.elem_ids[k]
    def val(s, v, cls_lookup=None):
        t = v.t
        if isinstance(t, TInt): return s.m.eval(v.z, model_completion=True).as_long()
        if isinstance(t, TBool): return z3.is_true(s.m.eval(v.z, model_completion=True))
        if isinstance(t, TElem): return s.elem(v.z)
        if isinstance(t, TList):
            n = s.m.eval(t.len(v.z), model_completion=True).as_long()
            items = [s.val(Val(t.elem, z3.Select(t.arr(v.z), i))) for i in range(max(n, 0))]
            if t.tagged and z3.is_true(s.m.eval(t.kind(v.z), model_completion=True)): return tuple(items)
            return items
        if isinstance(t, TDict):
            keys = []
            if isinstance(t.k, TElem):
                uni = s.m.get_universe(t.k.sort()) or []
                keys = list(uni)
            out = {}
            for kz in keys:
                if z3.is_true(s.m.eval(z3.Select(t.dom(v.z), kz), model_completion=True)):
                    out[s.elem(kz)] = s.val(Val(t.v, z3.Select(t.val(v.z), kz)))
            return out
        if isinstance(t, TObj):
            return {f: s.val(x) for f, x in v.z.items()}
        raise TypeError(t)
