import ast, os, hashlib
import z3
from .core import *
from .symexec import FnExec

class World:
    def __init__(self, repo, relpath):
        self.repo = repo; self.relpath = relpath
        self.src = open(os.path.join(repo, relpath)).read()
        self.tree = ast.parse(self.src)
        self.classes = {}; self.funcs = {}; self.types = {}; self.specfuns = {}; self.axioms = []; self.elem_consts = {}; self.call_patterns = []; self.lemmas = []; self.loop_patterns = []
    def find_function(self, qual):
        parts = qual.split("."); body = self.tree.body
        for p in parts[:-1]:
            body = next(n for n in body if isinstance(n, ast.ClassDef) and n.name == p).body
        return next(n for n in body if isinstance(n, ast.FunctionDef) and n.name == parts[-1])
    def verify(self, qual, verbose=True):
        ex = FnExec(self, qual)
        obs = ex.run()
        res = []
        for ob in obs:
            discharge(ob)
            ok = (ob.status == "refuted") if ob.kind == "canary" else (ob.status == "proved")
            if verbose: print(f"  {'ok ' if ok else 'FAIL'} {ob.status:8s} {ob.secs*1000:7.1f}ms {ob.name}")
            res.append((ob, ok))
        return ex, res

    def prove_lemmas(self, verbose=True):
        """each lemma: dict(name, base=z3 formula, step=z3 formula, stmt=z3 formula (added to axioms once proved))"""
        ok = True
        for L in self.lemmas:
            for part in ("base", "step"):
                ob = Obligation(f"lemma.{L['name']}.{part}", "lemma", self.axioms, L[part], None); discharge(ob)
                if verbose: print(f"  {'ok ' if ob.status=='proved' else 'FAIL'} {ob.status:8s} {ob.secs*1000:7.1f}ms {ob.name}")
                ok &= ob.status == "proved"
            if ok: self.axioms.append(L["stmt"])
        return ok
