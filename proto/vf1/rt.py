"""Run-time interpretation of the contract language on concrete Python values,
contract wrappers for real functions, and a systematic RNG chooser. Prototype."""
import ast, copy, itertools, random, collections

class ContractViolation(Exception):
    def __init__(s, clause, kind, detail=""):
        super().__init__(f"{kind}:{clause} {detail}"); s.clause, s.kind, s.detail = clause, kind, detail

class Evaluator:
    """evaluates a spec expression (string) in env (name -> python value); old_env for old()"""
    def __init__(s, world, universe=None):
        s.w = world; s.universe = universe or {}
    def ev(s, src, env, old_env=None):
        return s.e(ast.parse(src, mode="eval").body, env, old_env)
    def e(s, n, env, old):
        t = type(n).__name__
        return getattr(s, "e_" + t)(n, env, old)
    def e_Constant(s, n, env, old): return n.value
    def e_Name(s, n, env, old):
        if n.id in env: return env[n.id]
        raise NameError(n.id)
    def e_Attribute(s, n, env, old): return getattr(s.e(n.value, env, old), n.attr)
    def e_Subscript(s, n, env, old): return s.e(n.value, env, old)[s.e(n.slice, env, old)]
    def e_UnaryOp(s, n, env, old):
        v = s.e(n.operand, env, old)
        return (not v) if isinstance(n.op, ast.Not) else -v
    def e_BinOp(s, n, env, old):
        a, b = s.e(n.left, env, old), s.e(n.right, env, old)
        import operator as o
        return {ast.Add: o.add, ast.Sub: o.sub, ast.Mult: o.mul, ast.Div: o.truediv, ast.FloorDiv: o.floordiv, ast.Mod: o.mod}[type(n.op)](a, b)
    def e_BoolOp(s, n, env, old):
        if isinstance(n.op, ast.And):
            for v in n.values:
                if not s.e(v, env, old): return False
            return True
        for v in n.values:
            if s.e(v, env, old): return True
        return False
    def e_IfExp(s, n, env, old): return s.e(n.body, env, old) if s.e(n.test, env, old) else s.e(n.orelse, env, old)
    def e_Compare(s, n, env, old):
        import operator as o
        left = s.e(n.left, env, old)
        for op, rn in zip(n.ops, n.comparators):
            right = s.e(rn, env, old)
            f = {ast.Eq: o.eq, ast.NotEq: o.ne, ast.Lt: o.lt, ast.LtE: o.le, ast.Gt: o.gt, ast.GtE: o.ge,
                 ast.In: lambda a, b: a in b, ast.NotIn: lambda a, b: a not in b, ast.Is: o.is_, ast.IsNot: o.is_not}[type(op)]
            if not f(left, right): return False
            left = right
        return True
    def e_Call(s, n, env, old):
        f = n.func.id
        if f == "len": return len(s.e(n.args[0], env, old))
        if f == "old": return s.e(n.args[0], old, old)
        if f == "implies": return (not s.e(n.args[0], env, old)) or s.e(n.args[1], env, old)
        if f in ("forall", "exists"):
            var = n.args[0].id; lo, hi = s.e(n.args[1], env, old), s.e(n.args[2], env, old)
            def body(i):
                e2 = dict(env); e2[var] = i
                o2 = dict(old) if old is not None else None
                if o2 is not None: o2[var] = i
                return s.e(n.args[3], e2, o2)
            return all(body(i) for i in range(lo, hi)) if f == "forall" else any(body(i) for i in range(lo, hi))
        if f == "forall_elem":
            var = n.args[0].id; dom = s.universe[n.args[1].id]
            def body(x):
                e2 = dict(env); e2[var] = x
                o2 = dict(old) if old is not None else None
                if o2 is not None: o2[var] = x
                return s.e(n.args[2], e2, o2)
            return all(body(x) for x in dom)
        if f == "inv":
            obj = s.e(n.args[0], env, old)
            return all(s.ev(src, {**env, "self": obj}, old) for _, src in s.w.classes[type(obj).__name__]["inv"])
        if f == "is_tuple": return isinstance(s.e(n.args[0], env, old), tuple)
        if f in s.w.rt_specfuns: return s.w.rt_specfuns[f](*[s.e(a, env, old) for a in n.args])
        raise NameError(f)

def wrap_method(world, cls, qual, universe):
    """returns a checked version of cls.<method>: requires -> call real -> ensures / raises"""
    spec = world.funcs[qual]; name = qual.split(".")[-1]; real = getattr(cls, name)
    import inspect
    params = [p for p in inspect.signature(real).parameters if p != "self"]
    def checked(self, *args):
        E = Evaluator(world, universe)
        env = {"self": self, **dict(zip(params, args))}
        if name != "__init__":
            for nm, src in spec.get("requires", []):
                if not E.ev(src, env): raise ContractViolation(f"{qual}:requires.{nm}", "precondition")
        old = copy.deepcopy(env)
        try:
            res = real(self, *args)
        except Exception as ex:
            rs = spec.get("raises", {}).get(type(ex).__name__)
            if rs is None: raise ContractViolation(f"{qual}:raises.unexpected({type(ex).__name__})", "raises", repr(ex))
            if not E.ev(rs["when"], old, old): raise ContractViolation(f"{qual}:raises.{type(ex).__name__}.when", "raises")
            for nm, src in rs.get("ensures", []):
                if not E.ev(src, env, old): raise ContractViolation(f"{qual}:raises.{type(ex).__name__}.{nm}", "raises")
            raise
        if name == "__iter__":
            res = list(res)           # materialise once: checked below, a fresh iterator is returned
        env2 = {**env, "result": res}
        for nm, src in spec.get("ensures", []):
            if not E.ev(src, env2, old): raise ContractViolation(f"{qual}:ensures.{nm}", "postcondition", f"args={args!r}")
        return iter(res) if name == "__iter__" else res
    return checked

class Chooser:
    """systematic enumeration of the outcomes of random.choice / randrange (DFS over choice points)"""
    def __init__(s): s.script = []; s.pos = 0; s.arity = []
    def pick(s, n):
        if n <= 0: raise IndexError("choice from empty")
        if s.pos < len(s.script): c = s.script[s.pos]
        else: s.script.append(0); c = 0
        if s.pos < len(s.arity): s.arity[s.pos] = n
        else: s.arity.append(n)
        s.pos += 1; return c
    def advance(s):
        """next script in lexicographic order; False when exhausted"""
        s.script = s.script[:s.pos]; s.arity = s.arity[:s.pos]
        while s.script and s.script[-1] + 1 >= s.arity[-1]: s.script.pop(); s.arity.pop()
        if not s.script: return False
        s.script[-1] += 1; s.pos = 0; return True
    def reset(s): s.pos = 0
