"""Prototype core of the VC generator: types, symbolic state, expression/statement
execution over real Python ASTs, obligations, z3 discharge.  Throwaway quality."""
import ast, time, hashlib, itertools
import z3

# ----------------------------------------------------------------------------- types
class T:  # type descriptors
    pass
class TInt(T):
    def sort(s): return z3.IntSort()
    def __repr__(s): return "Int"
class TReal(T):
    def sort(s): return z3.RealSort()
    def __repr__(s): return "Real"
class TBool(T):
    def sort(s): return z3.BoolSort()
    def __repr__(s): return "Bool"
class TNone(T):
    def sort(s): return z3.BoolSort()
    def __repr__(s): return "None"
_elem_sorts = {}
class TElem(T):
    def __init__(s, name="Elem"): s.name = name
    def sort(s):
        if s.name not in _elem_sorts: _elem_sorts[s.name] = z3.DeclareSort(s.name)
        return _elem_sorts[s.name]
    def __repr__(s): return s.name
_dt_cache = {}
class TList(T):
    """mutable list / tuple of T: datatype mk(len, arr[, kind])  kind: True=tuple False=list"""
    def __init__(s, elem, tagged=False): s.elem = elem; s.tagged = tagged
    def key(s): return f"List<{s.elem!r}>{'#' if s.tagged else ''}"
    def dt(s):
        k = s.key()
        if k not in _dt_cache:
            d = z3.Datatype(k.replace("<", "_").replace(">", "_").replace("#", "T").replace(",", "_").replace(" ", ""))
            fields = [("len", z3.IntSort()), ("arr", z3.ArraySort(z3.IntSort(), s.elem.sort()))]
            if s.tagged: fields.append(("is_tuple", z3.BoolSort()))
            d.declare("mk", *fields)
            _dt_cache[k] = d.create()
        return _dt_cache[k]
    def sort(s): return s.dt()
    def mk(s, ln, arr, kind=None):
        return s.dt().mk(ln, arr, kind) if s.tagged else s.dt().mk(ln, arr)
    def len(s, v): return s.dt().len(v)
    def arr(s, v): return s.dt().arr(v)
    def kind(s, v): return s.dt().is_tuple(v)
    def __repr__(s): return s.key()
class TDict(T):
    def __init__(s, k, v): s.k = k; s.v = v
    def key(s): return f"Dict<{s.k!r},{s.v!r}>"
    def dt(s):
        k = s.key()
        if k not in _dt_cache:
            d = z3.Datatype(k.replace("<", "_").replace(">", "_").replace(",", "_").replace("#", "T").replace(" ", ""))
            d.declare("mk", ("dom", z3.ArraySort(s.k.sort(), z3.BoolSort())), ("val", z3.ArraySort(s.k.sort(), s.v.sort())))
            _dt_cache[k] = d.create()
        return _dt_cache[k]
    def sort(s): return s.dt()
    def mk(s, dom, val): return s.dt().mk(dom, val)
    def dom(s, v): return s.dt().dom(v)
    def val(s, v): return s.dt().val(v)
    def __repr__(s): return s.key()
class TPair(T):
    def __init__(s, a, b): s.a = a; s.b = b
    def key(s): return f"Pair<{s.a!r},{s.b!r}>"
    def dt(s):
        k = s.key()
        if k not in _dt_cache:
            d = z3.Datatype(k.replace("<", "_").replace(">", "_").replace(",", "_").replace("#", "T").replace(" ", ""))
            d.declare("mk", ("fst", s.a.sort()), ("snd", s.b.sort())); _dt_cache[k] = d.create()
        return _dt_cache[k]
    def sort(s): return s.dt()
    def mk(s, a, b): return s.dt().mk(a, b)
    def fst(s, v): return s.dt().fst(v)
    def snd(s, v): return s.dt().snd(v)
    def __repr__(s): return s.key()
class TOpaque(T):
    """value of an uninterpreted sort that the engine never looks inside (e.g. an nx.Graph that is only read)"""
    def __init__(s, name): s.name = name
    def sort(s):
        if s.name not in _elem_sorts: _elem_sorts[s.name] = z3.DeclareSort(s.name)
        return _elem_sorts[s.name]
    def __repr__(s): return s.name
class TArr(T):
    """ghost total map  K -> V  (plain z3 array)"""
    def __init__(s, k, v): s.k = k; s.v = v
    def sort(s): return z3.ArraySort(s.k.sort(), s.v.sort())
    def __repr__(s): return f"Arr<{s.k!r},{s.v!r}>"
class TObj(T):
    def __init__(s, cls): s.cls = cls
    def __repr__(s): return f"Obj<{s.cls}>"

class Val:
    """typed symbolic value. for TObj: z = dict field -> Val"""
    __slots__ = ("t", "z")
    def __init__(s, t, z): s.t = t; s.z = z
    def __repr__(s): return f"<{s.t!r}: {s.z}>"

_fresh = itertools.count()
def fresh(t, hint="v"):
    n = f"{hint}!{next(_fresh)}"
    if isinstance(t, TObj): raise TypeError
    return Val(t, z3.Const(n, t.sort()))

# ----------------------------------------------------------------------------- obligations
class Obligation:
    def __init__(s, name, kind, hyps, goal, loc):
        s.name, s.kind, s.hyps, s.goal, s.loc = name, kind, list(hyps), goal, loc
        s.status = None; s.model = None; s.secs = 0.0; s.backend = None
    def smt2(s):
        sol = z3.Solver(); sol.add(*s.hyps); sol.add(z3.Not(s.goal)); return sol.to_smt2()

PORTFOLIO = [("z3-ematch", {"smt.mbqi": False, "smt.auto_config": False}), ("z3-default", {})]
def discharge(ob, rlimit=20_000_000, timeout_ms=60_000):
    t0 = time.time()
    for name, opts in PORTFOLIO:
        sol = z3.Solver(); sol.set("timeout", timeout_ms); sol.set("rlimit", rlimit)
        for k, v in opts.items(): sol.set(k, v)
        sol.add(*ob.hyps); sol.add(z3.Not(ob.goal))
        r = sol.check(); ob.backend = name
        if r == z3.unsat: ob.status = "proved"; break
        if r == z3.sat and name == "z3-default": ob.status = "refuted"; ob.model = sol.model(); break
        ob.status = "unknown"
    ob.secs = time.time() - t0
    return ob

# ----------------------------------------------------------------------------- state
class State:
    def __init__(s):
        s.env = {}      # name -> Val | Ref
        s.old = None    # snapshot State for old()
    def copy(s):
        n = State(); n.env = {k: (_copy_val(v)) for k, v in s.env.items()}; n.old = s.old; return n
def _copy_val(v):
    if isinstance(v, Val) and isinstance(v.t, TObj): return Val(v.t, {k: _copy_val(x) for k, x in v.z.items()})
    return v

class Ref:
    """alias to an lvalue path: (root var name, [steps]) step = ('field', name) | ('index', z3 int)"""
    def __init__(s, root, steps): s.root, s.steps = root, steps

class Outcome:
    def __init__(s, kind, state, pc, value=None, exc=None):
        s.kind, s.state, s.pc, s.value, s.exc = kind, state, pc, value, exc   # kind: normal|return|raise|break|continue

class Unsupported(Exception): pass
