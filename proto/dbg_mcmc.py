import sys, importlib, z3, time
sys.path.insert(0, '/root/vf-proto')
from vf2.spec import Registry
from vf2 import lib, idioms
from vf2.sym import FnExec, Theory
from vf2.types import *
reg = Registry('/repo'); lib.install(reg); idioms.install(reg)
import c2.mcmc as M
quals = M.build(reg)
th = Theory(reg); ex = FnExec(reg, "MarkovChainMonteCarloRewiring.swap_condition", th)
# instrument: capture end-of-body states for loop 0
captured = []
orig = ex.loop_generic
obs = ex.run()
cands = [o for o in obs if o.name.endswith("loop0.preserve.p_top")]
print(len(cands), "p_top preserve obligations")
def chk(hyps, goal, label, to=20000):
    for cfg in ({"smt.mbqi": False, "smt.auto_config": False}, {}):
        s = z3.Solver(); s.set("timeout", to)
        for k, v in cfg.items(): s.set(k, v)
        s.add(*hyps); s.add(z3.Not(goal)); t = time.time(); r = s.check()
        if r == z3.unsat: print("   ", label, "PROVED", f"{time.time()-t:.2f}s"); return True
    print("   ", label, r); return False
for o in cands:
    print(o.name, len(o.hyps), "hyps")
    chk(o.hyps, o.goal, "goal")
    chk(o.hyps, z3.BoolVal(False), "hyps inconsistent?", 5000)
o = cands[0]
base = len(th.hyps())
print("theory hyps:", base)
for i, h in enumerate(o.hyps[base:]):
    s = str(h).replace("\n", " ")
    import re; s = re.sub(r"\s+", " ", s)
    print(i, s[:400])
print("GOAL", re.sub(r"\s+", " ", str(o.goal))[:1200])
