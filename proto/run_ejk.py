import sys, time
sys.path.insert(0, '/root/vf-proto')
from vf.world import World
import contracts.ejk as C
repo = sys.argv[1] if len(sys.argv) > 1 else '/repo'
w = World(repo, 'gcmpy/tools/joint_excess_joint_degree.py')
w.classes, w.funcs, w.types, w.specfuns = C.CLASSES, C.FUNCS, C.TYPES, C.SPECFUNS
w.axioms = list(C.AXIOMS); w.lemmas = C.LEMMAS; w.call_patterns = C.PATTERNS; w.loop_patterns = C.LOOP_PATTERNS
t=time.time(); print("lemmas"); w.prove_lemmas()
bad=n=0
for q in C.FUNCS:
    print(q)
    try:
        ex,res = w.verify(q)
    except Exception as e:
        import traceback; traceback.print_exc(); continue
    n+=len(res); bad+=sum(1 for ob,ok in res if not ok and ob.kind!='canary')
print(f"obligations={n} failed={bad} wall={time.time()-t:.2f}s")
