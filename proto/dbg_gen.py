import sys, time, z3
sys.path.insert(0, '/root/vf-proto')
from vf.world import World
from vf.symexec import FnExec
import contracts.gen_fast as C
w = World('/repo', 'gcmpy/gcm_algorithm/gcm_algorithm_fast.py')
w.classes, w.funcs, w.types, w.specfuns = C.CLASSES, C.FUNCS, C.TYPES, C.SPECFUNS
w.axioms = list(C.AXIOMS); w.call_patterns = C.PATTERNS; w.loop_patterns = C.LOOP_PATTERNS
ex = FnExec(w, "GCMAlgorithmFast.random_clustered_graph"); obs = ex.run()
ob = next(o for o in obs if o.name.endswith("loop2.preserve.edge"))
print(len(ob.hyps), "hyps")
for opts in ({}, {"smt.mbqi": False}, {"smt.mbqi": False, "smt.auto_config": False}, {"smt.qi.eager_threshold": 100}):
    sol = z3.Solver(); sol.set("timeout", 30000)
    for k,v in opts.items(): sol.set(k, v)
    sol.add(*ob.hyps); sol.add(z3.Not(ob.goal))
    t=time.time(); r=sol.check(); print(opts, r, f"{time.time()-t:.2f}s")
# cvc5 via smt2
open('/tmp/scratch/edge.smt2','w').write(ob.smt2())
