import sys, os, shutil, tempfile, subprocess
muts = {
 "no_guard": ("        if position != len(self._edges):\n            self._edges[position] = last_item\n            self._edge_hashmap[last_item] = position",
              "        self._edges[position] = last_item\n        self._edge_hashmap[last_item] = position"),
 "pop_order": ("        position = self._edge_hashmap.pop(e)\n        last_item = self._edges.pop()", "        last_item = self._edges.pop()\n        position = self._edge_hashmap.pop(e)"),
 "off_by_one": ("self._edge_hashmap[e] = len(self._edges) - 1", "self._edge_hashmap[e] = len(self._edges)"),
 "add_nocheck": ("        if e in self._edge_hashmap:\n            return\n", ""),
 "forget_map_update": ("            self._edge_hashmap[last_item] = position\n", ""),
 "benign_reorder": ("        self._edges.append(e)\n        self._edge_hashmap[e] = len(self._edges) - 1", "        self._edge_hashmap[e] = len(self._edges)\n        self._edges.append(e)"),
 "benign_rename": ("position", "pos"),
}
src = open('/repo/gcmpy/tools/draw_set.py').read()
for name,(a,b) in muts.items():
    assert a in src, name
    d = tempfile.mkdtemp(prefix='vfm')
    os.makedirs(d+'/gcmpy/tools'); open(d+'/gcmpy/tools/draw_set.py','w').write(src.replace(a,b))
    out = subprocess.run([sys.executable,'run_drawset.py',d],capture_output=True,text=True).stdout
    fails=[l.strip() for l in out.splitlines() if l.strip().startswith('FAIL')]
    print(name, '->', out.strip().splitlines()[-1]); [print('     ',f) for f in fails[:6]]
    shutil.rmtree(d)
