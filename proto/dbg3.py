import sys, importlib, z3, time, re
sys.path.insert(0, '/root/vf-proto')
from vf2.spec import Registry
from vf2 import lib, idioms
from vf2.sym import FnExec, Theory
reg = Registry('/repo'); lib.install(reg); idioms.install(reg)
import c2.mcmc as M; M.build(reg)
th = Theory(reg); ex = FnExec(reg, "MarkovChainMonteCarloRewiring.is_edge_choice_suitable", th); obs = ex.run()
o = next(o for o in obs if o.name.endswith("loop2.preserve.differ"))
base = len(th.hyps()); print(len(o.hyps), "hyps, theory", base)
for i, h in enumerate(o.hyps[base:]):
    print(i, re.sub(r"\s+", " ", str(h))[:260])
print("GOAL", re.sub(r"\s+", " ", str(o.goal))[:400])
