import sys, time, z3, multiprocessing as mp, subprocess, tempfile, os
sys.path.insert(0, '/root/vf-proto')
from vf.world import World
from vf.symexec import FnExec
def cvc(args):
    name, smt = args
    f = tempfile.NamedTemporaryFile("w", suffix=".smt2", delete=False); f.write("(set-logic ALL)\n" + smt); f.close()
    t = time.time(); out = subprocess.run(["cvc5", "--tlimit=20000", f.name], capture_output=True, text=True); os.unlink(f.name)
    return name, (out.stdout.strip() or out.stderr.strip())[:60], time.time() - t
if __name__ == "__main__":
    import contracts.gen_fast as G, contracts.draw_set as D, contracts.joint_degree as J
    targets = []
    w = World('/repo', 'gcmpy/gcm_algorithm/gcm_algorithm_fast.py'); w.classes, w.funcs, w.types, w.specfuns = G.CLASSES, G.FUNCS, G.TYPES, G.SPECFUNS
    w.axioms = list(G.AXIOMS); w.call_patterns = G.PATTERNS; w.loop_patterns = G.LOOP_PATTERNS; targets.append((w, list(G.FUNCS)))
    w = World('/repo', 'gcmpy/tools/draw_set.py'); w.classes, w.funcs, w.types = D.CLASSES, D.FUNCS, D.TYPES; targets.append((w, list(D.FUNCS)))
    w = World('/repo', 'gcmpy/joint_degree/joint_degree.py'); w.classes, w.funcs, w.types, w.specfuns = J.CLASSES, J.FUNCS, J.TYPES, J.SPECFUNS
    w.axioms = list(J.AXIOMS); w.lemmas = J.LEMMAS; w.call_patterns = J.PATTERNS; w.prove_lemmas(verbose=False); targets.append((w, list(J.FUNCS)))
    jobs = []
    for w, fs in targets:
        for q in fs:
            for o in FnExec(w, q).run():
                if o.kind != "canary": jobs.append((o.name, o.smt2()))
    t = time.time()
    with mp.Pool(16) as p: res = p.map(cvc, jobs)
    tally = {}
    for n, r, s in res: tally[r] = tally.get(r, 0) + 1
    print(f"{len(jobs)} obligations, cvc5 pool {time.time()-t:.1f}s", tally)
    for n, r, s in res:
        if r != "unsat": print("   ", n, r, f"{s:.1f}s")
