import sys, importlib, time
sys.path.insert(0, '/root/vf-proto')
from vf.world import World
import contracts.draw_set as C
repo = sys.argv[1] if len(sys.argv) > 1 else '/repo'
w = World(repo, 'gcmpy/tools/draw_set.py')
w.classes, w.funcs, w.types = C.CLASSES, C.FUNCS, C.TYPES
t=time.time(); bad=0; n=0
for q in C.FUNCS:
    print(q)
    ex, res = w.verify(q)
    n += len(res); bad += sum(1 for _, ok in res if not ok)
print(f"obligations={n} failed={bad} wall={time.time()-t:.2f}s")
