import sys, os, shutil, tempfile, subprocess
src = open('/repo/gcmpy/joint_degree/joint_degree.py').read()
fix = ("jds[j] = t", "jds[j] = tuple(t)")
muts = {
 "FIXED": None,
 "plus2": ("t[i] += 1", "t[i] += 2"),
 "range_plus1": ("range(self._motif_sizes[i] - ntop % self._motif_sizes[i])", "range(self._motif_sizes[i] - ntop % self._motif_sizes[i] + 1)"),
 "cond_flip": ("if ntop % self._motif_sizes[i] != 0:", "if ntop % self._motif_sizes[i] == 0:"),
 "randrange_oob": ("random.randrange(0, len(jds))", "random.randrange(0, len(jds) + 1)"),
 "wrong_col": ("t[i] += 1", "t[0] += 1"),
 "minus": ("t[i] += 1", "t[i] -= 1"),
 "benign_rename": ("ntop", "column_total"),
}
for name, m in muts.items():
    s = src.replace(*fix)
    if m: assert m[0] in s, name; s = s.replace(*m)
    d = tempfile.mkdtemp(prefix='vfm'); os.makedirs(d+'/gcmpy/joint_degree'); open(d+'/gcmpy/joint_degree/joint_degree.py','w').write(s)
    out = subprocess.run([sys.executable,'run_hs.py',d],capture_output=True,text=True).stdout
    fails=[l.strip() for l in out.splitlines() if l.strip().startswith('FAIL') and 'canary' not in l]
    print(name, '->', out.strip().splitlines()[-1]); [print('     ',f) for f in fails[:8]]
    shutil.rmtree(d)
