import sys, importlib
sys.path.insert(0, '/root/vf-proto')
from vf2.spec import Registry
from vf2 import lib, idioms
from vf2.driver import verify
if __name__ == "__main__":
    modname = sys.argv[1]; repo = sys.argv[2] if len(sys.argv) > 2 else '/repo'
    reg = Registry(repo); lib.install(reg); idioms.install(reg)
    quals = importlib.import_module(f"c2.{modname}").build(reg)
    print(modname, repo); verify(reg, quals)
